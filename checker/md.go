package main

import (
	"fmt"
	"go/token"
	"go/types"
	"sort"
	"strings"

	"golang.org/x/tools/go/packages"
	"golang.org/x/tools/go/ssa"
)

const (
	gmAst  = "github.com/yuin/goldmark/ast"
	gmExt  = "github.com/yuin/goldmark/extension/ast"
	gmMath = "github.com/litao91/goldmark-mathjax"
)

// nodeClass: classification of every goldmark node type the parser configuration can produce
// (goldmark v1.7.8 ast, extension/ast, goldmark-mathjax).  One reason each.
//
//	block-dispatch : block the renderer must have a case for
//	block-child    : block consumed by its parent's renderer
//	block-other    : block without visible text in this property's construct list / not produced
//	inline-cont    : inline whose text lives in child Text nodes
//	inline-leaf    : inline that carries its own text (no Text children) — must be read explicitly
//	inline-notext  : inline without visible text
var nodeClass = map[string]string{
	gmAst + ".Document":                "block-dispatch",
	gmAst + ".Heading":                 "block-dispatch",
	gmAst + ".Paragraph":               "block-dispatch",
	gmAst + ".List":                    "block-dispatch",
	gmAst + ".Blockquote":              "block-dispatch",
	gmAst + ".FencedCodeBlock":         "block-dispatch",
	gmAst + ".CodeBlock":               "block-dispatch",
	gmAst + ".ThematicBreak":           "block-dispatch",
	gmExt + ".Table":                   "block-dispatch",
	gmAst + ".ListItem":                "block-child", // rendered by renderList
	gmAst + ".TextBlock":               "block-child", // tight list item / table cell content, text extracted by the parent
	gmExt + ".TableHeader":             "block-child",
	gmExt + ".TableRow":                "block-child",
	gmExt + ".TableCell":               "block-child",
	gmAst + ".HTMLBlock":               "block-other", // raw HTML is not in the property's construct list
	gmAst + ".LinkReferenceDefinition": "block-other",
	gmExt + ".FootnoteList":            "block-other", // its paragraphs are walked and rendered as paragraphs
	gmExt + ".Footnote":                "block-other",
	gmExt + ".DefinitionList":          "block-other", // extension not enabled by NewConverter
	gmExt + ".DefinitionTerm":          "block-other",
	gmExt + ".DefinitionDescription":   "block-other",
	gmMath + ".MathBlock":              "block-other", // handled by Kind() comparison in the default arm
	gmAst + ".Text":                    "inline-leaf",
	gmAst + ".String":                  "inline-leaf",
	gmAst + ".AutoLink":                "inline-leaf",
	gmAst + ".CodeSpan":                "inline-cont",
	gmAst + ".Emphasis":                "inline-cont",
	gmAst + ".Link":                    "inline-cont",
	gmAst + ".Image":                   "inline-notext", // alt text handled by renderImage
	gmAst + ".RawHTML":                 "inline-notext",
	gmExt + ".Strikethrough":           "inline-cont",
	gmExt + ".TaskCheckBox":            "inline-notext",
	gmExt + ".FootnoteLink":            "inline-notext",
	gmExt + ".FootnoteBacklink":        "inline-notext",
	gmMath + ".InlineMath":             "inline-cont",
}

func findPkg(p *Program, path string) *packages.Package {
	var res *packages.Package
	packages.Visit(p.AllPkgs, nil, func(x *packages.Package) {
		if x.PkgPath == path {
			res = x
		}
	})
	return res
}

// assertedTypes: concrete node types a function type-switches on (TypeAssert to *T).
func assertedTypes(fn *ssa.Function) map[string]*ssa.TypeAssert {
	out := map[string]*ssa.TypeAssert{}
	for _, f := range withClosures(fn) {
		allInstrs(f, func(in ssa.Instruction) {
			ta, ok := in.(*ssa.TypeAssert)
			if !ok {
				return
			}
			if n := namedOf(ta.AssertedType); n != nil && n.Obj().Pkg() != nil {
				out[n.Obj().Pkg().Path()+"."+n.Obj().Name()] = ta
			}
		})
	}
	return out
}

func ruleDispatchExh(r *Run) {
	p := r.P
	astPkg := findPkg(p, gmAst)
	if astPkg == nil {
		r.Unresolved("package " + gmAst)
		return
	}
	nodeObj := astPkg.Types.Scope().Lookup("Node")
	if nodeObj == nil {
		r.Unresolved(gmAst + ".Node")
		return
	}
	nodeIface := nodeObj.Type().Underlying().(*types.Interface)
	// (1) enumerate node kinds
	var kinds []string
	for _, pp := range []string{gmAst, gmExt, gmMath} {
		pk := findPkg(p, pp)
		if pk == nil {
			r.Unresolved("package " + pp)
			continue
		}
		sc := pk.Types.Scope()
		for _, name := range sc.Names() {
			tn, ok := sc.Lookup(name).(*types.TypeName)
			if !ok || !tn.Exported() {
				continue
			}
			if _, isStruct := tn.Type().Underlying().(*types.Struct); !isStruct {
				continue
			}
			if types.Implements(types.NewPointer(tn.Type()), nodeIface) {
				// base helper types are not node kinds of their own
				if name == "BaseNode" || name == "BaseBlock" || name == "BaseInline" {
					continue
				}
				kinds = append(kinds, pp+"."+name)
			}
		}
	}
	sort.Strings(kinds)
	r.Min("goldmark_node_kinds", len(kinds), 30)
	for _, k := range kinds {
		if _, ok := nodeClass[k]; !ok {
			r.Undecided("dispatch-exh", "classify:"+k, 0, "node type "+k+" is not in the checker's classification table")
		}
	}
	render := r.mustFunc(pkgMd, "(*WordRenderer).Render")
	extract := r.mustFunc(pkgMd, "(*WordRenderer).extractTextContentRecursive")
	inline := r.mustFunc(pkgMd, "(*WordRenderer).renderInlineContent")
	if render == nil || extract == nil || inline == nil {
		return
	}
	renderCases := assertedTypes(render)
	extractCases := assertedTypes(extract)
	inlineCases := assertedTypes(inline)
	short := func(k string) string { return k[strings.LastIndex(k, "/")+1:] }
	for _, k := range kinds {
		switch nodeClass[k] {
		case "block-dispatch":
			ta, ok := renderCases[k]
			detail := "Render has a case for this block kind"
			if !ok {
				detail = "Render has no case for block kind " + short(k) + ": it falls into the default arm (reported as unsupported) and its dedicated rendering is lost"
			}
			pos := render.Pos()
			if ta != nil {
				pos = ta.Pos()
			}
			r.Check("dispatch-exh", "Render:"+short(k), pos, ok, detail)
		case "inline-leaf":
			_, ok := extractCases[k]
			r.Check("dispatch-exh", "extractText:"+short(k), extract.Pos(), ok,
				fmt.Sprintf("%s carries its own text (it has no Text children); extractTextContentRecursive has no case for it, so its text is dropped wherever text is re-extracted (headings, emphasis, links, list items, table cells, default inline arm)", short(k)))
		}
	}
	// (3) sibling agreement: the inline renderer's default arm must fall back to the text extractor
	fallsBack := false
	for _, f := range withClosures(inline) {
		allInstrs(f, func(in ssa.Instruction) {
			if c, ok := in.(*ssa.Call); ok {
				if cal := staticCallee(c); cal != nil && p.staticReach(cal)[extract] {
					fallsBack = true
				}
			}
		})
	}
	r.Check("dispatch-exh", "renderInlineContent:fallback", inline.Pos(), fallsBack, "inline kinds without a dedicated case must contribute their text through the shared extractor")
	_ = inlineCases
	// the extractor recurses into every non-leaf child (finite tree: child obtained from FirstChild/NextSibling)
	rec := false
	allInstrs(extract, func(in ssa.Instruction) {
		if c, ok := in.(*ssa.Call); ok && staticCallee(c) == extract {
			rec = true
		}
	})
	r.Check("dispatch-exh", "extractText:recursion", extract.Pos(), rec, "container inline kinds contribute the text of their children by recursion")
}

// ---------------------------------------------------------------------------
// C20: exporter
// ---------------------------------------------------------------------------

func ruleExportOrder(r *Run) {
	p := r.P
	fn := r.mustFunc(pkgMd, "(*MarkdownWriter).Write")
	if fn == nil {
		return
	}
	// writers: module functions that take a *document.Paragraph resp. *document.Table (beyond the receiver)
	takes := func(cal *ssa.Function, name string) bool {
		if len(cal.Params) < 2 {
			return false
		}
		for _, par := range cal.Params[1:] {
			if typeIs(par.Type(), pkgDoc, name) {
				return true
			}
		}
		return false
	}
	// what a loop body emits: directly, or through a dispatching helper that is handed the element
	// (writeBodyElement(element) with the type switch inside) — helpers are followed while they take
	// neither a paragraph nor a table themselves
	var emits func(f *ssa.Function, blocks map[*ssa.BasicBlock]bool, depth int) (para, table bool, first token.Pos)
	emits = func(f *ssa.Function, blocks map[*ssa.BasicBlock]bool, depth int) (para, table bool, first token.Pos) {
		allInstrs(f, func(in ssa.Instruction) {
			if blocks != nil && !blocks[in.Block()] {
				return
			}
			c, ok := in.(*ssa.Call)
			if !ok {
				return
			}
			cal := staticCallee(c)
			if cal == nil || !p.inModule(cal) || cal.Pkg == nil || cal.Pkg.Pkg.Path() != pkgMd {
				return
			}
			tp, tt := takes(cal, "Paragraph"), takes(cal, "Table")
			if tp || tt {
				para, table = para || tp, table || tt
				if first == token.NoPos {
					first = c.Pos()
				}
				return
			}
			if depth < 2 && cal != f {
				p2, t2, _ := emits(cal, nil, depth+1)
				if (p2 || t2) && first == token.NoPos {
					first = c.Pos()
				}
				para, table = para || p2, table || t2
			}
		})
		return
	}
	var both, stray bool
	pos := fn.Pos()
	nLoops := 0
	for _, l := range naturalLoops(fn) {
		pa, ta, first := emits(fn, l.Body, 0)
		if !pa && !ta {
			continue
		}
		nLoops++
		overElements := false
		for b := range l.Body {
			for _, in := range b.Instrs {
				if ia, ok := in.(*ssa.IndexAddr); ok {
					if ch, _ := addrChain(ia.X); len(ch) > 0 && fieldIs(p, ch[len(ch)-1], pkgDoc, "Body", "Elements") {
						overElements = true
					}
				}
			}
		}
		if pa && ta && overElements {
			both = true
			pos = first
		} else {
			stray = true // a loop that emits only one kind, or walks something else than the element list
			if pos == fn.Pos() {
				pos = first
			}
		}
	}
	if nLoops == 0 {
		r.Unresolved("calls writing paragraphs and tables in (*MarkdownWriter).Write")
		return
	}
	r.Check("export-order", "(*MarkdownWriter).Write", pos, both && !stray,
		"paragraphs and tables must be emitted from ONE loop over Body.Elements so that their interleaving is kept; Write walks all paragraphs first (GetParagraphs) and all tables afterwards (GetTables), so a table between two paragraphs moves to the end of the Markdown")
}

func ruleExportEsc(r *Run) {
	p := r.P
	// the function turning a run into Markdown text
	var fmtFn *ssa.Function
	for _, fn := range p.ModFuncs() {
		if fn.Pkg == nil || fn.Pkg.Pkg.Path() != pkgMd || fn.Parent() != nil {
			continue
		}
		if fn.Signature.Results().Len() == 1 && isStringType(fn.Signature.Results().At(0).Type()) {
			for _, par := range fn.Params {
				if typeIs(par.Type(), pkgDoc, "Run") {
					fmtFn = fn
				}
			}
		}
	}
	if fmtFn == nil {
		r.Unresolved("markdown function (run *document.Run) string")
		return
	}
	// (1) exactly-once emission: every return is "" or depends on Text.Content
	sl := newSlicer(p)
	okOnce := true
	for _, ret := range returnsOf(fmtFn) {
		v := retResult(ret, 0)
		if s, ok := constString(v); ok && s == "" {
			continue
		}
		if !sl.Slice(v).readsField(p, pkgDoc, "Text", "Content") {
			okOnce = false
		}
	}
	r.Check("export-text", shortName(fmtFn), fmtFn.Pos(), okOnce, "every non-empty result of the run formatter contains the run's text")
	// (2) escaping: the text passes through a Markdown escaper before markers are added
	escaped := false
	for f := range p.staticReach(fmtFn) {
		if f == fmtFn {
			continue
		}
		allInstrs(f, func(in ssa.Instruction) {
			if c, ok := in.(*ssa.Call); ok {
				cn := calleeName(c)
				if cn == "strings.NewReplacer" || cn == "strings.ReplaceAll" {
					for _, a := range c.Call.Args {
						for _, e := range append(varargElems(a), a) {
							if e == nil {
								continue
							}
							if s, ok := constString(e); ok && (s == `\*` || s == `\_` || s == "\\\\" || s == "\\`") {
								escaped = true
							}
						}
					}
				}
			}
		})
	}
	r.Check("export-esc", shortName(fmtFn), fmtFn.Pos(), escaped,
		"run text is wrapped in Markdown markers without escaping its own metacharacters (* _ ` | \\): text such as 2*3*4 or snake_case_name changes meaning when the Markdown is converted back, so export→import is not the identity")
}
