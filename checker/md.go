package main

import (
	"fmt"
	"go/token"
	"go/types"
	"regexp/syntax"
	"sort"
	"strings"

	"golang.org/x/tools/go/packages"
	"golang.org/x/tools/go/ssa"
)

const (
	gmAst  = "github.com/yuin/goldmark/ast"
	gmExt  = "github.com/yuin/goldmark/extension/ast"
	gmMath = "github.com/litao91/goldmark-mathjax"
)

// nodeClass: classification of every goldmark node type the parser configuration can produce
// (goldmark v1.7.8 ast, extension/ast, goldmark-mathjax).  One reason each.
//
//	block-dispatch : block the renderer must have a case for
//	block-child    : block consumed by its parent's renderer
//	block-other    : block without visible text in this property's construct list / not produced
//	inline-cont    : inline whose text lives in child Text nodes
//	inline-leaf    : inline that carries its own text (no Text children) — must be read explicitly
//	inline-notext  : inline without visible text
var nodeClass = map[string]string{
	gmAst + ".Document":                "block-dispatch",
	gmAst + ".Heading":                 "block-dispatch",
	gmAst + ".Paragraph":               "block-dispatch",
	gmAst + ".List":                    "block-dispatch",
	gmAst + ".Blockquote":              "block-dispatch",
	gmAst + ".FencedCodeBlock":         "block-dispatch",
	gmAst + ".CodeBlock":               "block-dispatch",
	gmAst + ".ThematicBreak":           "block-dispatch",
	gmExt + ".Table":                   "block-dispatch",
	gmAst + ".ListItem":                "block-child", // rendered by renderList
	gmAst + ".TextBlock":               "block-child", // tight list item / table cell content, text extracted by the parent
	gmExt + ".TableHeader":             "block-child",
	gmExt + ".TableRow":                "block-child",
	gmExt + ".TableCell":               "block-child",
	gmAst + ".HTMLBlock":               "block-other", // raw HTML is not in the property's construct list
	gmAst + ".LinkReferenceDefinition": "block-other",
	gmExt + ".FootnoteList":            "block-other", // its paragraphs are walked and rendered as paragraphs
	gmExt + ".Footnote":                "block-other",
	gmExt + ".DefinitionList":          "block-other", // extension not enabled by NewConverter
	gmExt + ".DefinitionTerm":          "block-other",
	gmExt + ".DefinitionDescription":   "block-other",
	gmMath + ".MathBlock":              "block-other", // handled by Kind() comparison in the default arm
	gmAst + ".Text":                    "inline-leaf",
	gmAst + ".String":                  "inline-leaf",
	gmAst + ".AutoLink":                "inline-leaf",
	gmAst + ".CodeSpan":                "inline-cont",
	gmAst + ".Emphasis":                "inline-cont",
	gmAst + ".Link":                    "inline-cont",
	gmAst + ".Image":                   "inline-notext", // alt text handled by renderImage
	gmAst + ".RawHTML":                 "inline-notext",
	gmExt + ".Strikethrough":           "inline-cont",
	gmExt + ".TaskCheckBox":            "inline-notext",
	gmExt + ".FootnoteLink":            "inline-notext",
	gmExt + ".FootnoteBacklink":        "inline-notext",
	gmMath + ".InlineMath":             "inline-cont",
}

func findPkg(p *Program, path string) *packages.Package {
	var res *packages.Package
	packages.Visit(p.AllPkgs, nil, func(x *packages.Package) {
		if x.PkgPath == path {
			res = x
		}
	})
	return res
}

// assertedTypes: concrete node types a function type-switches on (TypeAssert to *T).
func assertedTypes(fn *ssa.Function) map[string]*ssa.TypeAssert {
	out := map[string]*ssa.TypeAssert{}
	for _, f := range withClosures(fn) {
		allInstrs(f, func(in ssa.Instruction) {
			ta, ok := in.(*ssa.TypeAssert)
			if !ok {
				return
			}
			if n := namedOf(ta.AssertedType); n != nil && n.Obj().Pkg() != nil {
				out[n.Obj().Pkg().Path()+"."+n.Obj().Name()] = ta
			}
		})
	}
	return out
}

func ruleDispatchExh(r *Run) {
	p := r.P
	astPkg := findPkg(p, gmAst)
	if astPkg == nil {
		r.Unresolved("package " + gmAst)
		return
	}
	nodeObj := astPkg.Types.Scope().Lookup("Node")
	if nodeObj == nil {
		r.Unresolved(gmAst + ".Node")
		return
	}
	nodeIface := nodeObj.Type().Underlying().(*types.Interface)
	// (1) enumerate node kinds
	var kinds []string
	for _, pp := range []string{gmAst, gmExt, gmMath} {
		pk := findPkg(p, pp)
		if pk == nil {
			r.Unresolved("package " + pp)
			continue
		}
		sc := pk.Types.Scope()
		for _, name := range sc.Names() {
			tn, ok := sc.Lookup(name).(*types.TypeName)
			if !ok || !tn.Exported() {
				continue
			}
			if _, isStruct := tn.Type().Underlying().(*types.Struct); !isStruct {
				continue
			}
			if types.Implements(types.NewPointer(tn.Type()), nodeIface) {
				// base helper types are not node kinds of their own
				if name == "BaseNode" || name == "BaseBlock" || name == "BaseInline" {
					continue
				}
				kinds = append(kinds, pp+"."+name)
			}
		}
	}
	sort.Strings(kinds)
	r.Min("goldmark_node_kinds", len(kinds), 30)
	for _, k := range kinds {
		if _, ok := nodeClass[k]; !ok {
			r.Undecided("dispatch-exh", "classify:"+k, 0, "node type "+k+" is not in the checker's classification table")
		}
	}
	render := r.mustFunc(pkgMd, "(*WordRenderer).Render")
	extract := r.mustFunc(pkgMd, "(*WordRenderer).extractTextContentRecursive")
	inline := r.mustFunc(pkgMd, "(*WordRenderer).renderInlineContent")
	if render == nil || extract == nil || inline == nil {
		return
	}
	renderCases := assertedTypes(render)
	extractCases := assertedTypes(extract)
	inlineCases := assertedTypes(inline)
	short := func(k string) string { return k[strings.LastIndex(k, "/")+1:] }
	for _, k := range kinds {
		switch nodeClass[k] {
		case "block-dispatch":
			ta, ok := renderCases[k]
			detail := "Render has a case for this block kind"
			if !ok {
				detail = "Render has no case for block kind " + short(k) + ": it falls into the default arm (reported as unsupported) and its dedicated rendering is lost"
			}
			pos := render.Pos()
			if ta != nil {
				pos = ta.Pos()
			}
			r.Check("dispatch-exh", "Render:"+short(k), pos, ok, detail)
		case "inline-leaf":
			_, ok := extractCases[k]
			r.Check("dispatch-exh", "extractText:"+short(k), extract.Pos(), ok,
				fmt.Sprintf("%s carries its own text (it has no Text children); extractTextContentRecursive has no case for it, so its text is dropped wherever text is re-extracted (headings, emphasis, links, list items, table cells, default inline arm)", short(k)))
		}
	}
	// (3) sibling agreement: the inline renderer's default arm must fall back to the text extractor
	fallsBack := false
	for _, f := range withClosures(inline) {
		allInstrs(f, func(in ssa.Instruction) {
			if c, ok := in.(*ssa.Call); ok {
				if cal := staticCallee(c); cal != nil && p.staticReach(cal)[extract] {
					fallsBack = true
				}
			}
		})
	}
	r.Check("dispatch-exh", "renderInlineContent:fallback", inline.Pos(), fallsBack, "inline kinds without a dedicated case must contribute their text through the shared extractor")
	// (A rule "(3b) every other statically reachable inline walker needs cases for the childless
	// text kinds" was tried after round 5 and withdrawn: renderTaskItemContent lacks them but is only
	// reached under a condition goldmark never makes true, so on today's tree the report would be
	// a false alarm; whether such a walker is live is not a structural fact.  See DESIGN.md §15.)
	_ = inlineCases
	// the extractor recurses into every non-leaf child (finite tree: child obtained from FirstChild/NextSibling)
	rec := false
	allInstrs(extract, func(in ssa.Instruction) {
		if c, ok := in.(*ssa.Call); ok && staticCallee(c) == extract {
			rec = true
		}
	})
	r.Check("dispatch-exh", "extractText:recursion", extract.Pos(), rec, "container inline kinds contribute the text of their children by recursion")
}

// ---------------------------------------------------------------------------
// C20: exporter
// ---------------------------------------------------------------------------

func ruleExportOrder(r *Run) {
	p := r.P
	fn := r.mustFunc(pkgMd, "(*MarkdownWriter).Write")
	if fn == nil {
		return
	}
	// writers: module functions that take a *document.Paragraph resp. *document.Table (beyond the receiver)
	takes := func(cal *ssa.Function, name string) bool {
		if len(cal.Params) < 2 {
			return false
		}
		for _, par := range cal.Params[1:] {
			if typeIs(par.Type(), pkgDoc, name) {
				return true
			}
		}
		return false
	}
	// what a loop body emits: directly, or through a dispatching helper that is handed the element
	// (writeBodyElement(element) with the type switch inside) — helpers are followed while they take
	// neither a paragraph nor a table themselves
	var emits func(f *ssa.Function, blocks map[*ssa.BasicBlock]bool, depth int) (para, table bool, first token.Pos)
	emits = func(f *ssa.Function, blocks map[*ssa.BasicBlock]bool, depth int) (para, table bool, first token.Pos) {
		allInstrs(f, func(in ssa.Instruction) {
			if blocks != nil && !blocks[in.Block()] {
				return
			}
			c, ok := in.(*ssa.Call)
			if !ok {
				return
			}
			cal := staticCallee(c)
			if cal == nil || !p.inModule(cal) || cal.Pkg == nil || cal.Pkg.Pkg.Path() != pkgMd {
				return
			}
			tp, tt := takes(cal, "Paragraph"), takes(cal, "Table")
			if tp || tt {
				para, table = para || tp, table || tt
				if first == token.NoPos {
					first = c.Pos()
				}
				return
			}
			if depth < 2 && cal != f {
				p2, t2, _ := emits(cal, nil, depth+1)
				if (p2 || t2) && first == token.NoPos {
					first = c.Pos()
				}
				para, table = para || p2, table || t2
			}
		})
		return
	}
	var both, stray bool
	pos := fn.Pos()
	nLoops := 0
	// the traversal may have been moved into a private helper of Write (render())
	type floop struct {
		f *ssa.Function
		l *natLoop
	}
	var floops []floop
	group := helperGroup(p, fn)
	// …also when a second entry point (WriteTo) shares it: the unexported methods of the same
	// receiver that Write calls directly
	allInstrs(fn, func(in ssa.Instruction) {
		if c, ok := in.(*ssa.Call); ok {
			if g := staticCallee(c); g != nil && p.inModule(g) && g.Signature.Recv() != nil && fn.Signature.Recv() != nil &&
				types.Identical(g.Signature.Recv().Type(), fn.Signature.Recv().Type()) && g.Object() != nil && !g.Object().Exported() {
				known := false
				for _, x := range group {
					if x == g {
						known = true
					}
				}
				// only the traversal itself: a method that walks Body.Elements
				walks := false
				allInstrs(g, func(in2 ssa.Instruction) {
					if ia, ok := in2.(*ssa.IndexAddr); ok {
						if ch, _ := addrChain(ia.X); len(ch) > 0 && fieldIs(p, ch[len(ch)-1], pkgDoc, "Body", "Elements") {
							walks = true
						}
					}
				})
				if !known && walks {
					group = append(group, g)
				}
			}
		}
	})
	for _, g := range group {
		if g.Parent() != nil {
			continue
		}
		takesElem := false
		for _, par := range g.Params[1:] {
			if typeIs(par.Type(), pkgDoc, "Paragraph") || typeIs(par.Type(), pkgDoc, "Table") || typeIs(par.Type(), pkgDoc, "TableCell") || typeIs(par.Type(), pkgDoc, "Run") {
				takesElem = true
			}
		}
		if takesElem && g != fn {
			continue // an element writer, not the traversal
		}
		if g != fn {
			walks := false
			allInstrs(g, func(in2 ssa.Instruction) {
				if ia, ok := in2.(*ssa.IndexAddr); ok {
					if ch, _ := addrChain(ia.X); len(ch) > 0 && fieldIs(p, ch[len(ch)-1], pkgDoc, "Body", "Elements") {
						walks = true
					}
				}
			})
			if !walks {
				continue // a helper of the element writers, not the traversal
			}
		}
		for _, l := range naturalLoops(g) {
			floops = append(floops, floop{g, l})
		}
	}
	for _, fl := range floops {
		l := fl.l
		pa, ta, first := emits(fl.f, l.Body, 0)
		if !pa && !ta {
			continue
		}
		nLoops++
		overElements := false
		for b := range l.Body {
			for _, in := range b.Instrs {
				if ia, ok := in.(*ssa.IndexAddr); ok {
					if ch, _ := addrChain(ia.X); len(ch) > 0 && fieldIs(p, ch[len(ch)-1], pkgDoc, "Body", "Elements") {
						overElements = true
					}
				}
			}
		}
		if pa && ta && overElements {
			both = true
			pos = first
		} else {
			stray = true // a loop that emits only one kind, or walks something else than the element list
			if pos == fn.Pos() {
				pos = first
			}
		}
	}
	if nLoops == 0 {
		r.Unresolved("calls writing paragraphs and tables in (*MarkdownWriter).Write")
		return
	}
	r.Check("export-order", "(*MarkdownWriter).Write", pos, both && !stray,
		"paragraphs and tables must be emitted from ONE loop over Body.Elements so that their interleaving is kept; Write walks all paragraphs first (GetParagraphs) and all tables afterwards (GetTables), so a table between two paragraphs moves to the end of the Markdown")
}

func ruleExportEsc(r *Run) {
	p := r.P
	// the function turning a run into Markdown text
	var fmtFn *ssa.Function
	for _, fn := range p.ModFuncs() {
		if fn.Pkg == nil || fn.Pkg.Pkg.Path() != pkgMd || fn.Parent() != nil {
			continue
		}
		if fn.Signature.Results().Len() == 1 && isStringType(fn.Signature.Results().At(0).Type()) {
			for _, par := range fn.Params {
				if typeIs(par.Type(), pkgDoc, "Run") {
					fmtFn = fn
				}
			}
		}
	}
	// …or the appending form: func(dst *strings.Builder, run *document.Run) — what it produces is
	// what it writes into dst
	appending := false
	if fmtFn == nil {
		for _, fn := range p.ModFuncs() {
			if fn.Pkg == nil || fn.Pkg.Pkg.Path() != pkgMd || fn.Parent() != nil || fn.Signature.Results().Len() != 0 {
				continue
			}
			hasRun, hasDst := false, false
			for _, par := range fn.Params {
				if typeIs(par.Type(), pkgDoc, "Run") {
					hasRun = true
				}
				if typeIs(par.Type(), "strings", "Builder") || typeIs(par.Type(), "bytes", "Buffer") {
					hasDst = true
				}
			}
			if hasRun && hasDst {
				fmtFn, appending = fn, true
			}
		}
	}
	if fmtFn == nil {
		r.Unresolved("markdown function (run *document.Run) string")
		return
	}
	// (1) exactly-once emission: every return is "" or depends on Text.Content
	sl := newSlicer(p)
	okOnce := true
	if appending {
		// the run's text is written, and exactly one write carries it
		var writes []*ssa.Call
		dsl := newSlicer(p)
		dsl.dataOnly = true
		allInstrs(fmtFn, func(in ssa.Instruction) {
			c, ok := in.(*ssa.Call)
			if !ok || len(c.Call.Args) < 2 {
				return
			}
			switch calleeName(c) {
			case "(*strings.Builder).WriteString", "(*bytes.Buffer).WriteString", "(*strings.Builder).Write", "(*bytes.Buffer).Write":
				if dsl.Slice(c.Call.Args[1]).readsField(p, pkgDoc, "Text", "Content") {
					writes = append(writes, c)
				}
			}
		})
		okOnce = len(writes) >= 1
		for _, a := range writes {
			for _, b := range writes {
				if a == b {
					continue
				}
				if a.Block() == b.Block() || reachableBlocks(a.Block(), nil)[b.Block()] && a.Block() != b.Block() {
					okOnce = false // two writes of the text on one path
				}
			}
		}
	}
	for _, ret := range returnsOf(fmtFn) {
		if appending {
			break
		}
		v := retResult(ret, 0)
		if s, ok := constString(v); ok && s == "" {
			continue
		}
		if !sl.Slice(v).readsField(p, pkgDoc, "Text", "Content") {
			okOnce = false
		}
	}
	r.Check("export-text", "run-formatter", fmtFn.Pos(), okOnce, "every non-empty result of the run formatter contains the run's text")
	// (2) escaping: the text passes through a Markdown escaper before markers are added
	escaped := false
	for f := range p.staticReach(fmtFn) {
		if f == fmtFn {
			continue
		}
		allInstrs(f, func(in ssa.Instruction) {
			if c, ok := in.(*ssa.Call); ok {
				cn := calleeName(c)
				if cn == "strings.NewReplacer" || cn == "strings.ReplaceAll" {
					for _, a := range c.Call.Args {
						for _, e := range append(varargElems(a), a) {
							if e == nil {
								continue
							}
							if s, ok := constString(e); ok && (s == `\*` || s == `\_` || s == "\\\\" || s == "\\`") {
								escaped = true
							}
						}
					}
				}
			}
		})
	}
	r.Check("export-esc", "run-formatter", fmtFn.Pos(), escaped,
		"run text is wrapped in Markdown markers without escaping its own metacharacters (* _ ` | \\): text such as 2*3*4 or snake_case_name changes meaning when the Markdown is converted back, so export→import is not the identity")
}

// ---------------------------------------------------------------------------
// R-FIXPOINT-PROGRESS (C19): "converting any byte string terminates".  The LaTeX conversion rewrites
// to a fixpoint:  for re.MatchString(s) { s = re.ReplaceAllStringFunc(s, f) }.  The loop ends only if
// every application of f removes the match it was given; a callback that can hand its argument
// back unchanged ("leave \frac{}{2} as it is") keeps the condition true for ever.  A `return match`
// is accepted only where it is infeasible: in the branch where FindStringSubmatch of the SAME
// pattern on that match does not have NumSubexp+1 elements.
// ---------------------------------------------------------------------------

func ruleFixpointProgress(r *Run) {
	p := r.P
	n := 0
	for _, fn := range p.ModFuncs() {
		if fn.Pkg == nil || fn.Pkg.Pkg.Path() != pkgMd {
			continue
		}
		for _, l := range naturalLoops(fn) {
			iff, ok := l.Header.Instrs[len(l.Header.Instrs)-1].(*ssa.If)
			if !ok {
				continue
			}
			mc, ok := iff.Cond.(*ssa.Call)
			if !ok || calleeName(mc) != "(*regexp.Regexp).MatchString" {
				continue
			}
			re := mc.Call.Args[0]
			pats := regexPatternsOf(re)
			// the rewriting call in the body
			for b := range l.Body {
				for _, in := range b.Instrs {
					rc, ok := in.(*ssa.Call)
					if !ok || calleeName(rc) != "(*regexp.Regexp).ReplaceAllStringFunc" || len(rc.Call.Args) < 3 {
						continue
					}
					if !sameRegexp(rc.Call.Args[0], re) {
						continue
					}
					var lit *ssa.Function
					switch f := rc.Call.Args[2].(type) {
					case *ssa.MakeClosure:
						lit, _ = f.Fn.(*ssa.Function)
					case *ssa.Function:
						lit = f
					}
					if lit == nil || len(lit.Params) != 1 {
						continue
					}
					n++
					match := ssa.Value(lit.Params[0])
					nsub := -1
					if len(pats) == 1 {
						if rx, err := syntax.Parse(pats[0], syntax.Perl); err == nil {
							nsub = rx.MaxCap()
						}
					}
					bad := ""
					for _, ret := range returnsOf(lit) {
						v := retResult(ret, 0)
						returnsArg := v == match
						if ph, ok := v.(*ssa.Phi); ok {
							for _, e := range ph.Edges {
								if e == match {
									returnsArg = true
								}
							}
						}
						if !returnsArg {
							continue
						}
						if nsub >= 0 && infeasibleSubmatchLen(lit, ret.Block(), match, nsub+1) {
							continue
						}
						bad = p.pos(ret.Pos())
					}
					r.Check("fixpoint-progress", fmt.Sprintf("%s#%d", shortName(fn), n), rc.Pos(), bad == "",
						fmt.Sprintf("%s rewrites with ReplaceAllStringFunc until the pattern no longer matches; the callback can return its argument unchanged (%s): the text then still matches and the loop never ends — the conversion hangs on such input", shortName(fn), bad))
				}
			}
		}
	}
	r.Min("fixpoint_rewrite_loops", n, 2)
}

func sameRegexp(a, b ssa.Value) bool {
	if a == b {
		return true
	}
	la, ok1 := a.(*ssa.UnOp)
	lb, ok2 := b.(*ssa.UnOp)
	if ok1 && ok2 && la.X == lb.X {
		return true
	}
	fa, ok1 := a.(*ssa.FreeVar)
	_ = fa
	return resolveFree(a) == resolveFree(b)
}

// infeasibleSubmatchLen: block `at` of lit is reachable only when len(FindStringSubmatch(match)) != want.
func infeasibleSubmatchLen(lit *ssa.Function, at *ssa.BasicBlock, match ssa.Value, want int) bool {
	for _, b := range lit.Blocks {
		if len(b.Instrs) == 0 || len(b.Succs) != 2 {
			continue
		}
		iff, ok := b.Instrs[len(b.Instrs)-1].(*ssa.If)
		if !ok {
			continue
		}
		bo, ok := iff.Cond.(*ssa.BinOp)
		if !ok || (bo.Op != token.EQL && bo.Op != token.NEQ) {
			continue
		}
		k, isC := constInt(bo.Y)
		lc, ok := bo.X.(*ssa.Call)
		if !isC || !ok || int(k) != want {
			continue
		}
		if bi, ok := lc.Call.Value.(*ssa.Builtin); !ok || bi.Name() != "len" {
			continue
		}
		sm, ok := lc.Call.Args[0].(*ssa.Call)
		if !ok || !strings.Contains(calleeName(sm), "FindStringSubmatch") || len(sm.Call.Args) < 2 || sm.Call.Args[1] != match {
			continue
		}
		neq := b.Succs[1]
		if bo.Op == token.NEQ {
			neq = b.Succs[0]
		}
		eqS := b.Succs[0]
		if bo.Op == token.NEQ {
			eqS = b.Succs[1]
		}
		if edgeRegion(b, neq)[at] && !edgeRegion(b, eqS)[at] {
			return true
		}
	}
	return false
}

// ---------------------------------------------------------------------------
// R-SOURCE-AGREE (C19): goldmark nodes carry byte offsets into the buffer that was PARSED; the
// renderer must read text from that very buffer.  In the conversion entry point the value handed to
// text.NewReader and the value stored as the renderer's source are the same SSA value (a normalised
// copy for the parser with the original for the renderer shifts every segment).
// ---------------------------------------------------------------------------

func ruleSourceAgree(r *Run) {
	p := r.P
	n := 0
	for _, fn := range p.ModFuncs() {
		if fn.Pkg == nil || fn.Pkg.Pkg.Path() != pkgMd {
			continue
		}
		var parsed []ssa.Value
		allInstrs(fn, func(in ssa.Instruction) {
			if c, ok := in.(*ssa.Call); ok && strings.HasSuffix(calleeName(c), "goldmark/text.NewReader") {
				parsed = append(parsed, c.Call.Args[0])
			}
		})
		if len(parsed) == 0 {
			continue
		}
		// []byte values stored into fields of a renderer built here, or passed to module functions
		allInstrs(fn, func(in ssa.Instruction) {
			st, ok := in.(*ssa.Store)
			if !ok || st.Val.Type().String() != "[]byte" {
				return
			}
			fv, base := fieldOfAddr(st.Addr)
			if fv == nil {
				return
			}
			if _, fresh := stripLoads(base).(*ssa.Alloc); !fresh {
				return
			}
			n++
			same := false
			for _, pv := range parsed {
				if pv == st.Val {
					same = true
				}
			}
			r.Check("source-agree", shortName(fn)+":"+fv.Name(), st.Pos(), same,
				fmt.Sprintf("%s parses one byte slice and gives the renderer another (%s) as the source the node offsets refer to: every text segment is read at the wrong position as soon as the two differ (CRLF input, a BOM)", shortName(fn), fv.Name()))
		})
	}
	r.Min("renderer_source_stores", n, 1)
}

// ---------------------------------------------------------------------------
// R-SEGMENT-VALUE (C19): the text of a goldmark segment is Segment.Value(source): besides the bytes
// [Start,Stop) it materialises the segment's Padding (the columns of a partially consumed tab in
// indented code).  Slicing the source with Start/Stop directly loses that indentation.
// ---------------------------------------------------------------------------

func ruleSegmentValue(r *Run) {
	p := r.P
	nVal := 0
	isSegField := func(v ssa.Value, names ...string) bool {
		var fv *types.Var
		switch x := v.(type) {
		case *ssa.FieldAddr:
			fv, _ = fieldOfAddr(x)
		case *ssa.Field:
			fv, _ = fieldOfVal(x)
		}
		if fv == nil || fv.Pkg() == nil || !strings.HasSuffix(fv.Pkg().Path(), "goldmark/text") {
			return false
		}
		for _, n := range names {
			if fv.Name() == n {
				return true
			}
		}
		return false
	}
	for _, fn := range p.ModFuncs() {
		if fn.Pkg == nil || fn.Pkg.Pkg.Path() != pkgMd {
			continue
		}
		readsPadding := false
		var raw []*ssa.Slice
		allInstrs(fn, func(in ssa.Instruction) {
			if c, ok := in.(ssa.CallInstruction); ok {
				if cal := staticCallee(c); cal != nil && cal.Name() == "Value" && cal.Pkg != nil && strings.HasSuffix(cal.Pkg.Pkg.Path(), "goldmark/text") {
					nVal++
				}
			}
			if v, ok := in.(ssa.Value); ok && isSegField(v, "Padding") {
				readsPadding = true
			}
			sl, ok := in.(*ssa.Slice)
			if !ok {
				return
			}
			if bt, ok := sl.X.Type().Underlying().(*types.Slice); !ok || bt.Elem().String() != "byte" {
				return
			}
			// cutting a segment's text out needs both ends; a prefix source[:start] (to count the lines
			// in front of a node) or a suffix takes no segment's text
			if sl.Low == nil || sl.High == nil {
				return
			}
			for _, bound := range []ssa.Value{sl.Low, sl.High} {
				if bound == nil {
					continue
				}
				seen := map[ssa.Value]bool{}
				var dep func(v ssa.Value) bool
				dep = func(v ssa.Value) bool {
					if v == nil || seen[v] {
						return false
					}
					seen[v] = true
					if isSegField(v, "Start", "Stop") {
						return true
					}
					switch x := v.(type) {
					case *ssa.UnOp:
						return dep(x.X)
					case *ssa.BinOp:
						return dep(x.X) || dep(x.Y)
					case *ssa.Phi:
						for _, e := range x.Edges {
							if dep(e) {
								return true
							}
						}
					case *ssa.Convert:
						return dep(x.X)
					}
					return false
				}
				if dep(bound) {
					raw = append(raw, sl)
					break
				}
			}
		})
		for _, sl := range raw {
			r.Check("segment-value", shortName(fn)+":raw-slice", sl.Pos(), readsPadding,
				fmt.Sprintf("%s cuts a segment's text out of the source with its Start/Stop offsets instead of Segment.Value(): the segment's padding (indentation left over from a partially consumed tab in a code line) is lost", shortName(fn)))
		}
	}
	r.Min("segment_value_calls", nVal, 1)
}

// ---------------------------------------------------------------------------
// R-EXPORT-ALL-CELLS (C20): "every run's text present exactly once" — for tables: every cell of
// every row is exported.  Rows of a document table differ in length (horizontal merges remove
// cells), so the cells of a row must be visited by a range over THAT row's cells; a counted loop
// bounded by the header's cell count drops the surplus cells of longer rows.
// ---------------------------------------------------------------------------

func ruleExportAllCells(r *Run) {
	p := r.P
	n := 0
	for _, fn := range p.ModFuncs() {
		if fn.Pkg == nil || fn.Pkg.Pkg.Path() != pkgMd {
			continue
		}
		loops := naturalLoops(fn)
		allInstrs(fn, func(in ssa.Instruction) {
			c, ok := in.(*ssa.Call)
			if !ok {
				return
			}
			cal := staticCallee(c)
			if cal == nil || !p.inModule(cal) || cal.Pkg == nil || cal.Pkg.Pkg.Path() != pkgMd {
				return
			}
			ai := -1
			for i, par := range cal.Params {
				if typeIs(par.Type(), pkgDoc, "TableCell") {
					ai = i
				}
			}
			if ai < 0 || ai >= len(c.Call.Args) || typeIs(fnRecvOrNil(fn), pkgDoc, "TableCell") {
				return
			}
			var l *natLoop
			for _, cand := range loops {
				if cand.Body[c.Block()] && (l == nil || len(cand.Body) < len(l.Body)) {
					l = cand
				}
			}
			if l == nil {
				return
			}
			n++
			ri := rangeOf(l)
			ok2 := false
			why := "the cells are visited by a counted loop whose bound is not the length of the row's own cell list"
			if ri != nil && sliceOfPtrTo(ri.X.Type(), pkgDoc, "TableCell") {
				arg := c.Call.Args[ai]
				if copyOfLoopElem(arg, ri.Elem, 0) {
					ok2 = true
				}
				for _, le := range ri.Elem {
					if arg == le {
						ok2 = true
					}
					// &cell of the range variable that received the element
					if al, ok := arg.(*ssa.Alloc); ok && al.Referrers() != nil {
						for _, u := range *al.Referrers() {
							if st, ok := u.(*ssa.Store); ok && st.Addr == ssa.Value(al) && copyOfLoopElem(st.Val, ri.Elem, 0) {
								ok2 = true
							}
						}
					}
				}
				if !ok2 {
					why = "the cell handed on is not the element of the range over the row's cells"
				}
			}
			r.Check("export-all-cells", fmt.Sprintf("%s#%d", shortName(fn), n), c.Pos(), ok2,
				fmt.Sprintf("%s exports table cells: every cell of a row must be visited (range over that row's Cells): %s", shortName(fn), map[bool]string{true: "yes", false: why + " — rows can be longer than the header row (merged header), and their surplus cells never reach the Markdown"}[ok2]))
		})
	}
	r.Min("cell_export_sites", n, 2)
}

func fnRecvOrNil(fn *ssa.Function) types.Type {
	if fn.Signature.Recv() != nil {
		return fn.Signature.Recv().Type()
	}
	return types.Typ[types.Invalid]
}

// ---------------------------------------------------------------------------
// R-SOFTBREAK-SPACE (C19, C20): a soft line break separates two words; wherever the renderer asks
// SoftLineBreak() and the answer is yes, a space is emitted — on every path, not only when some
// further condition holds (a "no space between CJK characters" exception glues together words that
// the exporter's line wrapping had separated by that very space: export → import is no longer the
// identity and the next export differs).
// ---------------------------------------------------------------------------

func ruleSoftBreakSpace(r *Run) {
	p := r.P
	n := 0
	for _, fn := range p.ModFuncs() {
		if fn.Pkg == nil || fn.Pkg.Pkg.Path() != pkgMd {
			continue
		}
		loops := naturalLoops(fn)
		allInstrs(fn, func(in ssa.Instruction) {
			c, ok := in.(*ssa.Call)
			if !ok || !strings.HasSuffix(calleeName(c), ".SoftLineBreak") || c.Referrers() == nil {
				return
			}
			var iff *ssa.If
			for _, u := range *c.Referrers() {
				if x, ok := u.(*ssa.If); ok {
					iff = x
				}
			}
			if iff == nil {
				return
			}
			n++
			yes := iff.Block().Succs[0]
			// blocks that emit a single space
			cut := map[*ssa.BasicBlock]bool{}
			allInstrs(fn, func(in2 ssa.Instruction) {
				c2, ok := in2.(*ssa.Call)
				if !ok {
					return
				}
				for _, a := range c2.Call.Args {
					if s, ok := constString(a); ok && s == " " {
						cut[c2.Block()] = true
					}
				}
			})
			var l *natLoop
			for _, cand := range loops {
				if cand.Body[iff.Block()] && (l == nil || len(cand.Body) < len(l.Body)) {
					l = cand
				}
			}
			ok2 := len(cut) > 0
			if ok2 && !cut[yes] {
				for b := range reachableBlocks(yes, cut) {
					if len(b.Instrs) > 0 {
						if _, isRet := b.Instrs[len(b.Instrs)-1].(*ssa.Return); isRet {
							ok2 = false
						}
					}
					if l != nil && (b == l.Header || !l.Body[b]) {
						ok2 = false
					}
				}
			}
			r.Check("softbreak-space", fmt.Sprintf("%s#%d", shortName(fn), n), c.Pos(), ok2,
				fmt.Sprintf("%s: when SoftLineBreak() is true a space must be emitted on every path (the two lines are separate words); a further condition on the way to it drops the space for some inputs, so text that the exporter wrapped at that space comes back glued together", shortName(fn)))
		})
	}
	r.Min("softbreak_tests", n, 1) // the two inline renderers may share one helper
}

// ---------------------------------------------------------------------------
// R-CHILD-ORDER (C19): "the document contains the same visible text in the same block order".  A
// renderer that walks the children of a node handles them in ONE in-order pass.  Setting some kinds
// of children aside in a slice while processing the others in the loop, and rendering the deferred
// ones afterwards, moves content: a paragraph that follows a nested list inside a list item ends up
// in front of the nested items.
// ---------------------------------------------------------------------------

func ruleChildOrder(r *Run) {
	p := r.P
	n := 0
	for _, fn := range p.ModFuncs() {
		if fn.Pkg == nil || fn.Pkg.Pkg.Path() != pkgMd || fn.Parent() != nil {
			continue
		}
		loops := naturalLoops(fn)
		for _, l := range loops {
			// a child-iteration loop: NextSibling() inside the loop
			isChildLoop := false
			for b := range l.Body {
				for _, in := range b.Instrs {
					if c, ok := in.(ssa.CallInstruction); ok && c.Common().IsInvoke() && c.Common().Method.Name() == "NextSibling" {
						isChildLoop = true
					}
				}
			}
			if !isChildLoop {
				continue
			}
			n++
			// children appended to a local slice inside the loop …
			var deferred []*ssa.Call
			processes := false
			for b := range l.Body {
				for _, in := range b.Instrs {
					c, ok := in.(*ssa.Call)
					if !ok {
						continue
					}
					if bi, ok := c.Call.Value.(*ssa.Builtin); ok && bi.Name() == "append" {
						if st, ok := c.Type().Underlying().(*types.Slice); ok && strings.Contains(st.Elem().String(), "goldmark") {
							deferred = append(deferred, c)
						}
						continue
					}
					if cal := staticCallee(c); cal != nil && p.inModule(cal) {
						processes = true
					}
				}
			}
			bad := ""
			for _, d := range deferred {
				// … and rendered by a later loop over that slice
				for _, l2 := range loops {
					if l2 == l || l2.Body[l.Header] || l.Body[l2.Header] {
						continue
					}
					ri := rangeOf(l2)
					if ri == nil {
						continue
					}
					if !flowsFromPhi(ri.X, d) {
						continue
					}
					rendersLater := false
					for b := range l2.Body {
						for _, in := range b.Instrs {
							if c, ok := in.(*ssa.Call); ok {
								if cal := staticCallee(c); cal != nil && p.inModule(cal) {
									rendersLater = true
								}
							}
						}
					}
					if rendersLater && processes {
						bad = "children collected at " + p.pos(d.Pos()) + " are rendered by a second loop after the others have been processed"
					}
				}
			}
			r.Check("child-order", fmt.Sprintf("%s#%d", shortName(fn), n), l.Header.Instrs[0].Pos(), bad == "",
				fmt.Sprintf("%s walks the children of a node: they must be handled in one in-order pass: %s", shortName(fn), map[bool]string{true: "no deferral", false: bad + " — whatever follows a deferred child in the source is moved in front of it"}[bad == ""]))
		}
	}
	r.Min("child_iteration_loops", n, 5)
}

// flowsFromPhi: v is src or reaches it through phis / appends (an accumulated slice).
func flowsFromPhi(v, src ssa.Value) bool {
	seen := map[ssa.Value]bool{}
	var walk func(x ssa.Value) bool
	walk = func(x ssa.Value) bool {
		if x == nil || seen[x] {
			return false
		}
		seen[x] = true
		if x == src {
			return true
		}
		switch y := x.(type) {
		case *ssa.Phi:
			for _, e := range y.Edges {
				if walk(e) {
					return true
				}
			}
		case *ssa.Call:
			if bi, ok := y.Call.Value.(*ssa.Builtin); ok && bi.Name() == "append" {
				return walk(y.Call.Args[0])
			}
		}
		return false
	}
	return walk(v)
}
