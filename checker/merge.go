package main

// R-MERGE-COVER / R-MERGE-PREC / R-RESOLVE-RECURSIVE (C14), representation independent.
//
// 1. ROLES.  Which argument of a merge function f(a, b *T) *T is the (already resolved) ancestor
//    is decided where the based-on chain is resolved: an argument derived from the result of the
//    recursive resolution, or accumulated across the iterations of a loop through the call's own
//    result, is the ancestor; the role is propagated into helpers through their parameters.
// 2. FIELD TABLE.  For every nillable field F of a property-bag struct and each of the four
//    cases (child.F nil?, ancestor.F nil?) the merge function is evaluated symbolically over the
//    domain {nil, child.F, ancestor.F, merged object, other}; branches on other fields are
//    explored both ways.  The field of the result must be child.F when that is set, otherwise
//    ancestor.F, otherwise nil.  How the function is written (if/else chain, composite literal with
//    a generic first-non-nil helper, whole-struct copy then overrides) does not matter.

import (
	"fmt"
	"go/token"
	"go/types"
	"sort"
	"strings"

	"golang.org/x/tools/go/ssa"
)

type avKind int

const (
	avOther avKind = iota
	avNil
	avParam // a parameter pointer itself (assumed non-nil)
	avField // load of parameter.field
	avAlloc // the object under construction
)

type av struct {
	kind  avKind
	idx   int // parameter index (avParam, avField)
	field *types.Var
	alloc *ssa.Alloc
}

func (a av) String() string {
	switch a.kind {
	case avNil:
		return "nil"
	case avParam:
		return fmt.Sprintf("p%d", a.idx)
	case avField:
		return fmt.Sprintf("p%d.%s", a.idx, a.field.Name())
	case avAlloc:
		return "new:" + a.alloc.Name()
	}
	return "?"
}

// mergeEval evaluates one merge function for field F under the assumption nilOf[param idx].
type mergeEval struct {
	F       *types.Var
	dst     int          // in-place merge: index of the parameter that is filled (-1 otherwise)
	nilOf   map[int]bool // parameter index → its field F is nil
	steps   int
	aborted bool
}

// isNil: 1 nil, 0 non-nil, -1 unknown
func (m *mergeEval) isNil(a av) int {
	switch a.kind {
	case avNil:
		return 1
	case avParam, avAlloc:
		return 0
	case avField:
		if a.field == m.F {
			if n, ok := m.nilOf[a.idx]; ok {
				if n {
					return 1
				}
				return 0
			}
		}
	}
	return -1
}

func (m *mergeEval) norm(a av) av {
	if m.isNil(a) == 1 {
		return av{kind: avNil}
	}
	return a
}

// run: possible abstract results of fn called with args; for the top-level merge function the
// result is the state of field F of the returned new object.
func (m *mergeEval) run(fn *ssa.Function, args []av, top bool, depth int) (results map[string]av) {
	results = map[string]av{}
	if len(fn.Blocks) == 0 || depth > 3 {
		m.aborted = true
		return
	}
	type state struct {
		env    map[ssa.Value]av
		fstate map[*ssa.Alloc]av // value of field F of each local object
		pstate map[int]av        // value of field F of a parameter object after stores through it (in-place merge)
	}
	clone := func(s state) state {
		n := state{map[ssa.Value]av{}, map[*ssa.Alloc]av{}, map[int]av{}}
		for k, v := range s.env {
			n.env[k] = v
		}
		for k, v := range s.fstate {
			n.fstate[k] = v
		}
		for k, v := range s.pstate {
			n.pstate[k] = v
		}
		return n
	}
	var eval func(s *state, v ssa.Value) av
	eval = func(s *state, v ssa.Value) av {
		if x, ok := s.env[v]; ok {
			return x
		}
		switch x := v.(type) {
		case *ssa.Const:
			if x.Value == nil {
				return av{kind: avNil}
			}
		case *ssa.Parameter:
			for i, p := range fn.Params {
				if p == x && i < len(args) {
					return args[i]
				}
			}
		case *ssa.Alloc:
			return av{kind: avAlloc, alloc: x}
		case *ssa.ChangeType:
			return eval(s, x.X)
		case *ssa.UnOp:
			if x.Op == token.MUL {
				if fa, ok := x.X.(*ssa.FieldAddr); ok {
					fv, _ := fieldOfAddr(fa)
					base := eval(s, fa.X)
					switch base.kind {
					case avParam:
						if fv == m.F {
							if st, ok := s.pstate[base.idx]; ok {
								return st
							}
						}
						return m.norm(av{kind: avField, idx: base.idx, field: fv})
					case avAlloc:
						if fv == m.F {
							if st, ok := s.fstate[base.alloc]; ok {
								return st
							}
							return av{kind: avNil}
						}
					}
				}
			}
		}
		return av{}
	}
	memo := map[string]bool{}
	var walk func(b, prev *ssa.BasicBlock, s state)
	walk = func(b, prev *ssa.BasicBlock, s state) {
		m.steps++
		if m.steps > 200000 {
			m.aborted = true
			return
		}
		// phis first (simultaneous assignment)
		phiVals := map[ssa.Value]av{}
		for _, in := range b.Instrs {
			ph, ok := in.(*ssa.Phi)
			if !ok {
				break
			}
			for i, p := range b.Preds {
				if p == prev {
					phiVals[ph] = eval(&s, ph.Edges[i])
				}
			}
		}
		for k, v := range phiVals {
			s.env[k] = v
		}
		// memo key
		var ks []string
		for k, v := range s.env {
			// a value defined in a block that does not dominate b cannot be used from b on (SSA)
			if ki, ok := k.(ssa.Instruction); ok && ki.Block() != b && !ki.Block().Dominates(b) {
				continue
			}
			ks = append(ks, k.Name()+"="+v.String())
		}
		for k, v := range s.fstate {
			ks = append(ks, "#"+k.Name()+"="+v.String())
		}
		for k, v := range s.pstate {
			ks = append(ks, fmt.Sprintf("@p%d=%s", k, v.String()))
		}
		sort.Strings(ks)
		key := fmt.Sprintf("%d|%s", b.Index, strings.Join(ks, ","))
		if memo[key] {
			return
		}
		memo[key] = true
		for _, in := range b.Instrs {
			switch x := in.(type) {
			case *ssa.Phi:
			case *ssa.Store:
				// store into field F of a local object, or a whole-struct copy into it
				if fa, ok := x.Addr.(*ssa.FieldAddr); ok {
					fv, _ := fieldOfAddr(fa)
					base := eval(&s, fa.X)
					if base.kind == avAlloc && fv == m.F {
						s.fstate[base.alloc] = m.norm(eval(&s, x.Val))
					}
					if base.kind == avParam && fv == m.F {
						s.pstate[base.idx] = m.norm(eval(&s, x.Val))
					}
				} else if base := eval(&s, x.Addr); base.kind == avAlloc {
					if ld, ok := x.Val.(*ssa.UnOp); ok && ld.Op == token.MUL {
						if src := eval(&s, ld.X); src.kind == avParam {
							s.fstate[base.alloc] = m.norm(av{kind: avField, idx: src.idx, field: m.F})
						} else {
							s.fstate[base.alloc] = av{}
						}
					} else if _, isStruct := derefType(x.Addr.Type()).Underlying().(*types.Struct); isStruct {
						s.fstate[base.alloc] = av{}
					}
				}
			case *ssa.UnOp:
				// loads are evaluated at the point of the load
				if x.Op == token.MUL {
					s.env[x] = eval(&s, x)
				}
			case *ssa.Call:
				cal := staticCallee(x)
				if cal != nil && len(cal.Blocks) > 0 && isPointerLike(x.Type()) {
					var as []av
					for _, a := range x.Call.Args {
						as = append(as, eval(&s, a))
					}
					sub := m.run(cal, as, false, depth+1)
					if len(sub) == 1 {
						for _, v := range sub {
							s.env[x] = v
						}
					} else {
						s.env[x] = av{}
					}
				} else if _, isV := in.(ssa.Value); isV {
					s.env[x] = av{}
				}
			case *ssa.Return:
				if len(x.Results) == 0 && top && m.dst >= 0 {
					// in-place merge: the result is field F of the destination object at return
					st, ok := s.pstate[m.dst]
					if !ok {
						st = m.norm(av{kind: avField, idx: m.dst, field: m.F})
					}
					results[st.String()] = st
				}
				if len(x.Results) == 1 {
					rv := eval(&s, retResult(x, 0))
					if top {
						if rv.kind == avAlloc {
							st, ok := s.fstate[rv.alloc]
							if !ok {
								st = av{kind: avNil}
							}
							results[st.String()] = st
						} else {
							results["<"+rv.String()+">"] = av{} // returns something that is not the new object
						}
					} else {
						rv = m.norm(rv)
						results[rv.String()] = rv
					}
				}
				return
			case *ssa.If:
				taken := -1
				if bo, ok := x.Cond.(*ssa.BinOp); ok && (bo.Op == token.EQL || bo.Op == token.NEQ) {
					var side ssa.Value
					if isNilConst(bo.Y) {
						side = bo.X
					} else if isNilConst(bo.X) {
						side = bo.Y
					}
					if side != nil {
						switch m.isNil(eval(&s, side)) {
						case 1:
							taken = map[bool]int{true: 0, false: 1}[bo.Op == token.EQL]
						case 0:
							taken = map[bool]int{true: 1, false: 0}[bo.Op == token.EQL]
						}
					}
				}
				for i, succ := range b.Succs {
					if taken >= 0 && i != taken {
						continue
					}
					walk(succ, b, clone(s))
				}
				return
			case *ssa.Jump:
				walk(b.Succs[0], b, s)
				return
			case *ssa.Panic:
				return
			}
		}
	}
	walk(fn.Blocks[0], nil, state{map[ssa.Value]av{}, map[*ssa.Alloc]av{}, map[int]av{}})
	return
}

// isPropertyBag: every field of the struct other than XMLName is nillable (pointer)
func isPropertyBag(st *types.Struct) bool {
	n := 0
	for i := 0; i < st.NumFields(); i++ {
		f := st.Field(i)
		if f.Name() == "XMLName" {
			continue
		}
		if _, ok := f.Type().Underlying().(*types.Pointer); !ok {
			return false
		}
		n++
	}
	return n > 0
}

// mergeRoles: for every two-parameter merge function, the index of the parameter that carries the
// already resolved ancestor (role "parent"), derived from the call sites.
func mergeRoles(p *Program, merges []*ssa.Function) (parentIdx map[*ssa.Function]int, called map[*ssa.Function]bool, conflict map[*ssa.Function]bool) {
	parentIdx, called, conflict = map[*ssa.Function]int{}, map[*ssa.Function]bool{}, map[*ssa.Function]bool{}
	isMerge := map[*ssa.Function]bool{}
	for _, m := range merges {
		isMerge[m] = true
	}
	// parentParams[f][i]: parameter i of f carries a resolved ancestor
	parentParams := map[*ssa.Function]map[int]bool{}
	mark := func(f *ssa.Function, i int) bool {
		if parentParams[f] == nil {
			parentParams[f] = map[int]bool{}
		}
		if parentParams[f][i] {
			return false
		}
		parentParams[f][i] = true
		return true
	}
	var styFns []*ssa.Function
	for _, fn := range p.ModFuncs() {
		if fn.Pkg != nil && fn.Pkg.Pkg.Path() == pkgSty {
			styFns = append(styFns, fn)
		}
	}
	for changed := true; changed; {
		changed = false
		for _, resolver := range styFns {
			allInstrs(resolver, func(in ssa.Instruction) {
				c, ok := in.(*ssa.Call)
				if !ok {
					return
				}
				cal := staticCallee(c)
				if cal == nil || !isMerge[cal] {
					return
				}
				called[cal] = true
				for i, a := range c.Call.Args {
					if i >= len(cal.Params) {
						continue
					}
					anc := false
					for rt := range rootsOf(a) {
						switch x := rt.(type) {
						case *ssa.Call:
							if x == c {
								anc = true // accumulated through the call's own result (loop)
							} else if rcal := staticCallee(x); rcal != nil && (rcal == resolver || p.inModule(rcal) && p.staticReach(rcal)[resolver]) {
								anc = true // result of the recursive resolution
							}
						case *ssa.Parameter:
							for pi, prm := range resolver.Params {
								if prm == x && parentParams[resolver][pi] {
									anc = true
								}
							}
						}
					}
					if anc && mark(cal, i) {
						changed = true
					}
				}
			})
		}
	}
	for _, m := range merges {
		pp := parentParams[m]
		switch {
		case len(pp) == 1:
			for i := range pp {
				parentIdx[m] = i
			}
		case len(pp) > 1:
			conflict[m] = true
		}
	}
	return
}

func ruleMerge(r *Run) {
	p := r.P
	merges := discoverMerges(p)
	r.Min("merge_functions", len(merges), 2)
	parentIdx, called, conflict := mergeRoles(p, merges)
	inPlace := map[*ssa.Function]int{}
	for _, m := range merges {
		if d := inPlaceMergeDst(p, m); d >= 0 {
			// fill-in-place form inherit(dst, ancestor): dst accumulates the nearer definitions (it starts
			// as the fresh result object and is handed every style of the chain, nearest first), the
			// other parameter is the ancestor being folded in
			inPlace[m] = d
			parentIdx[m] = 1 - d
			delete(conflict, m)
			for _, cs := range staticCallSites(p, m) {
				_ = cs
				called[m] = true
			}
		}
	}
	roleViolation := false
	for _, m := range merges {
		if !called[m] {
			continue
		}
		if _, ip := inPlace[m]; ip {
			// the accumulating destination must be a fresh object of the resolving function (not a
			// registered style's own property bag, which would be modified)
			okFresh := true
			for _, cs := range staticCallSites(p, m) {
				a := cs.Common().Args[inPlace[m]]
				if _, isAl := stripLoads(a).(*ssa.Alloc); !isAl {
					okFresh = false
				}
			}
			r.Check("resolve-recursive", shortName(m), m.Pos(), okFresh,
				shortName(m)+" fills its destination in place from each style of the based-on chain: the destination must be a fresh object built by the resolver (so that every ancestor of the chain is folded into the same result and no registered style is modified)")
			continue
		}
		_, has := parentIdx[m]
		if !has && !conflict[m] {
			roleViolation = true
		}
		r.Check("resolve-recursive", shortName(m), m.Pos(), has || conflict[m],
			"the parent handed to "+shortName(m)+" must itself be resolved with inheritance (result of the recursive resolution, or accumulated along the chain), otherwise settings of grandparents are lost")
	}
	// an absent property bag on one side: the other side's bag is the result
	for _, fn := range merges {
		if !called[fn] {
			continue
		}
		if _, ip := inPlace[fn]; ip {
			continue // both arguments are dereferenced: the callers' nil tests are their business
		}
		bad := ""
		for miss := 0; miss < 2; miss++ {
			ev := &mergeEval{nilOf: map[int]bool{}, dst: -1}
			args := []av{{kind: avParam, idx: 0}, {kind: avParam, idx: 1}}
			args[miss] = av{kind: avNil}
			res := ev.run(fn, args, false, 0)
			if ev.aborted || len(res) == 0 {
				bad = "could not be evaluated"
				continue
			}
			for _, got := range res {
				if got.kind == avNil {
					bad = fmt.Sprintf("returns nil when argument %s is nil although %s is not: everything the other style defines is lost", fn.Params[miss].Name(), fn.Params[1-miss].Name())
				}
			}
		}
		if bad == "could not be evaluated" {
			r.Undecided("merge-nilarg", shortName(fn), fn.Pos(), "the merge function could not be evaluated symbolically")
		} else {
			r.Check("merge-nilarg", shortName(fn), fn.Pos(), bad == "", shortName(fn)+" "+map[bool]string{true: "hands back the other side when one side has no properties", false: bad}[bad == ""])
		}
	}
	nf := 0
	for _, fn := range merges {
		t := isModStruct(p, fn.Params[0].Type())
		st := t.Underlying().(*types.Struct)
		if !isPropertyBag(st) {
			continue
		}
		pi, ok := parentIdx[fn]
		if !ok && roleViolation && !conflict[fn] {
			continue // already reported under resolve-recursive
		}
		if !ok {
			r.Undecided("merge-prec", shortName(fn), fn.Pos(), "cannot tell which argument is the child style: "+map[bool]string{true: "both arguments are derived from resolved ancestors at some call site", false: "no caller passes one argument derived from a resolution of the ancestors"}[conflict[fn]])
			continue
		}
		ci := 1 - pi
		dstIdx := -1
		if d, ip := inPlace[fn]; ip {
			dstIdx = d
		}
		for i := 0; i < st.NumFields(); i++ {
			fv := st.Field(i)
			if fv.Name() == "XMLName" {
				continue
			}
			nf++
			key := shortName(fn) + ":" + fv.Name()
			cover, prec := "", ""
			undecided := false
			for _, cs := range [][2]bool{{false, false}, {false, true}, {true, false}, {true, true}} {
				cNil, pNil := cs[0], cs[1]
				ev := &mergeEval{F: fv, nilOf: map[int]bool{ci: cNil, pi: pNil}, dst: dstIdx}
				args := make([]av, len(fn.Params))
				for k := range args {
					args[k] = av{kind: avParam, idx: k}
				}
				res := ev.run(fn, args, true, 0)
				if ev.aborted || len(res) == 0 {
					undecided = true
					break
				}
				for _, got := range res {
					switch {
					case !cNil:
						if got.kind == avField && got.idx == ci && got.field == fv {
							continue
						}
						if got.kind == avField && got.idx == pi && got.field == fv && !pNil {
							prec = fmt.Sprintf("when both styles set %s the result carries the ancestor's value: the nearer definition does not win", fv.Name())
						} else {
							cover = fmt.Sprintf("%s does not carry field %s over from the child (result: %s when the child sets it and the ancestor %s)", shortName(fn), fv.Name(), got, map[bool]string{true: "does not", false: "does too"}[pNil])
						}
					case !pNil:
						if got.kind == avField && got.idx == pi && got.field == fv {
							continue
						}
						cover = fmt.Sprintf("%s does not carry field %s over from the parent: the attribute is silently not inherited (result: %s when only the ancestor sets it)", shortName(fn), fv.Name(), got)
					default:
						if got.kind != avNil {
							cover = fmt.Sprintf("%s yields %s for field %s although neither style sets it", shortName(fn), got, fv.Name())
						}
					}
				}
			}
			if undecided {
				r.Undecided("merge-cover", key, fv.Pos(), "the merge function could not be evaluated symbolically for this field")
				continue
			}
			r.Check("merge-cover", key, fv.Pos(), cover == "", map[bool]string{true: "field taken from the child when set, else from the ancestor when set, else nil (4 cases evaluated)", false: cover}[cover == ""])
			if cover == "" {
				r.Check("merge-prec", key, fv.Pos(), prec == "", "child wins: "+map[bool]string{true: "the ancestor's value is used only where the child's is nil", false: prec}[prec == ""])
			}
		}
	}
	if !roleViolation {
		r.Min("merge_field_obligations", nf, 18)
	}
}
