package main

import (
	"fmt"
	"go/token"
	"go/types"
	"sort"
	"strings"

	"golang.org/x/tools/go/ssa"
)

// fieldsReadOf: struct fields (of the named owner types) read in the slice.
func (res *sliceRes) fieldsReadOf(p *Program, owners map[string]bool) map[string]bool {
	out := map[string]bool{}
	for v := range res.Vals {
		var fv *types.Var
		switch x := v.(type) {
		case *ssa.FieldAddr:
			fv, _ = fieldOfAddr(x)
			// must be loaded
			loaded := false
			if refs := x.Referrers(); refs != nil {
				for _, in := range *refs {
					if u, ok := in.(*ssa.UnOp); ok && res.Vals[u] {
						loaded = true
					}
				}
			}
			if !loaded {
				continue
			}
		case *ssa.Field:
			fv, _ = fieldOfVal(x)
		}
		if fv == nil {
			continue
		}
		if o := fieldOwner(p, fv); o != nil && owners[o.Obj().Name()] {
			out[o.Obj().Name()+"."+fv.Name()] = true
		}
	}
	return out
}

func (res *sliceRes) callsTo(name string) bool {
	for v := range res.Vals {
		if c, ok := v.(*ssa.Call); ok {
			if cal := staticCallee(c); calleeIs(cal, name) {
				return true
			}
		}
	}
	return false
}

func keysOf(m map[string]bool) []string {
	var ks []string
	for k := range m {
		ks = append(ks, k)
	}
	sort.Strings(ks)
	return ks
}

// ---------------------------------------------------------------------------
// R-FIELD-BIJ / R-INV-DEP (C12)
// ---------------------------------------------------------------------------

func ruleFieldBij(r *Run) {
	p := r.P
	setFn := r.mustFunc(pkgDoc, "(*Document).SetPageSettings")
	getFn := r.mustFunc(pkgDoc, "(*Document).GetPageSettings")
	if setFn == nil || getFn == nil {
		return
	}
	xmlOwners := map[string]bool{"PageSizeXML": true, "PageMargin": true, "DocGrid": true}
	psOwner := map[string]bool{"PageSettings": true}
	sl := newSlicer(p)
	dsl := newSlicer(p)
	dsl.dataOnly = true
	type info struct {
		reads map[string]bool // fields in the slice incl. control dependence
		data  map[string]bool // fields whose value flows into the result (Get side only)
		res   *sliceRes
		all   []*sliceRes // the slices of every store to the field (a field may be set on several paths)
		pos   ssa.Instruction
	}
	anyCallsTo := func(i *info, name string) bool {
		for _, rs := range i.all {
			if rs.callsTo(name) {
				return true
			}
		}
		return i.res != nil && i.res.callsTo(name)
	}
	setM := map[string]*info{} // XML field → PageSettings fields read
	// SetPageSettings and the private helpers it builds the section XML with (newPageMargin(settings) …)
	setGroup := helperGroup(p, setFn)
	forEachInstr(setGroup, func(in ssa.Instruction) {
		st, ok := in.(*ssa.Store)
		if !ok {
			return
		}
		fv, _ := fieldOfAddr(st.Addr)
		if fv == nil {
			return
		}
		o := fieldOwner(p, fv)
		if o == nil || !xmlOwners[o.Obj().Name()] {
			return
		}
		res := sl.SliceWithControl(st.Val, st)
		res = withCallerControl(p, sl, res, st, setFn)
		k := o.Obj().Name() + "." + fv.Name()
		if setM[k] == nil {
			setM[k] = &info{reads: map[string]bool{}, res: res, pos: st}
		}
		setM[k].all = append(setM[k].all, res)
		for f := range res.fieldsReadOf(p, psOwner) {
			setM[k].reads[f] = true
		}
	})
	getM := map[string]*info{} // PageSettings field → XML fields read
	// GetPageSettings and the private helpers that decode the section XML for it ((*PageMargin).applyTo(&settings) …)
	forEachInstr(helperGroup(p, getFn), func(in ssa.Instruction) {
		st, ok := in.(*ssa.Store)
		if !ok {
			return
		}
		fv, _ := fieldOfAddr(st.Addr)
		if fv == nil {
			return
		}
		o := fieldOwner(p, fv)
		if o == nil || o.Obj().Name() != "PageSettings" {
			return
		}
		res := sl.SliceWithControl(st.Val, st)
		k := "PageSettings." + fv.Name()
		if getM[k] == nil {
			getM[k] = &info{reads: map[string]bool{}, data: map[string]bool{}, res: res, pos: st}
		}
		getM[k].all = append(getM[k].all, res)
		for f := range res.fieldsReadOf(p, xmlOwners) {
			getM[k].reads[f] = true
		}
		// data-only slice: XML fields whose VALUE flows into the setting (as opposed to fields that
		// only select between values, like w:orient selecting whether w and h are exchanged)
		for f := range dsl.Slice(st.Val).fieldsReadOf(p, xmlOwners) {
			getM[k].data[f] = true
		}
	})
	r.Min("page_settings_fields_read_back", len(getM), 11)
	r.Min("section_xml_fields_written", len(setM), 11)
	// (1) what Get reads to produce P must have been written by Set from P
	for _, pk := range keysOfInfo(getM) {
		gi := getM[pk]
		for _, x := range keysOf(gi.data) {
			si := setM[x]
			ok := si != nil && si.reads[pk]
			detail := fmt.Sprintf("GetPageSettings computes %s from %s; SetPageSettings must write %s from %s", pk, x, x, pk)
			if si != nil && !ok {
				detail += fmt.Sprintf(" but writes it from %v", keysOf(si.reads))
			}
			r.Check("field-bij", pk+"<-"+x, gi.pos.Pos(), ok, detail)
			// unit conversion symmetry
			if ok {
				conv := anyCallsTo(gi, "twipsToMM") == anyCallsTo(si, "mmToTwips")
				r.Check("field-bij", pk+"<-"+x+":units", gi.pos.Pos(), conv,
					fmt.Sprintf("%s and %s must use inverse unit conversions (twipsToMM on read ⇔ mmToTwips on write)", pk, x))
			}
		}
	}
	// (1b) the read path converts, it does not round: a value rounded on the way out (to 0.1 mm, to an
	// integer) is written back changed by the next read-modify-write setter, although that setter
	// names a different field
	for _, pk := range keysOfInfo(getM) {
		gi := getM[pk]
		bad := ""
		for _, rs := range gi.all {
			for v := range rs.Vals {
				c, ok := v.(*ssa.Call)
				if !ok {
					continue
				}
				switch calleeName(c) {
				case "math.Round", "math.Floor", "math.Ceil", "math.Trunc", "math.RoundToEven":
					bad = calleeName(c) + " at " + p.pos(c.Pos())
				}
			}
		}
		if len(gi.data) == 0 {
			continue
		}
		isFloat := false
		if st, ok := gi.pos.(*ssa.Store); ok {
			if b, ok := st.Val.Type().Underlying().(*types.Basic); ok && b.Info()&types.IsFloat != 0 {
				isFloat = true
			}
		}
		if !isFloat {
			continue
		}
		r.Check("field-bij", pk+":no-rounding-on-read", gi.pos.Pos(), bad == "",
			fmt.Sprintf("GetPageSettings computes %s from the stored twips; %s", pk, map[bool]string{true: "the value is converted, not rounded", false: "it is rounded on the way (" + bad + "): every read-modify-write setter then writes the rounded value back, so a call that names another field changes this one by up to the rounding step"}[bad == ""]))
	}
	// (1c) what SetPageSettings writes comes from the request: the VALUE stored into a section
	// attribute does not flow from the document's current settings (a read of the section XML, a call
	// of GetPageSettings).  "Unspecified → keep the current value" heuristics (all margins 0, both
	// distances 0) make a call that names the attribute with that very value a no-op.
	for _, x := range keysOfInfo(setM) {
		si := setM[x]
		st, ok := si.pos.(*ssa.Store)
		if !ok {
			continue
		}
		bad := ""
		dres := dsl.Slice(st.Val)
		if dres.callsTo("GetPageSettings") {
			bad = "the result of GetPageSettings"
		} else if fr := dres.fieldsReadOf(p, xmlOwners); len(fr) > 0 {
			bad = "the current section attributes " + strings.Join(keysOf(fr), ", ")
		}
		r.Check("field-bij", x+":from-request", st.Pos(), bad == "",
			fmt.Sprintf("SetPageSettings writes %s: %s", x, map[bool]string{true: "the value comes from the request only", false: "its value can flow from " + bad + " — for some request the attribute keeps its old value although the call named it (reading back does not return the most recent value)"}[bad == ""]))
	}
	// (1d) omitted attributes and read defaults agree.  Where GetPageSettings assigns an integer
	// setting only when the attribute is present (`if X != "" { P = parse(X) }`), an absent attribute
	// reads as the default d the settings object was constructed with.  If SetPageSettings can leave
	// that attribute out — the store is conditional on P, or the text comes from a helper that
	// returns "" for some values — then d itself must be among the values it leaves out: otherwise
	// there are values v (the omitted ones) with Get(Set(v)) = d ≠ v.
	{
		ctorDefault := func(field string) int64 {
			var d int64
			for _, g := range helperGroup(p, getFn) {
				allInstrs(g, func(in ssa.Instruction) {
					c, ok := in.(*ssa.Call)
					if !ok {
						return
					}
					cal := staticCallee(c)
					if cal == nil || !p.inModule(cal) || cal.Signature.Results().Len() != 1 || !typeIs(cal.Signature.Results().At(0).Type(), pkgDoc, "PageSettings") {
						return
					}
					allInstrs(cal, func(in2 ssa.Instruction) {
						if st, ok := in2.(*ssa.Store); ok {
							if fv, _ := fieldOfAddr(st.Addr); fv != nil && fv.Name() == field {
								if k, ok := constInt(st.Val); ok {
									d = k
								}
							}
						}
					})
				})
			}
			return d
		}
		// evalCmp: the truth of `v op k` for v = d
		evalCmp := func(op token.Token, d, k int64) (bool, bool) {
			switch op {
			case token.GTR:
				return d > k, true
			case token.GEQ:
				return d >= k, true
			case token.LSS:
				return d < k, true
			case token.LEQ:
				return d <= k, true
			case token.EQL:
				return d == k, true
			case token.NEQ:
				return d != k, true
			}
			return false, false
		}
		for _, pk := range keysOfInfo(getM) {
			gi := getM[pk]
			gst, ok := gi.pos.(*ssa.Store)
			if !ok {
				continue
			}
			if b, ok := gst.Val.Type().Underlying().(*types.Basic); !ok || b.Info()&types.IsInteger == 0 {
				continue
			}
			// the read is guarded by presence of exactly one attribute
			var xField string
			for _, c := range strCompares(gst.Parent()) {
				if c.Const != "" || c.If == nil || c.Region[gst.Block()] {
					continue
				}
				blk := c.If.Block()
				if len(blk.Succs) != 2 {
					continue
				}
				neSucc := blk.Succs[0]
				if c.Region[neSucc] {
					neSucc = blk.Succs[1]
				}
				if !edgeRegion(blk, neSucc)[gst.Block()] {
					continue
				}
				for f := range dsl.Slice(c.Operand).fieldsReadOf(p, xmlOwners) {
					if gi.data[f] {
						xField = f
					}
				}
			}
			if xField == "" {
				continue
			}
			si := setM[xField]
			if si == nil {
				continue
			}
			pName := strings.TrimPrefix(pk, "PageSettings.")
			d := ctorDefault(pName)
			for _, rs := range si.all {
				_ = rs
			}
			sst, ok := si.pos.(*ssa.Store)
			if !ok {
				continue
			}
			// (b) the text comes from a helper that returns "" on some path
			omitsSome, omitsDefault, how := false, false, ""
			if hc, ok := stripConv(sst.Val).(*ssa.Call); ok {
				if h := staticCallee(hc); h != nil && p.inModule(h) && len(h.Blocks) > 0 {
					for _, ret := range returnsOf(h) {
						if len(ret.Results) != 1 {
							continue
						}
						if sv, isC := constString(ret.Results[0]); !isC || sv != "" {
							continue
						}
						omitsSome = true
						how = shortName(h) + " returns \"\" for some values"
						// the conditions on the helper's integer parameter that lead to this return
						okAll := true
						for _, blk := range h.Blocks {
							if len(blk.Succs) != 2 || !blk.Dominates(ret.Block()) || blk == ret.Block() {
								continue
							}
							iff, ok := blk.Instrs[len(blk.Instrs)-1].(*ssa.If)
							if !ok {
								continue
							}
							cmp, ok := iff.Cond.(*ssa.BinOp)
							if !ok {
								continue
							}
							if _, isPar := stripConv(cmp.X).(*ssa.Parameter); !isPar {
								continue
							}
							k, isK := constInt(cmp.Y)
							if !isK {
								continue
							}
							truth, ok := evalCmp(cmp.Op, d, k)
							if !ok {
								continue
							}
							// which edge leads to the "" return?
							onTrue := edgeRegion(blk, blk.Succs[0])[ret.Block()]
							onFalse := edgeRegion(blk, blk.Succs[1])[ret.Block()]
							if onTrue && !onFalse && !truth || onFalse && !onTrue && truth {
								okAll = false
							}
						}
						if okAll {
							omitsDefault = true
						}
					}
				}
			}
			// (a) the store itself is conditional on a comparison of the setting
			if !omitsSome {
				for _, blk := range sst.Parent().Blocks {
					if len(blk.Succs) != 2 || !blk.Dominates(sst.Block()) || blk == sst.Block() {
						continue
					}
					iff, ok := blk.Instrs[len(blk.Instrs)-1].(*ssa.If)
					if !ok {
						continue
					}
					cmp, ok := iff.Cond.(*ssa.BinOp)
					if !ok {
						continue
					}
					k, isK := constInt(cmp.Y)
					if !isK {
						continue
					}
					reads := dsl.Slice(cmp.X).fieldsReadOf(p, psOwner)
					if !reads[pk] || len(reads) != 1 {
						continue
					}
					truth, ok := evalCmp(cmp.Op, d, k)
					if !ok {
						continue
					}
					omitsSome = true
					how = "the store is conditional on " + pk
					onTrue := edgeRegion(blk, blk.Succs[0])[sst.Block()]
					// stored on the true edge: omitted when the comparison is false
					if onTrue && !truth || !onTrue && truth {
						omitsDefault = true
					}
				}
			}
			if !omitsSome {
				continue
			}
			r.Check("field-bij", pk+"<-"+xField+":omitted-default", sst.Pos(), omitsDefault,
				fmt.Sprintf("SetPageSettings can leave %s out (%s) and GetPageSettings reads an absent %s as the default %d: %s", xField, how, xField, d,
					map[bool]string{true: "the default is among the values left out", false: "but the default is not among the values left out — the values that ARE left out read back as the default, not as what the call named"}[omitsDefault]))
		}
	}
	// (2) every PageSettings field Set consumes is restored by Get
	consumed := map[string]bool{}
	for _, si := range setM {
		for f := range si.reads {
			consumed[f] = true
		}
	}
	for _, f := range keysOf(consumed) {
		_, ok := getM[f]
		r.Check("field-bij", f+":read-back", setFn.Pos(), ok, fmt.Sprintf("SetPageSettings stores %s into the section properties; GetPageSettings must read it back", f))
	}
	// (2b) orientation round trip: if the read path INFERS the orientation from the dimensions when
	// w:orient is absent, the write path must state w:orient for both orientations — otherwise a
	// portrait page that is wider than tall is read back as landscape (and then written as such).
	if gi := getM["PageSettings.Orientation"]; gi != nil {
		infers := gi.reads["PageSizeXML.W"] || gi.reads["PageSizeXML.H"]
		conditional := false
		forEachInstr(setGroup, func(in ssa.Instruction) {
			st, ok := in.(*ssa.Store)
			if !ok {
				return
			}
			fv, _ := fieldOfAddr(st.Addr)
			if !fieldIs(p, fv, pkgDoc, "PageSizeXML", "Orient") {
				return
			}
			for _, c := range controlConds(st) {
				if newSlicer(p).Slice(c).fieldsReadOf(p, psOwner)["PageSettings.Orientation"] {
					conditional = true
				}
			}
		})
		r.Check("field-bij", "PageSettings.Orientation:roundtrip", gi.pos.Pos(), !(infers && conditional),
			fmt.Sprintf("orientation: read path infers it from width/height when w:orient is absent = %v; write path states w:orient only for some orientations = %v — both together make a portrait page wider than tall come back as landscape", infers, conditional))
	}
	// (3) R-INV-DEP: the write path of pgSz w/h depends on Orientation (landscape swap); its inverse must too
	for _, dim := range []struct{ x, p string }{{"PageSizeXML.W", "PageSettings.CustomWidth"}, {"PageSizeXML.H", "PageSettings.CustomHeight"}} {
		si, gi := setM[dim.x], getM[dim.p]
		if si == nil || gi == nil {
			r.Undecided("inv-dep", dim.p, setFn.Pos(), "page size write/read stores not found")
			continue
		}
		if !si.reads["PageSettings.Orientation"] {
			r.Check("inv-dep", dim.p, si.pos.Pos(), true, "written dimension does not depend on the orientation; nothing to invert")
			continue
		}
		ok := gi.reads["PageSizeXML.Orient"]
		r.Check("inv-dep", dim.p, gi.pos.Pos(), ok,
			fmt.Sprintf("SetPageSettings writes %s depending on Orientation (landscape swaps width and height), but GetPageSettings computes %s without looking at w:orient: with a custom size in landscape the read path is not the inverse of the write path, and every read-modify-write setter flips the page", dim.x, dim.p))
	}
}

func keysOfInfo[T any](m map[string]T) []string {
	var ks []string
	for k := range m {
		ks = append(ks, k)
	}
	sort.Strings(ks)
	return ks
}

// ---------------------------------------------------------------------------
// R-SETTER-SCOPE (C12)
// ---------------------------------------------------------------------------

// setterFields: exported convenience setter → the PageSettings fields it names (public API names).
var setterFields = map[string][]string{
	"SetPageSize":             {"Size"},
	"SetCustomPageSize":       {"Size", "CustomWidth", "CustomHeight"},
	"SetPageOrientation":      {"Orientation"},
	"SetPageMargins":          {"MarginTop", "MarginRight", "MarginBottom", "MarginLeft"},
	"SetHeaderFooterDistance": {"HeaderDistance", "FooterDistance"},
	"SetGutterWidth":          {"GutterWidth"},
	"SetDocGrid":              {"DocGridType", "DocGridLinePitch", "DocGridCharSpace"},
}

func ruleSetterScope(r *Run) {
	p := r.P
	n := 0
	for _, name := range keysOfInfo(setterFields) {
		fn := p.Func(pkgDoc, "(*Document)."+name)
		if fn == nil {
			r.Unresolved("document.(*Document)." + name)
			continue
		}
		n++
		allowed := map[string]bool{}
		for _, f := range setterFields[name] {
			allowed[f] = true
		}
		stored := map[string]bool{}
		var extra []string
		fromParam := true
		var getCall, setCall *ssa.Call
		rmwViaHelper := false
		// the setter's own body and the function literals it creates (a modify callback handed to a
		// shared read-modify-write helper)
		bodies := []*ssa.Function{fn}
		bodies = append(bodies, fn.AnonFuncs...)
		for _, body := range bodies {
			allInstrs(body, func(in ssa.Instruction) {
				switch x := in.(type) {
				case *ssa.Call:
					if cal := staticCallee(x); cal != nil {
						switch cal.Name() {
						case "GetPageSettings":
							getCall = x
						case "SetPageSettings":
							setCall = x
						default:
							// updatePageSettings(func(s *PageSettings) { … }): the helper reads all
							// settings, lets the callback modify that object and writes it back
							if body == fn && p.inModule(cal) && isRMWHelper(p, cal) {
								for _, a := range x.Call.Args {
									if mc, ok := a.(*ssa.MakeClosure); ok && mc.Fn.(*ssa.Function).Parent() == fn {
										rmwViaHelper = true
									}
								}
							}
						}
					}
				case *ssa.Store:
					fv, _ := fieldOfAddr(x.Addr)
					if fv == nil {
						return
					}
					if o := fieldOwner(p, fv); o == nil || o.Obj().Name() != "PageSettings" {
						return
					}
					stored[fv.Name()] = true
					if !allowed[fv.Name()] {
						extra = append(extra, fv.Name())
					}
					val := stripConv(x.Val)
					// a captured argument of the setter: loaded from / bound to a free variable
					if ld, ok := val.(*ssa.UnOp); ok && ld.Op == token.MUL {
						if fvr, ok := ld.X.(*ssa.FreeVar); ok {
							val = fvr
						}
					}
					if fvr, ok := val.(*ssa.FreeVar); ok {
						if b := freeVarBinding(fn, body, fvr); b != nil {
							val = stripConv(b)
							// captured by reference: the binding is the address of the parameter's spill slot
							if al, ok := val.(*ssa.Alloc); ok && al.Referrers() != nil {
								for _, u := range *al.Referrers() {
									if st, ok := u.(*ssa.Store); ok && st.Addr == ssa.Value(al) {
										val = stripConv(st.Val)
									}
								}
							}
						}
					}
					switch val.(type) {
					case *ssa.Parameter, *ssa.Const:
					default:
						fromParam = false
					}
				}
			})
		}
		var missing []string
		for f := range allowed {
			if !stored[f] {
				missing = append(missing, f)
			}
		}
		sort.Strings(missing)
		sort.Strings(extra)
		ok := len(extra) == 0 && len(missing) == 0 && fromParam
		r.Check("setter-scope", name, fn.Pos(), ok,
			fmt.Sprintf("%s must store exactly the settings it names %v from its arguments; extra=%v missing=%v valuesFromArguments=%v", name, setterFields[name], extra, missing, fromParam))
		// read-modify-write on the same object
		rmw := rmwViaHelper || getCall != nil && setCall != nil && len(setCall.Call.Args) >= 2 && stripLoads(setCall.Call.Args[1]) == ssa.Value(getCall)
		r.Check("setter-scope", name+":read-modify-write", fn.Pos(), rmw,
			fmt.Sprintf("%s must pass the object returned by GetPageSettings (all other settings unchanged) to SetPageSettings", name))
	}
	r.Min("convenience_setters", n, 7)
}

// freeVarBinding: the value bound to free variable fv of literal lit where parent creates it.
func freeVarBinding(parent, lit *ssa.Function, fv *ssa.FreeVar) ssa.Value {
	idx := -1
	for i, f := range lit.FreeVars {
		if f == fv {
			idx = i
		}
	}
	if idx < 0 {
		return nil
	}
	var out ssa.Value
	allInstrs(parent, func(in ssa.Instruction) {
		if mc, ok := in.(*ssa.MakeClosure); ok && mc.Fn == ssa.Value(lit) && idx < len(mc.Bindings) {
			out = mc.Bindings[idx]
		}
	})
	return out
}

// isRMWHelper: h obtains the full settings with GetPageSettings, hands that very object to a
// callback parameter and then to SetPageSettings (and does nothing else to it).
func isRMWHelper(p *Program, h *ssa.Function) bool {
	var get, set *ssa.Call
	cbOK := false
	otherStore := false
	allInstrs(h, func(in ssa.Instruction) {
		switch x := in.(type) {
		case *ssa.Call:
			if cal := staticCallee(x); cal != nil {
				switch cal.Name() {
				case "GetPageSettings":
					get = x
				case "SetPageSettings":
					set = x
				}
			}
		case *ssa.Store:
			if fv, _ := fieldOfAddr(x.Addr); fv != nil {
				if o := fieldOwner(p, fv); o != nil && o.Obj().Name() == "PageSettings" {
					otherStore = true
				}
			}
		}
	})
	if get == nil || set == nil || otherStore {
		return false
	}
	allInstrs(h, func(in ssa.Instruction) {
		c, ok := in.(*ssa.Call)
		if !ok {
			return
		}
		if par, ok := c.Call.Value.(*ssa.Parameter); ok && par.Parent() == h && len(c.Call.Args) == 1 && stripLoads(c.Call.Args[0]) == ssa.Value(get) {
			cbOK = true
		}
	})
	return cbOK && len(set.Call.Args) >= 2 && stripLoads(set.Call.Args[1]) == ssa.Value(get)
}

var _ = strings.TrimSpace
