package main

import (
	"fmt"
	"go/token"
	"go/types"
	"strings"

	"golang.org/x/tools/go/ssa"
)

// errValueOf returns the SSA value holding the error result of call c (nil if none).
func errValueOf(c *ssa.Call) ssa.Value {
	sig := c.Call.Signature()
	idx := errorResultIndex(sig)
	if idx < 0 {
		return nil
	}
	if sig.Results().Len() == 1 {
		return c
	}
	if refs := c.Referrers(); refs != nil {
		for _, in := range *refs {
			if ex, ok := in.(*ssa.Extract); ok && ex.Index == idx {
				return ex
			}
		}
	}
	return nil // never extracted: dropped
}

// errChecked: the error value is compared with nil and the non-nil branch reaches a return
// that yields a non-nil error.
func errChecked(fn *ssa.Function, ev ssa.Value) (bool, string) {
	if ev == nil {
		return false, "the error result is never read"
	}
	refs := ev.Referrers()
	if refs == nil {
		return false, "the error result is never read"
	}
	errIdx := errorResultIndex(fn.Signature)
	for _, in := range *refs {
		bo, ok := in.(*ssa.BinOp)
		if !ok || (bo.Op != token.NEQ && bo.Op != token.EQL) {
			continue
		}
		if !isNilConst(bo.X) && !isNilConst(bo.Y) {
			continue
		}
		brefs := bo.Referrers()
		if brefs == nil {
			continue
		}
		for _, u := range *brefs {
			iff, ok := u.(*ssa.If)
			if !ok {
				continue
			}
			nonNil := iff.Block().Succs[0]
			if bo.Op == token.EQL {
				nonNil = iff.Block().Succs[1]
			}
			// every return reachable from the non-nil branch without leaving its region must be an error return
			region := edgeRegion(iff.Block(), nonNil)
			if len(region) == 0 {
				region = map[*ssa.BasicBlock]bool{nonNil: true}
			}
			sawRet := false
			allErr := true
			for b := range region {
				for _, x := range b.Instrs {
					if ret, ok := x.(*ssa.Return); ok {
						sawRet = true
						if errIdx >= 0 && isNilConst(retResult(ret, errIdx)) {
							allErr = false
						}
					}
				}
			}
			if sawRet && allErr {
				return true, ""
			}
			if sawRet && !allErr {
				return false, "a non-nil error reaches a return that reports success"
			}
		}
	}
	// returned directly?
	if errIdx >= 0 {
		for _, ret := range returnsOf(fn) {
			if retResult(ret, errIdx) == ev {
				return true, ""
			}
		}
	}
	return false, "the error result is not tested against nil with an error return"
}

func ruleSaveErr(r *Run) {
	p := r.P
	type ent struct {
		name        string
		min         int
		needZip     bool
		needFileCls bool
	}
	for _, e := range []ent{{"(*Document).Save", 6, true, true}, {"(*Document).ToBytes", 5, true, false}} {
		fn := r.mustFunc(pkgDoc, e.name)
		if fn == nil {
			continue
		}
		nErr := 0
		seen := map[string]int{}
		var zipCloses, fileCloses []ssa.Instruction
		createsZip, createsFile := false, false
		allInstrs(fn, func(in ssa.Instruction) {
			switch x := in.(type) {
			case *ssa.Call:
				cn := calleeName(x)
				if cn == "archive/zip.NewWriter" {
					createsZip = true
				}
				if cn == "os.Create" || cn == "os.OpenFile" {
					createsFile = true
				}
				if errorResultIndex(x.Call.Signature()) < 0 {
					return
				}
				nErr++
				seen[cn]++
				key := fmt.Sprintf("%s:%s#%d", shortName(fn), strings.TrimPrefix(cn, "invoke:"), seen[cn])
				ok, why := errChecked(fn, errValueOf(x))
				r.Check("save-err", key, x.Pos(), ok,
					fmt.Sprintf("%s calls %s whose error must make %s fail: %s", shortName(fn), cn, shortName(fn), map[bool]string{true: "checked and propagated", false: why}[ok]))
				if ok && cn == "(*archive/zip.Writer).Close" {
					zipCloses = append(zipCloses, x)
				}
				if ok && cn == "(*os.File).Close" {
					fileCloses = append(fileCloses, x)
				}
			}
		})
		r.Min("error_returning_calls:"+shortName(fn), nErr, e.min)
		// success returns must be preceded by checked closes
		nRet := 0
		for _, ret := range returnsOf(fn) {
			ei := errorResultIndex(fn.Signature)
			if ei < 0 || !isNilConst(retResult(ret, ei)) {
				continue
			}
			nRet++
			if createsZip {
				ok := mustPassThrough(fn, ret, zipCloses)
				r.Check("save-close", shortName(fn)+":zip.Writer.Close", ret.Pos(), ok,
					fmt.Sprintf("%s returns success at %s; every such path must first call (*zip.Writer).Close and check its error (a deferred Close whose result is dropped does not count): the central directory and buffered data are only written — and write errors such as ENOSPC only surface — at Close", shortName(fn), p.pos(ret.Pos())))
			}
			if createsFile {
				ok := mustPassThrough(fn, ret, fileCloses)
				r.Check("save-close", shortName(fn)+":os.File.Close", ret.Pos(), ok,
					fmt.Sprintf("%s returns success at %s; every such path must first call (*os.File).Close and check its error (a deferred Close whose result is dropped does not count)", shortName(fn), p.pos(ret.Pos())))
			}
		}
		r.Min("success_returns:"+shortName(fn), nRet, 1)
		// zip writer closed before the file
		if createsZip && createsFile && len(fileCloses) > 0 {
			okOrder := true
			for _, fc := range fileCloses {
				if !mustPassThrough(fn, fc, zipCloses) {
					okOrder = false
				}
			}
			r.Check("save-close", shortName(fn)+":order", fn.Pos(), okOrder, "the zip writer must be closed (flushed) before the file is closed")
		}
		// every iteration over parts writes the entry or fails
		rulePartsLoop(r, fn)
	}
}

// rulePartsLoop: in fn, every iteration of the range over Document.parts passes through
// (*zip.Writer).Create and Write (or leaves the function).
func rulePartsLoop(r *Run, fn *ssa.Function) {
	p := r.P
	n := 0
	allInstrs(fn, func(in ssa.Instruction) {
		rg, ok := in.(*ssa.Range)
		if !ok {
			return
		}
		chain, _ := addrChain(rg.X)
		if len(chain) == 0 || !fieldIs(p, chain[len(chain)-1], pkgDoc, "Document", "parts") {
			return
		}
		n++
		// header = block containing Next
		var next *ssa.Next
		if refs := rg.Referrers(); refs != nil {
			for _, u := range *refs {
				if nx, ok := u.(*ssa.Next); ok {
					next = nx
				}
			}
		}
		if next == nil {
			r.Undecided("part-pass", shortName(fn)+":loop", rg.Pos(), "range without Next")
			return
		}
		header := next.Block()
		var body *ssa.BasicBlock
		if iff, ok := header.Instrs[len(header.Instrs)-1].(*ssa.If); ok {
			_ = iff
			body = header.Succs[0]
		}
		if body == nil {
			r.Undecided("part-pass", shortName(fn)+":loop", rg.Pos(), "unexpected loop shape")
			return
		}
		for _, want := range []string{"(*archive/zip.Writer).Create", "Write"} {
			cut := map[*ssa.BasicBlock]bool{}
			allInstrs(fn, func(in2 ssa.Instruction) {
				if c, ok := in2.(*ssa.Call); ok {
					cn := calleeName(c)
					if cn == want || (want == "Write" && (strings.HasSuffix(cn, ".Write") || strings.HasSuffix(cn, ").Write"))) {
						cut[c.Block()] = true
					}
				}
			})
			reach := reachableBlocks(body, cut)
			ok := !reach[header] || cut[body]
			if cut[body] {
				ok = true
			}
			r.Check("part-pass", shortName(fn)+":loop:"+want, rg.Pos(), ok,
				fmt.Sprintf("every iteration over Document.parts in %s must reach %s before the next iteration (no part may be skipped)", shortName(fn), want))
		}
	})
	r.Min("parts_loops:"+shortName(fn), n, 1)
}

// ---------------------------------------------------------------------------
// R-SAVE-SIBLING: Save and ToBytes run the same serialisation sequence.
// ---------------------------------------------------------------------------

func serialiseSeq(p *Program, fn *ssa.Function, ms *mutSummary, depth int) []string {
	type item struct {
		pos  token.Pos
		name string
		sub  []string
	}
	var items []item
	allInstrs(fn, func(in ssa.Instruction) {
		c, ok := in.(*ssa.Call)
		if !ok {
			return
		}
		cal := staticCallee(c)
		if cal == nil || !p.inModule(cal) {
			return
		}
		// does the callee write Document.parts (through its receiver)?
		writes := false
		for _, sites := range ms.Params(cal) {
			for _, s := range sites {
				if mu, ok := s.Instr.(*ssa.MapUpdate); ok {
					if ch, _ := addrChain(mu.Map); len(ch) > 0 && fieldIs(p, ch[len(ch)-1], pkgDoc, "Document", "parts") {
						writes = true
					}
				}
			}
		}
		if !writes {
			return
		}
		it := item{pos: c.Pos(), name: shortName(cal)}
		items = append(items, it)
	})
	// order by position
	for i := 0; i < len(items); i++ {
		for j := i + 1; j < len(items); j++ {
			if items[j].pos < items[i].pos {
				items[i], items[j] = items[j], items[i]
			}
		}
	}
	var out []string
	for _, it := range items {
		out = append(out, it.name)
	}
	return out
}

func ruleSaveSibling(r *Run) {
	p := r.P
	save := r.mustFunc(pkgDoc, "(*Document).Save")
	tob := r.mustFunc(pkgDoc, "(*Document).ToBytes")
	if save == nil || tob == nil {
		return
	}
	ms := newMutSummary(p, false)
	a := serialiseSeq(p, save, ms, 0)
	b := serialiseSeq(p, tob, ms, 0)
	// Save may delegate to ToBytes
	for i, n := range a {
		if n == shortName(tob) {
			a = append(append(append([]string{}, a[:i]...), b...), a[i+1:]...)
			break
		}
	}
	same := strings.Join(a, ",") == strings.Join(b, ",")
	r.Check("save-sibling", "Save~ToBytes", save.Pos(), same && len(b) >= 4,
		fmt.Sprintf("Save and ToBytes must regenerate the same parts in the same order before writing the part map: Save=%v ToBytes=%v", a, b))
	r.Min("serialise_steps", len(b), 4)
	// required steps: content types and package relationships are regenerated by both (C01 SAVE-COMPLETE)
	for _, fn := range []*ssa.Function{save, tob} {
		seq := serialiseSeq(p, fn, ms, 0)
		for _, key := range []string{"[Content_Types].xml", "_rels/.rels", "word/_rels/document.xml.rels", "word/document.xml"} {
			found := false
			for _, ps := range collectPartStores(p) {
				if c, ok := ps.Key.isConst(); ok && c == key {
					for _, s := range seq {
						if s == shortName(ps.Fn) {
							found = true
						}
					}
				}
			}
			if fn == save {
				for _, s := range seq {
					if s == shortName(tob) {
						found = true
					}
				}
			}
			r.Check("save-complete", shortName(fn)+":"+key, fn.Pos(), found,
				fmt.Sprintf("%s must regenerate %s from the in-memory model before writing", shortName(fn), key))
		}
	}
}

var _ = types.Typ
