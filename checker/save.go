package main

import (
	"fmt"
	"go/token"
	"go/types"
	"strings"

	"golang.org/x/tools/go/ssa"
)

// isFailureLike: a result type through which a function reports failure to its caller — the
// error interface, a module type that implements it, or a pointer to a module struct that carries
// an error (an internal "what failed and why" descriptor handed from a shared helper to Save and
// ToBytes, which wrap it differently).  nil means success for all of them.
func isFailureLike(t types.Type) bool {
	if isErrorType(t) {
		return true
	}
	if _, ok := t.Underlying().(*types.Interface); ok {
		return false
	}
	ms := types.NewMethodSet(t)
	for i := 0; i < ms.Len(); i++ {
		if f, ok := ms.At(i).Obj().(*types.Func); ok && f.Name() == "Error" {
			if sg := f.Type().(*types.Signature); sg.Params().Len() == 0 && sg.Results().Len() == 1 {
				if b, ok := sg.Results().At(0).Type().(*types.Basic); ok && b.Kind() == types.String {
					return true
				}
			}
		}
	}
	if pt, ok := t.(*types.Pointer); ok {
		if n, ok := pt.Elem().(*types.Named); ok && n.Obj().Pkg() != nil && strings.HasPrefix(n.Obj().Pkg().Path(), modPath) {
			if st, ok := n.Underlying().(*types.Struct); ok {
				for i := 0; i < st.NumFields(); i++ {
					if isErrorType(st.Field(i).Type()) {
						return true
					}
				}
			}
		}
	}
	return false
}

// failIndex: index of the (last) failure-like result of sig, -1 if none.
func failIndex(sig *types.Signature) int {
	rs := sig.Results()
	for i := rs.Len() - 1; i >= 0; i-- {
		if isFailureLike(rs.At(i).Type()) {
			return i
		}
	}
	return -1
}

// errValueOf returns the SSA value holding the error result of call c (nil if none).
func errValueOf(c *ssa.Call) ssa.Value {
	sig := c.Call.Signature()
	idx := failIndex(sig)
	if idx < 0 {
		return nil
	}
	if sig.Results().Len() == 1 {
		return c
	}
	if refs := c.Referrers(); refs != nil {
		for _, in := range *refs {
			if ex, ok := in.(*ssa.Extract); ok && ex.Index == idx {
				return ex
			}
		}
	}
	return nil // never extracted: dropped
}

var errCheckDepth int

// errChecked: the error value is compared with nil and the non-nil branch reaches a return
// that yields a non-nil error.
func errChecked(fn *ssa.Function, ev ssa.Value) (bool, string) {
	if ev == nil {
		return false, "the error result is never read"
	}
	refs := ev.Referrers()
	if refs == nil {
		return false, "the error result is never read"
	}
	errIdx := failIndex(fn.Signature)
	// `err = f(); if err != nil` with err living in memory (captured by a deferred closure):
	// follow the store to the next load of the same variable in that block
	for _, in := range *refs {
		st, ok := in.(*ssa.Store)
		if !ok || st.Val != ev {
			continue
		}
		if _, isVar := st.Addr.(*ssa.Alloc); !isVar {
			continue
		}
		b := st.Block()
		for i := instrIndex(st) + 1; i < len(b.Instrs); i++ {
			if st2, ok := b.Instrs[i].(*ssa.Store); ok && st2.Addr == st.Addr {
				break
			}
			if ld, ok := b.Instrs[i].(*ssa.UnOp); ok && ld.Op == token.MUL && ld.X == st.Addr {
				if ok2, _ := errChecked(fn, ld); ok2 {
					return true, ""
				}
			}
		}
	}
	// `n, err := w.Write(data); if err == nil && n != len(data) { err = io.ErrShortWrite }; if err != nil {…}`:
	// the value is merged with another error before it is tested — follow it through the phi
	for _, in := range *refs {
		if ph, ok := in.(*ssa.Phi); ok && errCheckDepth < 3 {
			errCheckDepth++
			ok2, _ := errChecked(fn, ph)
			errCheckDepth--
			if ok2 {
				return true, ""
			}
		}
	}
	for _, in := range *refs {
		bo, ok := in.(*ssa.BinOp)
		if !ok || (bo.Op != token.NEQ && bo.Op != token.EQL) {
			continue
		}
		if !isNilConst(bo.X) && !isNilConst(bo.Y) {
			continue
		}
		brefs := bo.Referrers()
		if brefs == nil {
			continue
		}
		for _, u := range *brefs {
			iff, ok := u.(*ssa.If)
			if !ok {
				continue
			}
			nonNil := iff.Block().Succs[0]
			if bo.Op == token.EQL {
				nonNil = iff.Block().Succs[1]
			}
			// every return reachable from the non-nil branch without leaving its region must be an error return
			region := edgeRegion(iff.Block(), nonNil)
			if len(region) == 0 {
				region = map[*ssa.BasicBlock]bool{nonNil: true}
			}
			sawRet := false
			allErr := true
			for b := range region {
				for _, x := range b.Instrs {
					if ret, ok := x.(*ssa.Return); ok {
						sawRet = true
						if errIdx >= 0 && (isNilConst(retResult(ret, errIdx)) || definitelyNilAt(gProg, retResult(ret, errIdx), ret.Block(), 0)) {
							// `return nil`, or a value that is known to be nil here: another error variable
							// that was tested (and found nil) earlier, possibly wrapped by a helper that
							// hands nil through — the failure just detected is reported as success
							allErr = false
						}
					}
				}
			}
			if sawRet && allErr {
				return true, ""
			}
			if sawRet && !allErr {
				return false, "a non-nil error reaches a return that reports success"
			}
		}
	}
	// returned directly?
	if errIdx >= 0 {
		for _, ret := range returnsOf(fn) {
			if retResult(ret, errIdx) == ev {
				return true, ""
			}
		}
	}
	return false, "the error result is not tested against nil with an error return"
}

func ruleSaveErr(r *Run) {
	p := r.P
	type ent struct {
		name        string
		min         int
		needZip     bool
		needFileCls bool
	}
	for _, e := range []ent{{"(*Document).Save", 6, true, true}, {"(*Document).ToBytes", 5, true, false}} {
		entry := r.mustFunc(pkgDoc, e.name)
		if entry == nil {
			continue
		}
		// the entry point and the helpers it delegates the writing to (a refactoring may move the
		// ZIP handling into a function of its own: the obligations follow it)
		group := []*ssa.Function{entry}
		for _, g := range sortedFuncs(p.staticReach(entry)) {
			if g == entry || g.Parent() != nil || g.Pkg == nil || g.Pkg.Pkg.Path() != pkgDoc {
				continue
			}
			touches := false
			allInstrs(g, func(in ssa.Instruction) {
				c, ok := in.(ssa.CallInstruction)
				if !ok {
					return
				}
				if strings.Contains(calleeName(c), "archive/zip") {
					touches = true
				}
				// …or it runs the fallible regeneration steps (a module function that can fail and
				// writes the part map), e.g. a refreshParts() helper shared by Save and ToBytes
				if cal := staticCallee(c); cal != nil && p.inModule(cal) && failIndex(cal.Signature) >= 0 && isPartRegenerator(p, cal) {
					touches = true
				}
			})
			if touches {
				group = append(group, g)
			}
		}
		totalErr, totalRet, totalLoops := 0, 0, 0
		for _, fn := range group {
			nErr := 0
			seen := map[string]int{}
			var zipCloses, fileCloses []ssa.Instruction
			createsZip, createsFile := false, false
			allInstrs(fn, func(in ssa.Instruction) {
				switch x := in.(type) {
				case *ssa.Call:
					cn := calleeName(x)
					if cn == "archive/zip.NewWriter" {
						createsZip = true
					}
					if cn == "os.Create" || cn == "os.OpenFile" {
						createsFile = true
					}
					if failIndex(x.Call.Signature()) < 0 {
						return
					}
					// a query that writes nothing: its failure says nothing about what is in the file
					// (an additional size verification after the write that is skipped when Stat fails)
					switch cn {
					case "(*os.File).Stat", "os.Stat", "os.Lstat":
						return
					}
					// constructing or wrapping an error is not a fallible operation: fmt.Errorf(…),
					// WrapError(op, err) with a non-nil err — there is nothing to check
					if !callMayBeNil(p, fn, x, -1, 0) {
						return
					}
					nErr++
					seen[cn]++
					key := fmt.Sprintf("%s:%s#%d", shortName(fn), strings.TrimPrefix(cn, "invoke:"), seen[cn])
					ok, why := errChecked(fn, errValueOf(x))
					r.Check("save-err", key, x.Pos(), ok,
						fmt.Sprintf("%s calls %s whose error must make %s fail: %s", shortName(fn), cn, shortName(fn), map[bool]string{true: "checked and propagated", false: why}[ok]))
					if ok && cn == "(*archive/zip.Writer).Close" {
						zipCloses = append(zipCloses, x)
					}
					if ok && cn == "(*os.File).Close" {
						fileCloses = append(fileCloses, x)
					}
				}
			})
			totalErr += nErr
			// success returns must be preceded by checked closes
			nRet := 0
			for _, ret := range returnsOf(fn) {
				ei := failIndex(fn.Signature)
				if ei < 0 || !mayReportSuccess(p, fn, ret, ei) {
					continue
				}
				nRet++
				if createsZip {
					ok := mustPassThrough(fn, ret, zipCloses) || deferredCloseIntoNamedResult(fn, ret, ei, "(*archive/zip.Writer).Close")
					r.Check("save-close", shortName(fn)+":zip.Writer.Close", ret.Pos(), ok,
						fmt.Sprintf("%s returns success at %s; every such path must first call (*zip.Writer).Close and check its error (a deferred Close whose result is dropped does not count): the central directory and buffered data are only written — and write errors such as ENOSPC only surface — at Close", shortName(fn), p.pos(ret.Pos())))
				}
				if createsFile {
					ok := mustPassThrough(fn, ret, fileCloses) || deferredCloseIntoNamedResult(fn, ret, ei, "(*os.File).Close")
					r.Check("save-close", shortName(fn)+":os.File.Close", ret.Pos(), ok,
						fmt.Sprintf("%s returns success at %s; every such path must first call (*os.File).Close and check its error (a deferred Close whose result is dropped does not count)", shortName(fn), p.pos(ret.Pos())))
				}
			}
			totalRet += nRet
			// zip writer closed before the file
			if createsZip && createsFile && len(fileCloses) > 0 {
				okOrder := true
				for _, fc := range fileCloses {
					if !mustPassThrough(fn, fc, zipCloses) {
						okOrder = false
					}
				}
				r.Check("save-close", shortName(fn)+":order", fn.Pos(), okOrder, "the zip writer must be closed (flushed) before the file is closed")
			}
			// every iteration over parts writes the entry or fails
			totalLoops += rulePartsLoop(r, fn)
		}
		r.Min("error_returning_calls:"+shortName(entry), totalErr, e.min)
		r.Min("success_returns:"+shortName(entry), totalRet, 1)
		r.Min("parts_loops:"+shortName(entry), totalLoops, 1)
	}
}

// isPartRegenerator: fn stores into Document.parts (directly or through a keyed helper).
func isPartRegenerator(p *Program, fn *ssa.Function) bool {
	for _, ps := range partStoresCached(p) {
		if ps.Fn == fn {
			return true
		}
	}
	return false
}

// partsLoops: the loops of fn that visit every part of the part map — a range over
// Document.parts itself, or over a slice that collects every key of it (names gathered by an
// unfiltered range, then usually sorted: deterministic entry order).
type partsLoop struct {
	L      *natLoop
	RI     *rangeInfo
	ByKeys bool // ranges over the collected keys; the bytes are looked up per key
}

func partsLoopsOf(p *Program, fn *ssa.Function) []partsLoop {
	var out []partsLoop
	for _, l := range naturalLoops(fn) {
		ri := rangeOf(l)
		if ri == nil {
			continue
		}
		if ld, ok := ri.X.(*ssa.UnOp); ok && ld.Op == token.MUL {
			if fv, _ := fieldOfAddr(ld.X); fieldIs(p, fv, pkgDoc, "Document", "parts") {
				out = append(out, partsLoop{l, ri, false})
				continue
			}
		}
		if _, isSlice := ri.X.Type().Underlying().(*types.Slice); isSlice {
			c := &collector{p: p}
			if ok, why := c.containsAll(ri.X); ok && strings.Contains(why, "the collection parts itself") {
				out = append(out, partsLoop{l, ri, true})
			}
		}
	}
	return out
}

// rulePartsLoop: in fn, every iteration of a loop over the part map that writes ZIP entries passes
// through (*zip.Writer).Create and Write (or leaves the function).  Loops over the part map that
// write nothing (size estimates, key collection) carry no obligation.  Returns the number of
// writing loops.
func rulePartsLoop(r *Run, fn *ssa.Function) int {
	p := r.P
	n := 0
	isCreate := func(cn string) bool {
		return cn == "(*archive/zip.Writer).Create" || cn == "(*archive/zip.Writer).CreateHeader"
	}
	isWrite := func(cn string) bool { return strings.HasSuffix(cn, ".Write") || strings.HasSuffix(cn, ").Write") }
	for _, pl := range partsLoopsOf(p, fn) {
		l := pl.L
		// does the loop write entries at all?
		writes := false
		cuts := map[string]map[*ssa.BasicBlock]bool{"(*archive/zip.Writer).Create": {}, "Write": {}}
		for b := range l.Body {
			for _, in := range b.Instrs {
				c, ok := in.(*ssa.Call)
				if !ok {
					continue
				}
				cn := calleeName(c)
				cal := staticCallee(c)
				helper := cal != nil && p.inModule(cal)
				if isCreate(cn) || (helper && alwaysCallsOnSuccess(p, cal, isCreate, 0)) {
					cuts["(*archive/zip.Writer).Create"][b] = true
					writes = true
				}
				if isWrite(cn) || (helper && alwaysCallsOnSuccess(p, cal, isWrite, 0)) {
					cuts["Write"][b] = true
					writes = true
				}
			}
		}
		if !writes {
			continue
		}
		n++
		iff, ok := l.Header.Instrs[len(l.Header.Instrs)-1].(*ssa.If)
		if !ok {
			r.Undecided("part-pass", shortName(fn)+":loop", l.Header.Instrs[0].Pos(), "unexpected loop shape")
			continue
		}
		body := iff.Block().Succs[0]
		if !l.Body[body] {
			body = iff.Block().Succs[1]
		}
		for _, want := range []string{"(*archive/zip.Writer).Create", "Write"} {
			cut := cuts[want]
			ok := cut[body] || !reachableBlocks(body, cut)[l.Header]
			r.Check("part-pass", shortName(fn)+":loop:"+want, l.Header.Instrs[0].Pos(), ok,
				fmt.Sprintf("every iteration over Document.parts in %s must reach %s before the next iteration (no part may be skipped)", shortName(fn), want))
		}
	}
	return n
}

// ---------------------------------------------------------------------------
// R-SAVE-SIBLING: Save and ToBytes run the same serialisation sequence.
// ---------------------------------------------------------------------------

func serialiseSeq(p *Program, fn *ssa.Function, ms *mutSummary, depth int) []string {
	type item struct {
		pos  token.Pos
		name string
		sub  []string
	}
	var items []item
	allInstrs(fn, func(in ssa.Instruction) {
		c, ok := in.(*ssa.Call)
		if !ok {
			return
		}
		cal := staticCallee(c)
		if cal == nil || !p.inModule(cal) {
			return
		}
		// does the callee write Document.parts (through its receiver)?
		writes := false
		for _, sites := range ms.Params(cal) {
			for _, s := range sites {
				if mu, ok := s.Instr.(*ssa.MapUpdate); ok {
					if ch, _ := addrChain(mu.Map); len(ch) > 0 && fieldIs(p, ch[len(ch)-1], pkgDoc, "Document", "parts") {
						writes = true
					}
				}
			}
		}
		if !writes {
			return
		}
		it := item{pos: c.Pos(), name: shortName(cal)}
		// a callee that writes parts only through further callees is a helper: inline its sequence
		direct := false
		allInstrs(cal, func(in2 ssa.Instruction) {
			if mu, ok := in2.(*ssa.MapUpdate); ok {
				if ch, _ := addrChain(mu.Map); len(ch) > 0 && fieldIs(p, ch[len(ch)-1], pkgDoc, "Document", "parts") {
					direct = true
				}
			}
		})
		// …or that stores a part through a keyed helper (storeXMLPart("…", v)): the store is
		// attributed to this callee by collectPartStores
		for _, ps := range partStoresCached(p) {
			if ps.Fn == cal {
				if _, isConst := ps.Key.isConst(); isConst {
					direct = true
				}
			}
		}
		if !direct && depth < 3 {
			it.sub = serialiseSeq(p, cal, ms, depth+1)
		}
		items = append(items, it)
	})
	// part-map writes made by the entry point itself (not through a serialise* helper)
	allInstrs(fn, func(in ssa.Instruction) {
		mu, ok := in.(*ssa.MapUpdate)
		if !ok {
			return
		}
		if ch, _ := addrChain(mu.Map); len(ch) > 0 && fieldIs(p, ch[len(ch)-1], pkgDoc, "Document", "parts") {
			items = append(items, item{pos: mu.Pos(), name: "direct-write:" + symOf(mu.Key).Pattern()})
		}
	})
	// order by position
	for i := 0; i < len(items); i++ {
		for j := i + 1; j < len(items); j++ {
			if items[j].pos < items[i].pos {
				items[i], items[j] = items[j], items[i]
			}
		}
	}
	var out []string
	for _, it := range items {
		if it.sub != nil {
			out = append(out, it.sub...)
			continue
		}
		out = append(out, it.name)
	}
	return out
}

func ruleSaveSibling(r *Run) {
	p := r.P
	save := r.mustFunc(pkgDoc, "(*Document).Save")
	tob := r.mustFunc(pkgDoc, "(*Document).ToBytes")
	if save == nil || tob == nil {
		return
	}
	ms := newMutSummary(p, false)
	a := serialiseSeq(p, save, ms, 0)
	b := serialiseSeq(p, tob, ms, 0)
	// Save may delegate to ToBytes
	for i, n := range a {
		if n == shortName(tob) {
			a = append(append(append([]string{}, a[:i]...), b...), a[i+1:]...)
			break
		}
	}
	same := strings.Join(a, ",") == strings.Join(b, ",")
	r.Check("save-sibling", "Save~ToBytes", save.Pos(), same && len(b) >= 4,
		fmt.Sprintf("Save and ToBytes must regenerate the same parts in the same order before writing the part map: Save=%v ToBytes=%v", a, b))
	r.Min("serialise_steps", len(b), 4)
	// required steps: content types and package relationships are regenerated by both (C01 SAVE-COMPLETE)
	for _, fn := range []*ssa.Function{save, tob} {
		seq := serialiseSeq(p, fn, ms, 0)
		for _, key := range []string{"[Content_Types].xml", "_rels/.rels", "word/_rels/document.xml.rels", "word/document.xml"} {
			found := false
			for _, ps := range collectPartStores(p) {
				if c, ok := ps.Key.isConst(); ok && c == key {
					for _, s := range seq {
						if s == shortName(ps.Fn) {
							found = true
						}
					}
				}
			}
			if fn == save {
				for _, s := range seq {
					if s == shortName(tob) {
						found = true
					}
				}
			}
			r.Check("save-complete", shortName(fn)+":"+key, fn.Pos(), found,
				fmt.Sprintf("%s must regenerate %s from the in-memory model before writing", shortName(fn), key))
		}
	}
}

// ruleSaveVerbatim: in the loop that writes the part map, the bytes handed to the ZIP entry writer
// are the map's value itself — not a value chosen by part name, target path or anything else.
func ruleSaveVerbatim(r *Run) {
	p := r.P
	n := 0
	for _, entry := range []string{"(*Document).Save", "(*Document).ToBytes"} {
		root := r.mustFunc(pkgDoc, entry)
		if root == nil {
			continue
		}
		found := false
		for _, fn := range sortedFuncs(p.staticReach(root)) {
			for _, pl := range partsLoopsOf(p, fn) {
				l, ri := pl.L, pl.RI
				// the write may sit in a helper called from the loop: writeZipEntry(zw, name, data)
				type wsite struct {
					c   ssa.CallInstruction
					arg ssa.Value
					in  *ssa.Function
				}
				var sites []wsite
				for b := range l.Body {
					for _, in := range b.Instrs {
						c, ok := in.(ssa.CallInstruction)
						if !ok {
							continue
						}
						if c.Common().IsInvoke() && c.Common().Method.Name() == "Write" && len(c.Common().Args) == 1 {
							sites = append(sites, wsite{c, c.Common().Args[0], fn})
							continue
						}
						cal := staticCallee(c)
						if cal == nil || !p.inModule(cal) {
							continue
						}
						allInstrs(cal, func(in2 ssa.Instruction) {
							c2, ok := in2.(ssa.CallInstruction)
							if !ok || !c2.Common().IsInvoke() || c2.Common().Method.Name() != "Write" || len(c2.Common().Args) != 1 {
								return
							}
							// map the helper's parameter back to the caller's argument
							a := c2.Common().Args[0]
							if par, ok := a.(*ssa.Parameter); ok {
								if pi := paramIndex(cal, par); pi >= 0 && pi < len(c.Common().Args) {
									a = c.Common().Args[pi]
								}
							}
							sites = append(sites, wsite{c2, a, cal})
						})
					}
				}
				for _, ws := range sites {
					{
						c := ws.c
						in := ssa.Instruction(c)
						_ = in
						found = true
						n++
						arg := ws.arg
						verb := false
						for _, e := range ri.Elem {
							if ex, ok := e.(*ssa.Extract); ok && ex.Index == 2 && arg == ssa.Value(ex) && !pl.ByKeys {
								verb = true
							}
							// data := d.parts[name] with name the loop's own key
							if lk, ok := arg.(*ssa.Lookup); ok && !lk.CommaOk {
								if fv, _ := fieldOfAddr(stripLoadAddr(lk.X)); fieldIs(p, fv, pkgDoc, "Document", "parts") {
									if lk.Index == e || (isLoadOf(lk.Index, e)) {
										if ex, ok := e.(*ssa.Extract); !ok || ex.Index == 1 {
											verb = true
										}
									}
								}
							}
						}
						r.Check("save-verbatim", entry+":"+shortName(fn), c.Pos(), verb,
							fmt.Sprintf("%s writes each part with %s", shortName(fn), map[bool]string{true: "exactly the bytes held in the part map", false: "bytes that are not simply the part map's value (" + symOf(arg).String() + "): what lands in the file can differ from what ToBytes returns"}[verb]))
					}
				}
			}
		}
		if !found {
			r.Check("save-verbatim", entry, root.Pos(), false, "no loop over the part map that writes each part was found in "+entry+" or its callees")
		}
	}
	r.Min("part_write_sites", n, 2)
}

var _ = types.Typ

// mayReportSuccess: can this return hand a nil error to the caller?  Yes for the nil constant and
// for any value that is not known to be non-nil (a variable, a callee's result); no for freshly
// constructed errors, for values returned inside the non-nil branch of their own nil test, and
// for nil-preserving wrappers (WrapError: nil only for a nil argument) applied to such values.
func mayReportSuccess(p *Program, fn *ssa.Function, ret *ssa.Return, ei int) bool {
	return mayBeNilErrAt(p, fn, retResult(ret, ei), ret.Block(), 0)
}

func mayBeNilErrAt(p *Program, fn *ssa.Function, v ssa.Value, at *ssa.BasicBlock, depth int) bool {
	if isNilConst(v) {
		return true
	}
	if depth > 4 {
		return true
	}
	if inNonNilBranchOf(fn, v, at) {
		return false
	}
	switch x := v.(type) {
	case *ssa.MakeInterface, *ssa.Alloc, *ssa.MakeClosure, *ssa.MakeMap, *ssa.MakeSlice, *ssa.MakeChan:
		return false
	case *ssa.ChangeInterface:
		return mayBeNilErrAt(p, fn, x.X, at, depth)
	case *ssa.ChangeType:
		return mayBeNilErrAt(p, fn, x.X, at, depth)
	case *ssa.Phi:
		for i, e := range x.Edges {
			from := at
			if i < len(x.Block().Preds) {
				from = x.Block().Preds[i]
			}
			if e != v && mayBeNilErrAt(p, fn, e, from, depth+1) {
				return true
			}
		}
		return false
	case *ssa.UnOp:
		// failure.err: a field that every constructor of the struct fills with a non-nil error
		if x.Op == token.MUL {
			if fa, ok := x.X.(*ssa.FieldAddr); ok {
				if fieldNeverNil(p, fa, depth) {
					return false
				}
			}
		}
	case *ssa.Call:
		return callMayBeNil(p, fn, x, -1, depth)
	case *ssa.Extract:
		if c, ok := x.Tuple.(*ssa.Call); ok {
			return callMayBeNil(p, fn, c, x.Index, depth)
		}
	}
	// a tested value used inside its own non-nil branch
	return !inNonNilBranchOf(fn, v, at)
}

// callMayBeNil: may result idx (-1: the failure result) of call x be nil?
func callMayBeNil(p *Program, fn *ssa.Function, x *ssa.Call, idx int, depth int) bool {
	cal := staticCallee(x)
	if cal == nil || !p.inModule(cal) || len(cal.Blocks) == 0 {
		cn := calleeName(x)
		if strings.HasPrefix(cn, "fmt.Errorf") || strings.HasPrefix(cn, "errors.New") {
			return false
		}
		return true // e.g. `return file.Close()`
	}
	e2 := idx
	if e2 < 0 {
		e2 = failIndex(cal.Signature)
	}
	if e2 < 0 || cal == fn {
		return true
	}
	for _, r2 := range returnsOf(cal) {
		rv := retResult(r2, e2)
		if !mayBeNilErrAt(p, cal, rv, r2.Block(), depth+1) {
			continue
		}
		// nil-preserving wrapper: this nil return happens only when an error parameter is nil
		guarded := false
		for pi, par := range cal.Params {
			if !isFailureLike(par.Type()) || !inNilBranchOf(cal, par, r2.Block()) {
				continue
			}
			args := x.Call.Args
			if pi < len(args) && !mayBeNilErrAt(p, fn, args[pi], x.Block(), depth+1) {
				guarded = true
			}
		}
		// …or the nil is the callee's own parameter handed back (`return err` for err == nil only)
		if par, ok := rv.(*ssa.Parameter); ok && !guarded {
			if pi := paramIndex(cal, par); pi >= 0 && pi < len(x.Call.Args) && !mayBeNilErrAt(p, fn, x.Call.Args[pi], x.Block(), depth+1) {
				guarded = true
			}
		}
		if !guarded {
			return true
		}
	}
	return false
}

// nilTests enumerates `v == nil` / `v != nil` branches: calls f(nilSucc, nonNilSucc, block).
func nilTests(fn *ssa.Function, v ssa.Value, f func(b, nilSucc, nonNilSucc *ssa.BasicBlock)) {
	for _, b := range fn.Blocks {
		if len(b.Instrs) == 0 {
			continue
		}
		iff, ok := b.Instrs[len(b.Instrs)-1].(*ssa.If)
		if !ok {
			continue
		}
		bo, ok := iff.Cond.(*ssa.BinOp)
		if !ok || (bo.Op != token.NEQ && bo.Op != token.EQL) || (!isNilConst(bo.X) && !isNilConst(bo.Y)) {
			continue
		}
		opnd := bo.X
		if isNilConst(bo.X) {
			opnd = bo.Y
		}
		same := opnd == v
		if l1, ok := opnd.(*ssa.UnOp); ok {
			if l2, ok := v.(*ssa.UnOp); ok && l1.X == l2.X {
				same = true
			}
		}
		if !same {
			continue
		}
		if bo.Op == token.NEQ {
			f(b, b.Succs[1], b.Succs[0])
		} else {
			f(b, b.Succs[0], b.Succs[1])
		}
	}
}

func inNonNilBranchOf(fn *ssa.Function, v ssa.Value, at *ssa.BasicBlock) bool {
	res := false
	nilTests(fn, v, func(b, nilS, nonNilS *ssa.BasicBlock) {
		if edgeRegion(b, nonNilS)[at] {
			res = true
		}
	})
	if res {
		return true
	}
	// go/ssa does not merge two reads of the same field: `if out.err != nil { return wrap(out.err) }`
	// tests one load and returns another.  A second load of the same access path inside the
	// non-nil region of the first, with no store to that path in the region, has the tested value.
	ld, ok := v.(*ssa.UnOp)
	if !ok || ld.Op != token.MUL {
		return false
	}
	if _, isField := ld.X.(*ssa.FieldAddr); !isField {
		return false
	}
	path := pathString(ld.X)
	allInstrs(fn, func(in ssa.Instruction) {
		l2, ok := in.(*ssa.UnOp)
		if !ok || l2 == ld || l2.Op != token.MUL || pathString(l2.X) != path {
			return
		}
		nilTests(fn, l2, func(b, nilS, nonNilS *ssa.BasicBlock) {
			region := edgeRegion(b, nonNilS)
			if !region[at] {
				return
			}
			stored := false
			for rb := range region {
				for _, in2 := range rb.Instrs {
					if st, ok := in2.(*ssa.Store); ok && pathString(st.Addr) == path {
						stored = true
					}
				}
			}
			if !stored {
				res = true
			}
		})
	})
	return res
}

func inNilBranchOf(fn *ssa.Function, v ssa.Value, at *ssa.BasicBlock) bool {
	res := false
	nilTests(fn, v, func(b, nilS, nonNilS *ssa.BasicBlock) {
		if edgeRegion(b, nilS)[at] {
			res = true
		}
	})
	return res
}

// deferredCloseIntoNamedResult: the accepted idiom
//
//	func f() (err error) { …; defer func() { if cerr := w.Close(); cerr != nil && err == nil { err = cerr } }() … }
//
// A deferred literal can only change what the caller sees when the error result is NAMED: go/ssa
// then loads the result variable after running the deferred calls.  With an unnamed result the
// value is read before the defers run and the assignment made in the literal is lost.
func deferredCloseIntoNamedResult(fn *ssa.Function, ret *ssa.Return, ei int, closeCallee string) bool {
	ld, ok := retResult(ret, ei).(*ssa.UnOp)
	if !ok || ld.Op != token.MUL {
		return false
	}
	resVar, ok := ld.X.(*ssa.Alloc)
	if !ok {
		return false
	}
	b := ld.Block()
	rd := -1
	for i, in := range b.Instrs {
		if _, ok := in.(*ssa.RunDefers); ok {
			rd = i
		}
	}
	if rd < 0 || instrIndex(ld) < rd {
		return false
	}
	found := false
	allInstrs(fn, func(in ssa.Instruction) {
		df, ok := in.(*ssa.Defer)
		if !ok {
			return
		}
		mc, ok := df.Call.Value.(*ssa.MakeClosure)
		if !ok {
			return
		}
		lit := mc.Fn.(*ssa.Function)
		var fvRes *ssa.FreeVar
		for i, bnd := range mc.Bindings {
			if bnd == ssa.Value(resVar) && i < len(lit.FreeVars) {
				fvRes = lit.FreeVars[i]
			}
		}
		if fvRes == nil {
			return
		}
		allInstrs(lit, func(in2 ssa.Instruction) {
			c, ok := in2.(*ssa.Call)
			if !ok || calleeName(c) != closeCallee {
				return
			}
			for _, b2 := range lit.Blocks {
				for _, in3 := range b2.Instrs {
					if st, ok := in3.(*ssa.Store); ok && st.Addr == ssa.Value(fvRes) && derivesFrom(st.Val, c) {
						found = true
					}
				}
			}
		})
	})
	return found
}

// fieldNeverNil: the field addressed by fa (of a module struct type T) is given a non-nil value by
// every construction of a T in the module and is never stored a possibly-nil value afterwards.
// Then `x.f` read from any T is non-nil.  (The struct is a failure descriptor such as
// packageWriteFailure{stage, part, err}: `return wrap(failure.err)` inside `if failure != nil`
// is an error return only under this invariant — a constructor that forgets err breaks it.)
var fieldNeverNilCache = map[*types.Var]bool{}

func fieldNeverNil(p *Program, fa *ssa.FieldAddr, depth int) bool {
	pt, ok := fa.X.Type().Underlying().(*types.Pointer)
	if !ok {
		return false
	}
	st, ok := pt.Elem().Underlying().(*types.Struct)
	if !ok {
		return false
	}
	fv := st.Field(fa.Field)
	if fv.Pkg() == nil || !strings.HasPrefix(fv.Pkg().Path(), modPath) {
		return false
	}
	if v, ok := fieldNeverNilCache[fv]; ok {
		return v
	}
	fieldNeverNilCache[fv] = false // recursion guard
	res := true
	nAlloc := 0
	for fn := range p.Funcs {
		allInstrs(fn, func(in ssa.Instruction) {
			switch x := in.(type) {
			case *ssa.Alloc:
				apt, ok := x.Type().Underlying().(*types.Pointer)
				if !ok || !types.Identical(apt.Elem().Underlying(), st) || !types.Identical(apt.Elem(), pt.Elem()) {
					return
				}
				nAlloc++
				stored := false
				if x.Referrers() != nil {
					for _, u := range *x.Referrers() {
						if f2, ok := u.(*ssa.FieldAddr); ok && f2.Field == fa.Field && f2.Referrers() != nil {
							for _, u2 := range *f2.Referrers() {
								if s2, ok := u2.(*ssa.Store); ok && s2.Addr == ssa.Value(f2) {
									stored = true
								}
							}
						}
					}
				}
				if !stored {
					res = false // a T whose field keeps its zero value
				}
			case *ssa.Store:
				f2, ok := x.Addr.(*ssa.FieldAddr)
				if !ok || f2.Field != fa.Field || !types.Identical(f2.X.Type(), fa.X.Type()) {
					return
				}
				if mayBeNilErrAt(p, fn, x.Val, x.Block(), depth+1) {
					res = false
				}
			}
		})
	}
	if nAlloc == 0 {
		res = false
	}
	fieldNeverNilCache[fv] = res
	return res
}

// stripLoadAddr: for a loaded value `*addr` return addr, else the value itself.
func stripLoadAddr(v ssa.Value) ssa.Value {
	if u, ok := v.(*ssa.UnOp); ok && u.Op == token.MUL {
		return u.X
	}
	return v
}

func isLoadOf(v, addr ssa.Value) bool {
	u, ok := v.(*ssa.UnOp)
	return ok && u.Op == token.MUL && u.X == addr
}

var partStoreCache = map[*Program][]partStore{}

func partStoresCached(p *Program) []partStore {
	if v, ok := partStoreCache[p]; ok {
		return v
	}
	v := collectPartStores(p)
	partStoreCache[p] = v
	return v
}

// alwaysCallsOnSuccess: every path of fn from entry to a return that may report success passes
// through a call whose callee name satisfies pred (directly or in a helper with the same property).
func alwaysCallsOnSuccess(p *Program, fn *ssa.Function, pred func(string) bool, depth int) bool {
	if depth > 2 || len(fn.Blocks) == 0 {
		return false
	}
	cut := map[*ssa.BasicBlock]bool{}
	allInstrs(fn, func(in ssa.Instruction) {
		c, ok := in.(ssa.CallInstruction)
		if !ok {
			return
		}
		if _, isDefer := in.(*ssa.Defer); isDefer {
			return
		}
		if pred(calleeName(c)) {
			cut[c.Block()] = true
			return
		}
		if cal := staticCallee(c); cal != nil && cal != fn && p.inModule(cal) && alwaysCallsOnSuccess(p, cal, pred, depth+1) {
			cut[c.Block()] = true
		}
	})
	if len(cut) == 0 {
		return false
	}
	reach := reachableBlocks(fn.Blocks[0], cut)
	ei := failIndex(fn.Signature)
	for _, ret := range returnsOf(fn) {
		if !reach[ret.Block()] {
			continue
		}
		// reached without the step: acceptable only if this return cannot report success
		if ei < 0 || mayReportSuccess(p, fn, ret, ei) {
			return false
		}
	}
	return true
}

// definitelyNilAt: the error value v is nil whenever control is in block blk — it is the nil
// constant, a value whose `!= nil` test has already failed on every way into blk, or such a value
// passed through a wrapper that returns nil for a nil argument.
func definitelyNilAt(p *Program, v ssa.Value, blk *ssa.BasicBlock, depth int) bool {
	if v == nil || depth > 3 {
		return false
	}
	if isNilConst(v) {
		return true
	}
	if c, ok := v.(*ssa.Call); ok && p != nil {
		if cal := staticCallee(c); cal != nil && p.inModule(cal) {
			if k := nilWhenParamNil(cal); k >= 0 && k < len(c.Call.Args) {
				return definitelyNilAt(p, c.Call.Args[k], blk, depth+1)
			}
		}
		return false
	}
	refs := v.Referrers()
	if refs == nil {
		return false
	}
	for _, in := range *refs {
		bo, ok := in.(*ssa.BinOp)
		if !ok || (bo.Op != token.NEQ && bo.Op != token.EQL) || (!isNilConst(bo.X) && !isNilConst(bo.Y)) || bo.Referrers() == nil {
			continue
		}
		for _, u := range *bo.Referrers() {
			iff, ok := u.(*ssa.If)
			if !ok {
				continue
			}
			nilSucc := iff.Block().Succs[1]
			if bo.Op == token.EQL {
				nilSucc = iff.Block().Succs[0]
			}
			// the nil edge must be the only way from the test into blk: the nil successor has the test
			// block as its only predecessor and dominates blk
			if len(nilSucc.Preds) == 1 && nilSucc.Dominates(blk) {
				return true
			}
		}
	}
	return false
}

// nilWhenParamNil: module function whose error result is the nil constant on every return that is
// taken when its error parameter k is nil (WrapError(op, err): if err == nil { return nil }).
func nilWhenParamNil(f *ssa.Function) int {
	if f == nil || len(f.Blocks) == 0 {
		return -1
	}
	ei := errorResultIndex(f.Signature)
	if ei < 0 {
		return -1
	}
	for k, par := range f.Params {
		if !isErrorType(par.Type()) || par.Referrers() == nil {
			continue
		}
		for _, in := range *par.Referrers() {
			bo, ok := in.(*ssa.BinOp)
			if !ok || (bo.Op != token.NEQ && bo.Op != token.EQL) || (!isNilConst(bo.X) && !isNilConst(bo.Y)) || bo.Referrers() == nil {
				continue
			}
			for _, u := range *bo.Referrers() {
				iff, ok := u.(*ssa.If)
				if !ok {
					continue
				}
				nb := iff.Block().Succs[0]
				if bo.Op == token.NEQ {
					nb = iff.Block().Succs[1]
				}
				region := edgeRegion(iff.Block(), nb)
				if len(region) == 0 {
					region = map[*ssa.BasicBlock]bool{nb: true}
				}
				okAll, any := true, false
				for _, ret := range returnsOf(f) {
					if region[ret.Block()] {
						any = true
						if !isNilConst(retResult(ret, ei)) {
							okAll = false
						}
					}
				}
				if any && okAll && iff.Block() == f.Blocks[0] {
					return k
				}
			}
		}
	}
	return -1
}
