// wzcheck — repository-specific static checker for zerx-lab/wordZero.
//
// Nothing under /repo is executed.  The program loads the current working tree
// of /repo with go/packages, builds SSA and a call graph, and evaluates the
// rules registered for one property (see DESIGN.md §4).
package main

import (
	"encoding/json"
	"flag"
	"fmt"
	"go/token"
	"os"
	"path/filepath"
	"regexp"
	"runtime/debug"
	"sort"
	"strconv"
	"strings"
	"time"
)

type Oblig struct {
	Rule       string `json:"rule"`
	Key        string `json:"key"`
	Pos        string `json:"pos,omitempty"`
	Status     string `json:"status"` // discharged | violation | known-finding | undecided
	Detail     string `json:"detail,omitempty"`
	NonTrivial bool   `json:"-"`
}

type Run struct {
	P        *Program
	Prop     string
	Tier     string
	obs      map[string]*Oblig
	order    []string
	Analysed map[string]int
	Failures []string // unresolved anchors / undecided / below-minimum
	Notes    []string
}

func newRun(p *Program, prop, tier string) *Run {
	return &Run{P: p, Prop: prop, Tier: tier, obs: map[string]*Oblig{}, Analysed: map[string]int{}}
}

var statusRank = map[string]int{"discharged": 0, "known-finding": 1, "undecided": 2, "violation": 3}

func (r *Run) add(rule, construct string, pos token.Pos, status, detail string, nontrivial bool) {
	key := rule + ":" + construct
	o := &Oblig{Rule: rule, Key: key, Pos: r.P.pos(pos), Status: status, Detail: detail, NonTrivial: nontrivial}
	if old, ok := r.obs[key]; ok {
		if statusRank[status] > statusRank[old.Status] {
			*old = *o
		}
		return
	}
	r.obs[key] = o
	r.order = append(r.order, key)
}

// Check records one obligation: ok → discharged, otherwise violation.
func (r *Run) Check(rule, construct string, pos token.Pos, ok bool, detail string) {
	st := "discharged"
	if !ok {
		st = "violation"
	}
	r.add(rule, construct, pos, st, detail, true)
}

// Trivial records an obligation discharged without a path/dependence computation.
func (r *Run) Trivial(rule, construct string, pos token.Pos, ok bool, detail string) {
	st := "discharged"
	if !ok {
		st = "violation"
	}
	r.add(rule, construct, pos, st, detail, false)
}

func (r *Run) Undecided(rule, construct string, pos token.Pos, detail string) {
	r.add(rule, construct, pos, "undecided", detail, true)
}

func (r *Run) Unresolved(anchor string) {
	r.Failures = append(r.Failures, "UNRESOLVED anchor="+anchor)
}

// Min asserts a minimum instance count for a rule.
func (r *Run) Min(what string, got, min int) {
	r.Analysed[what] = got
	// min is the instance count confirmed by reading the tree the rule was written on.  The guard is
	// against a rule that has lost its subject (it would pass vacuously), not against sibling sites
	// being merged by a refactoring: it trips when fewer than half of the confirmed instances (and in
	// any case when none) are found.
	thr := (min + 1) / 2
	if thr < 1 {
		thr = 1
	}
	if min <= 0 {
		thr = 0
	}
	if got < thr {
		r.Failures = append(r.Failures, fmt.Sprintf("BELOW-MINIMUM %s: found %d, confirmed %d (threshold %d)", what, got, min, thr))
	}
}

func (r *Run) Count(what string, n int) { r.Analysed[what] += n }

// mustFunc resolves a function anchor or records it as unresolved.
func (r *Run) mustFunc(pkg, name string) (f *ssaFunc) {
	fn := r.P.Func(pkg, name)
	if fn == nil {
		r.Unresolved(pkg[strings.LastIndex(pkg, "/")+1:] + "." + name)
		return nil
	}
	return fn
}

// filtered runs a rule on a scratch Run and keeps only the obligations whose key contains one of
// the given substrings: a property can claim the slice of a large rule (reader/writer agreement of
// the section structs, clone coverage of the note registries) without inheriting the rest.
func filtered(rule func(*Run), substrs ...string) func(*Run) {
	return func(r *Run) {
		probe := newRun(r.P, r.Prop, r.Tier)
		rule(probe)
		n := 0
		for _, k := range probe.order {
			o := probe.obs[k]
			for _, sub := range substrs {
				if strings.Contains(o.Key, sub) {
					r.add(o.Rule, strings.TrimPrefix(o.Key, o.Rule+":"), token.NoPos, o.Status, o.Detail, o.NonTrivial)
					r.obs[o.Key].Pos = o.Pos
					n++
					break
				}
			}
		}
		r.Failures = append(r.Failures, probe.Failures...)
		r.Min("filtered obligations ("+strings.Join(substrs, ",")+")", n, 1)
	}
}

type PropSpec struct {
	Title       string
	Explanation string
	Rules       []Rule
	Assumptions []string
	NotDecided  string
}

type Rule struct {
	Name string
	Doc  string
	Fn   func(r *Run)
}

type KnownFinding struct {
	Property string `json:"property"`
	Key      string `json:"key"`
	Status   string `json:"status"` // known | fixed
	Commit   string `json:"commit,omitempty"`
	Fails    string `json:"fails"`
}

type knownFile struct {
	Comment  string         `json:"_comment,omitempty"`
	Findings []KnownFinding `json:"findings"`
}

func verifDir() string {
	if d := os.Getenv("WZ_VERIF"); d != "" {
		return d
	}
	if exe, err := os.Executable(); err == nil {
		d := filepath.Dir(filepath.Dir(exe))
		if _, err := os.Stat(filepath.Join(d, "properties.jsonl")); err == nil {
			return d
		}
	}
	wd, _ := os.Getwd()
	for d := wd; d != "/"; d = filepath.Dir(d) {
		if _, err := os.Stat(filepath.Join(d, "properties.jsonl")); err == nil {
			return d
		}
	}
	return "/verif"
}

var keySan = regexp.MustCompile(`[^A-Za-z0-9_.+-]+`)

func main() {
	prop := flag.String("prop", "", "property id (C01..C20)")
	tier := flag.String("tier", "", "quick|thorough")
	repo := flag.String("repo", "", "repository root (default /repo or $WZ_REPO)")
	replay := flag.String("replay", "", "replay file: re-evaluate that obligation on the current tree")
	mutant := flag.String("mutant", "", "self-test: apply the named overlay mutant (internal)")
	listMut := flag.Bool("list-mutants", false, "list overlay mutants for -prop")
	noEvidence := flag.Bool("no-evidence", false, "do not write evidence/replay files")
	verbose := flag.Bool("v", false, "print every obligation")
	wm := flag.Bool("write-manifest", false, "regenerate MANIFEST.json from the registered properties")
	wa := flag.Bool("write-anchors", false, "regenerate anchors.json (function signatures and fingerprints of the current tree, used to recognise renamed functions)")
	flag.Parse()
	if *wm {
		writeManifest(verifDir())
		return
	}
	if *wa {
		rp := os.Getenv("WZ_REPO")
		if rp == "" {
			rp = "/repo"
		}
		P, err := loadProgram(loadOpts{repo: rp})
		if err != nil {
			fatal(2, "load failed: %v", err)
		}
		writeAnchors(P)
		return
	}

	if *tier == "" {
		*tier = os.Getenv("VERIF_TIER")
	}
	if *tier == "" {
		*tier = "quick"
	}
	if *repo == "" {
		*repo = os.Getenv("WZ_REPO")
	}
	if *repo == "" {
		*repo = "/repo"
	}
	vd := verifDir()
	var onlyKey string
	if *replay != "" {
		b, err := os.ReadFile(*replay)
		if err != nil {
			fatal(2, "cannot read replay file: %v", err)
		}
		var rp struct {
			Property string `json:"property"`
			Key      string `json:"key"`
		}
		if err := json.Unmarshal(b, &rp); err != nil {
			fatal(2, "bad replay file: %v", err)
		}
		*prop, onlyKey = rp.Property, rp.Key
		*noEvidence = true
	}
	if *prop == "all" {
		// evaluation helper (never registered in MANIFEST.json): load once, evaluate every property
		// without writing evidence; exit code is the worst of all properties
		os.Exit(runAll(loadOpts{repo: *repo}, *prop, *mutant, vd, *tier, *verbose))
	}
	spec, ok := props[*prop]
	if !ok {
		fatal(2, "unknown property %q", *prop)
	}
	if *listMut {
		for _, m := range mutantsFor(*prop) {
			fmt.Printf("%s\t%s\t%s\n", m.Name, m.Kind, m.Expect)
		}
		return
	}
	seed, _ := strconv.Atoi(os.Getenv("VERIF_SEED"))
	start := time.Now()

	exit := func() (code int) {
		defer func() {
			if e := recover(); e != nil {
				fmt.Printf("UNDECIDED property=%s checker panic: %v\n%s\n", *prop, e, debug.Stack())
				code = 2
			}
		}()
		lo := loadOpts{repo: *repo}
		if *mutant != "" {
			ov, err := mutantOverlay(*repo, *prop, *mutant)
			if err != nil {
				fmt.Printf("MUTANT-SKIPPED %s: %v\n", *mutant, err)
				return 3
			}
			lo.overlay = ov
			*noEvidence = true
		}
		P, err := loadProgram(lo)
		if err != nil {
			fmt.Printf("UNDECIDED property=%s load failed: %v\n", *prop, err)
			return 2
		}
		r := newRun(P, *prop, *tier)
		for _, rule := range spec.Rules {
			rule.Fn(r)
		}
		// thorough: re-load under alternative build configurations and compare instance counts
		var variants []map[string]interface{}
		var selftest map[string]interface{}
		if *tier == "thorough" && *mutant == "" && onlyKey == "" {
			for _, alt := range []loadOpts{{repo: *repo, goarch: "386"}, {repo: *repo, tags: "verif"}} {
				P2, err := loadProgram(alt)
				if err != nil {
					r.Failures = append(r.Failures, fmt.Sprintf("alternative load (GOARCH=%q tags=%q) failed: %v", alt.goarch, alt.tags, err))
					continue
				}
				r2 := newRun(P2, *prop, *tier)
				for _, rule := range spec.Rules {
					rule.Fn(r2)
				}
				same := len(r2.obs) == len(r.obs)
				for k, o := range r.obs {
					if o2, ok := r2.obs[k]; !ok || o2.Status != o.Status {
						same = false
					}
				}
				if !same {
					r.Failures = append(r.Failures, fmt.Sprintf("obligations differ under GOARCH=%q tags=%q", alt.goarch, alt.tags))
				}
				variants = append(variants, map[string]interface{}{"goarch": alt.goarch, "tags": alt.tags, "obligations": len(r2.obs), "identical": same})
			}
			selftest = runSelfTest(*prop, *repo, r)
		}
		return finish(r, spec, vd, *tier, seed, start, onlyKey, *noEvidence, *verbose, variants, selftest)
	}()
	os.Exit(exit)
}

func runAll(lo loadOpts, _ string, _ string, vd, tier string, verbose bool) (worst int) {
	start := time.Now()
	P, err := loadProgram(lo)
	if err != nil {
		fmt.Printf("UNDECIDED property=all load failed: %v\n", err)
		return 2
	}
	var ids []string
	for id := range props {
		ids = append(ids, id)
	}
	sort.Strings(ids)
	for _, id := range ids {
		code := func() (code int) {
			defer func() {
				if e := recover(); e != nil {
					fmt.Printf("UNDECIDED property=%s checker panic: %v\n%s\n", id, e, debug.Stack())
					code = 2
				}
			}()
			r := newRun(P, id, tier)
			for _, rule := range props[id].Rules {
				rule.Fn(r)
			}
			return finish(r, props[id], vd, tier, 0, start, "", true, verbose, nil, nil)
		}()
		fmt.Printf("RESULT property=%s exit=%d\n", id, code)
		if code > worst {
			worst = code
		}
	}
	return worst
}

func fatal(code int, f string, a ...interface{}) {
	fmt.Printf(f+"\n", a...)
	os.Exit(code)
}

func loadKnown(vd string) []KnownFinding {
	b, err := os.ReadFile(filepath.Join(vd, "known_findings.json"))
	if err != nil {
		return nil
	}
	var kf knownFile
	if err := json.Unmarshal(b, &kf); err != nil {
		fatal(2, "known_findings.json invalid: %v", err)
	}
	return kf.Findings
}

func finish(r *Run, spec PropSpec, vd, tier string, seed int, start time.Time, onlyKey string, noEvidence, verbose bool, variants []map[string]interface{}, selftest map[string]interface{}) int {
	known := map[string]KnownFinding{}
	for _, k := range loadKnown(vd) {
		if k.Property == r.Prop && k.Status == "known" {
			known[k.Key] = k
		}
	}
	sort.Strings(r.order)
	var nViol, nKnown, nDis, nUndec, nNonTriv int
	var samples []interface{}
	var viols []*Oblig
	byRule := map[string]int{}
	for _, k := range r.order {
		o := r.obs[k]
		if onlyKey != "" && o.Key != onlyKey {
			continue
		}
		if o.Status == "violation" {
			if kf, ok := known[o.Key]; ok {
				o.Status = "known-finding"
				fmt.Printf("KNOWN-FINDING: property=%s %s %s (at %s)\n", r.Prop, o.Key, kf.Fails, o.Pos)
			}
		}
		byRule[o.Rule]++
		if o.NonTrivial {
			nNonTriv++
		}
		switch o.Status {
		case "violation":
			nViol++
			viols = append(viols, o)
		case "known-finding":
			nKnown++
		case "undecided":
			nUndec++
			r.Failures = append(r.Failures, "UNDECIDED obligation "+o.Key+" at "+o.Pos+": "+o.Detail)
		default:
			nDis++
		}
		if verbose {
			fmt.Printf("  [%s] %s @%s %s\n", o.Status, o.Key, o.Pos, o.Detail)
		}
	}
	if verbose {
		for _, n := range r.Notes {
			fmt.Printf("  note: %s\n", n)
		}
	}
	// samples: first few of each status
	perStatus := map[string]int{}
	perRule := map[string]int{}
	for _, k := range r.order {
		o := r.obs[k]
		if perStatus[o.Status] >= 6 && perRule[o.Rule] >= 2 {
			continue
		}
		if len(samples) >= 40 {
			break
		}
		perStatus[o.Status]++
		perRule[o.Rule]++
		samples = append(samples, o)
	}
	for _, o := range viols {
		name := r.Prop + "-" + keySan.ReplaceAllString(o.Key, "_") + ".json"
		path := filepath.Join(vd, "evidence", "replay", name)
		if !noEvidence {
			os.MkdirAll(filepath.Dir(path), 0o755)
			b, _ := json.MarshalIndent(map[string]interface{}{
				"property": r.Prop, "key": o.Key, "rule": o.Rule, "site": o.Pos, "detail": o.Detail,
				"replay_cmd": "bin/wzcheck -replay " + path,
			}, "", " ")
			os.WriteFile(path, b, 0o644)
		}
		fmt.Printf("VIOLATION property=%s replay=%s\n", r.Prop, path)
		fmt.Printf("  rule=%s obligation=%s site=%s\n  %s\n", o.Rule, o.Key, o.Pos, o.Detail)
	}
	for _, f := range r.Failures {
		fmt.Printf("CHECKER-FAILURE property=%s %s\n", r.Prop, f)
	}
	total := nViol + nKnown + nDis + nUndec
	wall := time.Since(start).Seconds()
	if !noEvidence {
		rules := []string{}
		for _, rl := range spec.Rules {
			rules = append(rules, rl.Name+": "+rl.Doc)
		}
		an := map[string]interface{}{}
		for k, v := range r.Analysed {
			an[k] = v
		}
		an["module_functions"] = len(r.P.Funcs)
		an["ssa_instructions"] = r.P.NInstr
		an["packages"] = len(r.P.Pkgs)
		cov := map[string]interface{}{
			"explanation":         spec.Explanation,
			"not_decided":         spec.NotDecided,
			"rules":               rules,
			"obligations":         total,
			"discharged":          nDis,
			"known_findings":      nKnown,
			"undecided":           nUndec,
			"evaluations":         total,
			"distinct_nontrivial": nNonTriv,
			"rule":                "one obligation per rule+construct (never per line); non-trivial = needed a region, path, dependence or provenance computation (constant-table lookups are trivial)",
			"obligations_by_rule": byRule,
			"samples":             samples,
			"analysed":            an,
			"checker_cmd":         "bin/wzcheck -prop " + r.Prop + " -tier " + tier,
			"trusted_base":        []string{"go/types + go/ssa (x/tools v0.29.0)", "frozen tables in the checker (DESIGN.md §7)"},
			"checker_failures":    r.Failures,
			"exhaustive":          true,
		}
		if variants != nil {
			cov["build_variants"] = variants
		}
		if selftest != nil {
			cov["selftest"] = selftest
		}
		ev := map[string]interface{}{
			"property_id": r.Prop, "tier": tier, "seed": seed, "level": "other",
			"coverage": cov, "assumptions": spec.Assumptions, "wall_s": wall, "violations": nViol,
		}
		b, _ := json.MarshalIndent(ev, "", " ")
		os.MkdirAll(filepath.Join(vd, "evidence"), 0o755)
		if err := os.WriteFile(filepath.Join(vd, "evidence", r.Prop+".json"), b, 0o644); err != nil {
			fmt.Printf("CHECKER-FAILURE cannot write evidence: %v\n", err)
			return 2
		}
	}
	fmt.Printf("property=%s tier=%s obligations=%d discharged=%d known=%d violations=%d undecided=%d failures=%d wall=%.1fs\n",
		r.Prop, tier, total, nDis, nKnown, nViol, nUndec, len(r.Failures), wall)
	if nViol > 0 {
		return 1
	}
	if len(r.Failures) > 0 {
		return 2
	}
	return 0
}

func joinSorted(m map[string]bool) string {
	var s []string
	for k := range m {
		s = append(s, k)
	}
	sort.Strings(s)
	return strings.Join(s, ",")
}
