package main

func init() {
	mutantCatalogue = append(mutantCatalogue, []Mutant{
		// ---------------------------------------------------------------- C14 style inheritance
		{Name: "merge-run-drops-highlight", Kind: "breaking", Prop: "C14", File: fSty,
			Old: `	if override.Highlight != nil {
		merged.Highlight = override.Highlight
	} else if base.Highlight != nil {
		merged.Highlight = base.Highlight
	}

	return merged`,
			New:    `	return merged`,
			Expect: "merge-cover:style.mergeRunProperties:Highlight",
			Why:    "an attribute missing from the hand-written merge list is silently not inherited"},
		{Name: "merge-run-parent-colour-wins", Kind: "breaking", Prop: "C14", File: fSty,
			Old: `	if override.Color != nil {
		merged.Color = override.Color
	} else if base.Color != nil {
		merged.Color = base.Color
	}`,
			New: `	if base.Color != nil {
		merged.Color = base.Color
	} else if override.Color != nil {
		merged.Color = override.Color
	}`,
			Expect: "merge-prec:style.mergeRunProperties:Color",
			Why:    "precedence inverted for one attribute: the ancestor's colour wins over the style's own"},
		{Name: "merge-run-child-italic-only-from-parent", Kind: "breaking", Prop: "C14", File: fSty,
			Old: `	if override.Italic != nil {
		merged.Italic = override.Italic
	} else if base.Italic != nil {
		merged.Italic = base.Italic
	}`,
			New: `	if base.Italic != nil {
		merged.Italic = base.Italic
	}`,
			Expect: "merge-cover:style.mergeRunProperties:Italic",
			Why:    "the style's own setting is dropped"},
		{Name: "merge-para-args-swapped-at-call", Kind: "breaking", Prop: "C14", File: fSty,
			Old:    `	mergedStyle.ParagraphPr = mergeParagraphProperties(baseStyle.ParagraphPr, style.ParagraphPr)`,
			New:    `	mergedStyle.ParagraphPr = mergeParagraphProperties(style.ParagraphPr, baseStyle.ParagraphPr)`,
			Expect: "merge-prec:style.mergeParagraphProperties:*",
			Why:    "child and ancestor swapped at the call site: the ancestor wins for every paragraph attribute"},
		{Name: "merge-parent-not-resolved", Kind: "breaking", Prop: "C14", File: fSty,
			Old:    `	baseStyle := sm.resolveStyleWithInheritance(style.BasedOn.Val, visited)`,
			New:    `	baseStyle := sm.GetStyle(style.BasedOn.Val)`,
			Expect: "resolve-recursive:*",
			Why:    "only the direct parent is consulted: settings of grandparents are lost"},
		{Name: "merge-run-nil-override-loses-parent", Kind: "breaking", Prop: "C14", File: fSty,
			Old: `func mergeRunProperties(base, override *RunProperties) *RunProperties {
	if base == nil {
		return override
	}
	if override == nil {
		return base
	}`,
			New: `func mergeRunProperties(base, override *RunProperties) *RunProperties {
	if base == nil || override == nil {
		return override
	}`,
			Expect: "merge-nilarg:style.mergeRunProperties",
			Why:    "a style without run properties of its own no longer inherits its ancestors' run properties"},
		{Name: "merge-run-first-non-nil-helper", Kind: "benign", Prop: "C14", File: fSty,
			Old: `	if override.Strike != nil {
		merged.Strike = override.Strike
	} else if base.Strike != nil {
		merged.Strike = base.Strike
	}`,
			New: `	merged.Strike = base.Strike
	if override.Strike != nil {
		merged.Strike = override.Strike
	}`,
			Why: "same table written as default-then-override"},
		// ---------------------------------------------------------------- C03 reader ⊇ writer
		{Name: "reader-spacing-after-from-before", Kind: "breaking", Prop: "C03", File: fDoc,
			Old:    `				spacing.After = getAttributeValue(t.Attr, "after")`,
			New:    `				spacing.After = getAttributeValue(t.Attr, "before")`,
			Expect: "schema-attr:Spacing.After",
			Why:    "attribute mis-mapping: w:after filled from w:before"},
		{Name: "reader-drops-jc", Kind: "breaking", Prop: "C03", File: fDoc,
			Old: `			case "jc":
				// 对齐
				val := getAttributeValue(t.Attr, "val")
				if val != "" {
					paragraph.Properties.Justification = &Justification{Val: val}
				}
				if err := d.skipElement(decoder, t.Name.Local); err != nil {
					return err
				}
			case "ind":`,
			New:    `			case "ind":`,
			Expect: "schema-read:ParagraphProperties.Justification",
			Why:    "a reader case removed: alignment silently lost on open"},
		{Name: "reader-ind-right-dropped", Kind: "breaking", Prop: "C03", File: fDoc,
			Old: `				indentation.Left = getAttributeValue(t.Attr, "left")
				indentation.Right = getAttributeValue(t.Attr, "right")
				paragraph.Properties.Indentation = indentation`,
			New: `				indentation.Left = getAttributeValue(t.Attr, "left")
				paragraph.Properties.Indentation = indentation`,
			Expect: "schema-attr:Indentation.Right",
			Why:    "one attribute no longer read"},
		{Name: "reader-jc-stored-into-wrong-field", Kind: "breaking", Prop: "C03", File: fDoc,
			Old: `				val := getAttributeValue(t.Attr, "val")
				if val != "" {
					paragraph.Properties.Justification = &Justification{Val: val}
				}`,
			New: `				val := getAttributeValue(t.Attr, "val")
				if val != "" {
					paragraph.Properties.ParagraphStyle = &ParagraphStyle{Val: val}
				}`,
			Expect: "schema-read:ParagraphProperties.Justification",
			Why:    "the case exists but stores into another field"},
		{Name: "body-marshal-skips-tables", Kind: "breaking", Prop: "C03", File: fDoc,
			Old: `		if sp, ok := element.(*SectionProperties); ok {
			sectPr = sp // 保存最后一个SectionProperties
		} else {
			otherElements = append(otherElements, element)
		}`,
			New: `		if sp, ok := element.(*SectionProperties); ok {
			sectPr = sp // 保存最后一个SectionProperties
		} else if _, isPara := element.(*Paragraph); isPara {
			otherElements = append(otherElements, element)
		}`,
			Expect: "sectpr-last:*",
			Why:    "custom marshaller filters element kinds"},
		{Name: "reader-jc-via-local", Kind: "benign", Prop: "C03", File: fDoc,
			Old: `				val := getAttributeValue(t.Attr, "val")
				if val != "" {
					paragraph.Properties.Justification = &Justification{Val: val}
				}`,
			New: `				if jcVal := getAttributeValue(t.Attr, "val"); jcVal != "" {
					jc := &Justification{}
					jc.Val = jcVal
					paragraph.Properties.Justification = jc
				}`,
			Why: "same case written with a local variable and a separate field store"},

		// ---------------------------------------------------------------- C04 pass-through
		{Name: "open-skips-customxml-entries", Kind: "breaking", Prop: "C04", File: fDoc,
			Old: `	for _, file := range zipReader.File {
		rc, err := file.Open()`,
			New: `	for _, file := range zipReader.File {
		if strings.HasPrefix(file.Name, "customXml/") {
			continue
		}
		rc, err := file.Open()`,
			Expect: "part-pass:*",
			Why:    "an archive entry is dropped on open"},
		{Name: "save-deletes-settings-part", Kind: "breaking", Prop: "C04", File: fDoc,
			Old: `	// 序列化内容类型
	d.serializeContentTypes()

	// 序列化关系
	d.serializeRelationships()

	// 序列化文档关系
	d.serializeDocumentRelationships()

	// 写入所有部件
	for name, data := range d.parts {
		writer, err := zipWriter.Create(name)
		if err != nil {
			Errorf("无法创建ZIP条目: %s", name)`,
			New: `	// 序列化内容类型
	d.serializeContentTypes()

	// 序列化关系
	d.serializeRelationships()

	// 序列化文档关系
	d.serializeDocumentRelationships()
	delete(d.parts, "docProps/thumbnail.jpeg")

	// 写入所有部件
	for name, data := range d.parts {
		writer, err := zipWriter.Create(name)
		if err != nil {
			Errorf("无法创建ZIP条目: %s", name)`,
			Expect: "part-pass:*",
			Why:    "a part of the opened package is deleted before writing"},
		{Name: "relationship-loses-targetmode", Kind: "breaking", Prop: "C04", File: fDoc,
			Old:    "	TargetMode string",
			New:    "	targetMode string",
			Expect: "schema-opc:Relationship.TargetMode",
			Why:    "historical defect: external relationships come back internal"},
		{Name: "paragraph-reader-skips-hyperlink", Kind: "breaking", Prop: "C04", File: fDoc,
			Old:    `			case "hyperlink", "smartTag", "ins", "moveTo", "sdt", "sdtContent", "fldSimple", "customXml", "dir", "bdo":`,
			New:    `			case "smartTag", "ins", "moveTo", "sdt", "sdtContent", "fldSimple", "customXml", "dir", "bdo":`,
			Expect: "run-container:hyperlink",
			Why:    "historical defect: hyperlink text dropped"},
		{Name: "image-counter-not-restored", Kind: "breaking", Prop: "C04,C10", File: fDoc,
			Old: `	// 根据已有的图片关系更新nextImageID计数器
	doc.updateNextImageID()

	return doc, nil`,
			New:    `	return doc, nil`,
			Expect: "fresh-dep:media*",
			Why:    "new images overwrite word/media/image0.* of the opened package"},
		{Name: "paragraph-reader-containers-as-if", Kind: "benign", Prop: "C04", File: fDoc,
			Old: `			case "hyperlink", "smartTag", "ins", "moveTo", "sdt", "sdtContent", "fldSimple", "customXml", "dir", "bdo":
				// 这些元素只是运行的容器：不跳过，继续读取其中的运行，
				// 使其文本作为段落的普通运行保留下来（容器自身的属性子元素仍被跳过）
			default:`,
			New: `			case "hyperlink", "smartTag", "ins", "moveTo":
			case "sdt", "sdtContent", "fldSimple", "customXml", "dir", "bdo":
				continue
			default:`,
			Why: "the same descent written as two cases, one with an explicit continue"},

		// ---------------------------------------------------------------- C06 totality of Open
		{Name: "reader-token-error-continue", Kind: "breaking", Prop: "C06", File: fDoc,
			Old: `		if err != nil {
			return WrapError("parse_paragraph_properties", err)
		}`,
			New: `		if err != nil {
			Debugf("parse_paragraph_properties: %v", err)
			continue
		}`,
			Expect: "loop-token:*",
			Why:    "a decoder error no longer leaves the loop: Open hangs on a truncated part"},
		{Name: "open-accepts-missing-root", Kind: "breaking", Prop: "C06", File: fDoc,
			Old: `	if d.Body == nil {
		// 主文档部件为空，或根元素不是过渡命名空间下的 w:document
		return WrapError("parse_document", ErrInvalidDocument)
	}
`,
			New:    "",
			Expect: "init-body:*",
			Why:    "historical defect: nil Body dereferenced after a main part without w:document"},
		{Name: "insert-column-grid-unguarded", Kind: "breaking", Prop: "C06,C09", File: fTbl,
			Old: `	if t.Grid == nil {
		t.Grid = &TableGrid{}
	}
	newGridCol := TableGridCol{`,
			New:    `	newGridCol := TableGridCol{`,
			Expect: "nil-guard:(*document.Table).InsertColumn:Table.Grid",
			Why:    "historical defect: tables read without w:tblGrid have a nil Grid"},
		{Name: "insert-column-grid-guard-new", Kind: "benign", Prop: "C06,C09", File: fTbl,
			Old: `	if t.Grid == nil {
		t.Grid = &TableGrid{}
	}
	newGridCol := TableGridCol{`,
			New: `	if nil == t.Grid {
		t.Grid = new(TableGrid)
	}
	newGridCol := TableGridCol{`,
			Why: "guard written with new() and operands swapped"},
		{Name: "skip-element-recursive", Kind: "breaking", Prop: "C06", File: fDoc,
			Old: `		switch token.(type) {
		case xml.StartElement:
			depth++
		case xml.EndElement:
			depth--
		}`,
			New: `		switch tt := token.(type) {
		case xml.StartElement:
			if err := d.skipElement(decoder, tt.Name.Local); err != nil {
				return err
			}
		case xml.EndElement:
			depth--
		}`,
			Expect: "reader-recursion:*",
			Why:    "recursion depth now follows input nesting without a bound — must at least be token guarded; here it is, so this variant documents the discharge note"},

		// ---------------------------------------------------------------- C08 body as ordered list
		{Name: "remove-at-off-by-one-splice", Kind: "breaking", Prop: "C08", File: fDoc,
			Old: `	// 删除元素
	d.Body.Elements = append(d.Body.Elements[:index], d.Body.Elements[index+1:]...)`,
			New: `	// 删除元素
	d.Body.Elements = append(d.Body.Elements[:index], d.Body.Elements[index+2:]...)`,
			Expect: "body-write:*",
			Why:    "removal takes a neighbour with it"},
		{Name: "sectpr-encoded-in-place", Kind: "breaking", Prop: "C08", File: fDoc,
			Old: `		if sp, ok := element.(*SectionProperties); ok {
			sectPr = sp // 保存最后一个SectionProperties
		} else {
			otherElements = append(otherElements, element)
		}`,
			New: `		if sp, ok := element.(*SectionProperties); ok {
			sectPr = sp // 保存最后一个SectionProperties
			otherElements = append(otherElements, element)
		} else {
			otherElements = append(otherElements, element)
		}`,
			Expect: "sectpr-last:*",
			Why:    "section properties emitted twice: in place and at the end"},
		{Name: "remove-paragraph-writes-before-fail", Kind: "breaking", Prop: "C08", File: fDoc,
			Old: `	// 优化：单次遍历找到目标段落及其元素索引
	paragraphCount := 0`,
			New: `	// 优化：单次遍历找到目标段落及其元素索引
	if len(d.Body.Elements) > 0 {
		d.Body.Elements = d.Body.Elements[:len(d.Body.Elements):len(d.Body.Elements)]
	}
	paragraphCount := 0`,
			Expect: "*",
			Why:    "a write to the element list on a path that can still return false"},
		{Name: "add-paragraph-prepends", Kind: "breaking", Prop: "C08", File: fDoc,
			Old: `	d.Body.Elements = append(d.Body.Elements, p)
	return p
}

// AddFormattedParagraph 向文档添加一个格式化段落。`,
			New: `	d.Body.Elements = append([]interface{}{p}, d.Body.Elements...)
	return p
}

// AddFormattedParagraph 向文档添加一个格式化段落。`,
			Expect: "body-write:*",
			Why:    "an append-only constructor starts inserting at the front"},
	}...)
}
