package main

import (
	"fmt"
	"go/token"
	"go/types"
	"sort"
	"strings"

	"golang.org/x/tools/go/ssa"
)

// ---------------------------------------------------------------------------
// R-GLOBAL-STATE (C07, C15)
// ---------------------------------------------------------------------------

// processConfig: package-level variables that are process configuration by design; the set of
// functions allowed to write them is frozen (one line of reason each).
var processConfig = map[string]map[string]string{
	"defaultLogger": {
		"reason": "process-wide logging configuration (level/output); not document content",
	},
}

func ruleGlobalState(r *Run, only map[string]bool) {
	p := r.P
	ms := newMutSummary(p, true)
	api := p.exportedAPI(pkgDoc, pkgSty, pkgMd)
	reach := p.cgReach(api...)
	nGlobals := 0
	for _, pp := range []string{pkgDoc, pkgSty, pkgMd} {
		sp := p.SSAPkg[pp]
		var names []string
		for n, m := range sp.Members {
			if _, ok := m.(*ssa.Global); ok && !strings.HasPrefix(n, "init$") {
				names = append(names, n)
			}
		}
		sort.Strings(names)
		for _, n := range names {
			g := sp.Members[n].(*ssa.Global)
			if only != nil && !only[n] {
				continue
			}
			nGlobals++
			// writers: functions (outside init) that store to g or through memory derived from g
			type wr struct {
				fn   *ssa.Function
				site writeSite
			}
			var writers []wr
			for _, fn := range sortedFuncs(reach) {
				if fn.Name() == "init" || strings.HasPrefix(fn.Name(), "init#") {
					continue
				}
				// direct stores to the global variable itself
				allInstrs(fn, func(in ssa.Instruction) {
					if st, ok := in.(*ssa.Store); ok && st.Addr == ssa.Value(g) {
						writers = append(writers, wr{fn, writeSite{Instr: st, Fn: fn}})
					}
				})
				// own (non-inherited) writes through g-derived pointers
				for _, s := range ms.Globals(fn)[g] {
					if !s.Inherited {
						writers = append(writers, wr{fn, s})
					}
				}
			}
			key := strings.TrimPrefix(pp, modPath+"/pkg/") + "." + n
			// lazily initialised table: every writer is a function literal handed to (*sync.Once).Do.
			// That is an initialisation, not per-document state — provided nothing reachable from the
			// table escapes into the objects the API hands out (a shallow copy shares the nested
			// objects between all documents).
			if len(writers) > 0 {
				lazy := true
				for _, w := range writers {
					if !passedToOnceDo(p, w.fn) {
						lazy = false
					}
				}
				if lazy {
					esc := globalContentEscapes(p, g, reach)
					r.Check("global-state", key, g.Pos(), esc == "",
						fmt.Sprintf("package-level variable %s is built once under sync.Once and then shared by every document: %s", n, map[bool]string{true: "nothing reachable from it escapes into per-document objects", false: esc}[esc == ""]))
					continue
				}
			}
			if len(writers) == 0 {
				// never written by the library — but if it is (or holds) a pointer to mutable module
				// data that is handed into per-document objects or to callers, every document shares
				// that one object and whoever customises it through one document changes them all
				// (a style literal hoisted into a package-level *FontFamily "to avoid duplication")
				esc := ""
				if mutableShare(p, g.Type().(*types.Pointer).Elem()) {
					esc = globalContentEscapes(p, g, reach)
				}
				r.Check("global-state", key, g.Pos(), esc == "",
					"immutable after package initialisation: no store to it or through it is reachable from the exported API"+map[bool]string{true: "", false: "; but " + esc + " — the object is shared by all documents and can be changed through any of them"}[esc == ""])
				continue
			}
			if cfg, ok := processConfig[n]; ok {
				// writers must stay inside the logger's own API
				bad := []string{}
				for _, w := range writers {
					recv := ""
					if w.fn.Signature.Recv() != nil {
						recv = typeName(w.fn.Signature.Recv().Type())
					}
					if !(recv == "document.Logger" || strings.HasPrefix(w.fn.Name(), "SetGlobal") || strings.HasPrefix(w.fn.Name(), "SetLog")) {
						bad = append(bad, shortName(w.fn))
					}
				}
				r.Check("global-state", key, g.Pos(), len(bad) == 0,
					fmt.Sprintf("%s; writers outside the logging API: %v", cfg["reason"], bad))
				continue
			}
			var ws []string
			seen := map[string]bool{}
			for _, w := range writers {
				s := fmt.Sprintf("%s (%s)", shortName(w.fn), p.pos(w.site.Instr.Pos()))
				if !seen[shortName(w.fn)] {
					seen[shortName(w.fn)] = true
					ws = append(ws, s)
				}
			}
			if len(ws) > 6 {
				ws = append(ws[:6], fmt.Sprintf("… %d more", len(ws)-6))
			}
			r.Check("global-state", key, g.Pos(), false,
				fmt.Sprintf("package-level variable %s is shared by all documents and is written (unsynchronised) from the per-document API: %s — state leaks between documents and concurrent use of distinct documents races", n, strings.Join(ws, "; ")))
		}
	}
	if only == nil {
		r.Min("package_level_variables", nGlobals, 9)
	}
}

// ---------------------------------------------------------------------------
// R-LOCK (C17)
// ---------------------------------------------------------------------------

func ruleLock(r *Run) {
	p := r.P
	teT := p.Named(pkgDoc, "TemplateEngine")
	if teT == nil {
		r.Unresolved("document.TemplateEngine")
		return
	}
	st := teT.Underlying().(*types.Struct)
	var mutexField *types.Var
	guarded := map[*types.Var]bool{}
	for i := 0; i < st.NumFields(); i++ {
		f := st.Field(i)
		if typeIs(f.Type(), "sync", "RWMutex") || typeIs(f.Type(), "sync", "Mutex") {
			mutexField = f
		} else {
			guarded[f] = true
		}
	}
	if mutexField == nil {
		r.Check("lock", "TemplateEngine.mutex", teT.Obj().Pos(), false, "TemplateEngine has no mutex field guarding its cache")
		return
	}
	type access struct {
		fn    *ssa.Function
		in    ssa.Instruction
		field *types.Var
		write bool
	}
	var accesses []access
	lockCalls := map[*ssa.Function][]ssa.Instruction{}  // Lock
	rlockCalls := map[*ssa.Function][]ssa.Instruction{} // RLock or Lock
	for _, fn := range p.ModFuncs() {
		if fn.Pkg == nil || fn.Pkg.Pkg.Path() != pkgDoc {
			continue
		}
		allInstrs(fn, func(in ssa.Instruction) {
			switch x := in.(type) {
			case *ssa.Call:
				cn := calleeName(x)
				if strings.HasPrefix(cn, "(*sync.RWMutex).") || strings.HasPrefix(cn, "(*sync.Mutex).") {
					if len(x.Call.Args) > 0 {
						if fv, _ := fieldOfAddr(x.Call.Args[0]); fv == mutexField {
							switch {
							case strings.HasSuffix(cn, ").Lock"):
								lockCalls[fn] = append(lockCalls[fn], x)
								rlockCalls[fn] = append(rlockCalls[fn], x)
							case strings.HasSuffix(cn, ").RLock"):
								rlockCalls[fn] = append(rlockCalls[fn], x)
							}
						}
					}
				}
			case *ssa.FieldAddr:
				fv, base := fieldOfAddr(x)
				if !guarded[fv] {
					return
				}
				// fresh engine under construction is exempt
				if _, isAlloc := stripLoads(base).(*ssa.Alloc); isAlloc {
					return
				}
				write := false
				if refs := x.Referrers(); refs != nil {
					for _, u := range *refs {
						switch y := u.(type) {
						case *ssa.Store:
							if y.Addr == ssa.Value(x) {
								write = true
							}
						case *ssa.UnOp:
							if r2 := y.Referrers(); r2 != nil {
								for _, u2 := range *r2 {
									switch z := u2.(type) {
									case *ssa.MapUpdate:
										if z.Map == ssa.Value(y) {
											write = true
										}
									case *ssa.Call:
										if b, ok := z.Call.Value.(*ssa.Builtin); ok && (b.Name() == "delete" || b.Name() == "clear") {
											write = true
										}
									}
								}
							}
						}
					}
				}
				accesses = append(accesses, access{fn, x, fv, write})
			}
		})
	}
	// heldOnEntry[f]: 0 none, 1 read lock, 2 write lock — when every call site of f holds it
	callers := map[*ssa.Function][]ssa.CallInstruction{}
	for _, fn := range p.ModFuncs() {
		allInstrs(fn, func(in ssa.Instruction) {
			if c, ok := in.(ssa.CallInstruction); ok {
				if cal := staticCallee(c); cal != nil && p.inModule(cal) {
					callers[cal] = append(callers[cal], c)
				}
			}
		})
	}
	var heldAt func(fn *ssa.Function, in ssa.Instruction, write bool, stack map[*ssa.Function]bool) (bool, string)
	heldAt = func(fn *ssa.Function, in ssa.Instruction, write bool, stack map[*ssa.Function]bool) (bool, string) {
		locks := rlockCalls[fn]
		if write {
			locks = lockCalls[fn]
		}
		if len(locks) > 0 && mustPassThrough(fn, in, locks) {
			return true, "lock taken in " + shortName(fn)
		}
		// inherited from all callers
		if stack[fn] {
			return true, ""
		}
		if fn.Object() != nil && fn.Object().Exported() {
			return false, shortName(fn) + " is exported and reaches the access without taking the lock"
		}
		cs := callers[fn]
		if len(cs) == 0 {
			return false, shortName(fn) + " has no callers holding the lock"
		}
		stack[fn] = true
		defer delete(stack, fn)
		for _, c := range cs {
			ok, why := heldAt(c.Parent(), c, write, stack)
			if !ok {
				return false, "called from " + shortName(c.Parent()) + " (" + p.pos(c.Pos()) + ") without the lock: " + why
			}
		}
		return true, "every caller holds the lock"
	}
	for _, a := range accesses {
		ok, why := heldAt(a.fn, a.in, a.write, map[*ssa.Function]bool{})
		kind := "read"
		if a.write {
			kind = "write"
		}
		r.Check("lock", fmt.Sprintf("%s:%s:%s", shortName(a.fn), a.field.Name(), kind), a.in.Pos(), ok,
			fmt.Sprintf("%s of TemplateEngine.%s in %s must happen under te.%s (%s lock): %s", kind, a.field.Name(), shortName(a.fn), mutexField.Name(), map[bool]string{true: "write", false: "read or write"}[a.write], why))
	}
	// vacuity guard by kinds of access, not by number of sites (merging LoadTemplate and
	// LoadTemplateFromDocument into one registering helper legitimately removes sites):
	// cache read, cache write, basePath write must all be seen
	kindsSeen := map[string]bool{}
	for _, a := range accesses {
		kindsSeen[fmt.Sprintf("%s:%v", a.field.Name(), a.write)] = true
	}
	r.Min("guarded_field_access_kinds", len(kindsSeen), 3)
	r.Count("guarded_field_accesses", len(accesses))
	// every Lock/RLock is paired with a deferred unlock (or an unlock on all paths)
	for fn, ls := range rlockCalls {
		for _, l := range ls {
			paired := false
			allInstrs(fn, func(in ssa.Instruction) {
				if d, ok := in.(*ssa.Defer); ok {
					cn := calleeName(d)
					if strings.HasSuffix(cn, ").Unlock") || strings.HasSuffix(cn, ").RUnlock") {
						paired = true
					}
				}
			})
			if !paired {
				// explicit unlock before every return
				var unlocks []ssa.Instruction
				allInstrs(fn, func(in ssa.Instruction) {
					if c, ok := in.(*ssa.Call); ok {
						cn := calleeName(c)
						if strings.HasSuffix(cn, ").Unlock") || strings.HasSuffix(cn, ").RUnlock") {
							unlocks = append(unlocks, c)
						}
					}
				})
				paired = len(unlocks) > 0
				for _, ret := range returnsOf(fn) {
					if !mustPassThrough(fn, ret, unlocks) {
						paired = false
					}
				}
			}
			r.Check("lock", shortName(fn)+":unlock", l.Pos(), paired, "every lock acquisition is released on all exits (deferred unlock or unlock before every return)")
		}
	}
}

// ---------------------------------------------------------------------------
// R-PUBLISH-IMMUT / R-RENDER-PURE (C17)
// ---------------------------------------------------------------------------

// returnsFresh: every pointer result of f is freshly allocated (no parameter, global or unknown roots).
func returnsFresh(p *Program, f *ssa.Function) bool {
	s := getRetSummaries(p).m[f]
	return s != nil && s.Fresh && !s.Other && len(s.Params) == 0 && len(s.Globals) == 0
}

// sharedWrites lists writes in fn (own instructions and via callees' parameter summaries)
// whose target is neither a local fresh object nor derived from fn's own parameters, and
// whose written memory belongs to one of the given struct types.
type sharedWrite struct {
	Fn    *ssa.Function
	Pos   token.Pos
	What  string
	Root  string
	Field string
}

func templateTypeNames() map[string]bool {
	return map[string]bool{"Template": true, "TemplateBlock": true}
}

func rulePublishImmut(r *Run) {
	p := r.P
	ms := newMutSummary(p, false)
	var eng []*ssa.Function
	for _, fn := range p.ModFuncs() {
		if fn.Signature.Recv() != nil && typeIs(fn.Signature.Recv().Type(), pkgDoc, "TemplateEngine") {
			eng = append(eng, fn)
		}
	}
	r.Min("template_engine_methods", len(eng), 60)
	isTpl := func(t types.Type) bool {
		return typeIs(t, pkgDoc, "Template") || typeIs(t, pkgDoc, "TemplateBlock")
	}
	// classify an argument / target: fresh-local, own-parameter, or shared
	classify := func(fn *ssa.Function, v ssa.Value) (string, string) {
		shared := ""
		// anything read out of the engine's cache is published, whoever holds the engine
		if throughCache(p, v) {
			return "shared", "taken from the engine's template cache"
		}
		for rt := range deepRoots(p, v) {
			switch x := rt.(type) {
			case *ssa.Alloc, *ssa.MakeMap, *ssa.MakeSlice, *ssa.Const:
			case *ssa.Parameter:
				if isTpl(x.Type()) || true {
					if shared == "" {
						shared = "param"
					}
				}
			case *ssa.Call:
				if cal := staticCallee(x); cal != nil && returnsFresh(p, cal) {
					continue
				}
				return "shared", "result of " + calleeName(x)
			default:
				return "shared", fmt.Sprintf("%T", rt)
			}
		}
		if shared == "param" {
			return "param", ""
		}
		return "fresh", ""
	}
	n := 0
	for _, fn := range eng {
		// direct writes into Template/TemplateBlock memory
		for _, w := range directWrites(fn) {
			if w.Field == nil {
				// map update / element store: look at the collection's owner
				chain, _ := addrChain(w.Target)
				if len(chain) == 0 {
					// `*t = *other`: the whole template object is overwritten in place
					if st, ok := w.In.(*ssa.Store); ok && isTpl(st.Addr.Type()) {
						n++
						kind, what := classify(fn, w.Target)
						tn := typeName(st.Addr.Type())
						r.Check("publish-immut", fmt.Sprintf("%s:*%s", shortName(fn), tn), w.In.Pos(), kind != "shared",
							fmt.Sprintf("%s overwrites a whole %s it did not create (%s): every holder of that pointer (children's Parent, callers of GetTemplate, renders in progress) sees the change — published templates must be immutable", shortName(fn), tn, what))
					}
					continue
				}
				w.Field = chain[len(chain)-1]
			}
			owner := fieldOwner(p, w.Field)
			if owner == nil || !templateTypeNames()[owner.Obj().Name()] {
				continue
			}
			n++
			kind, what := classify(fn, w.Target)
			if kind == "shared" {
				r.Check("publish-immut", fmt.Sprintf("%s:%s.%s", shortName(fn), owner.Obj().Name(), w.Field.Name()), w.In.Pos(), false,
					fmt.Sprintf("%s writes %s.%s of a template it did not create (%s): published templates must be immutable", shortName(fn), owner.Obj().Name(), w.Field.Name(), what))
			} else {
				r.Check("publish-immut", fmt.Sprintf("%s:%s.%s", shortName(fn), owner.Obj().Name(), w.Field.Name()), w.In.Pos(), true, "target is "+kind)
			}
		}
		// calls passing a shared template to a callee that writes through that parameter
		allInstrs(fn, func(in ssa.Instruction) {
			c, ok := in.(ssa.CallInstruction)
			if !ok {
				return
			}
			cal := staticCallee(c)
			if cal == nil || !p.inModule(cal) {
				return
			}
			for pi, sites := range ms.Params(cal) {
				if pi >= len(c.Common().Args) || len(sites) == 0 {
					continue
				}
				// only writes that land in Template/TemplateBlock memory
				var tplSite *writeSite
				for i := range sites {
					f := sites[i].Field
					if f == nil {
						continue
					}
					if o := fieldOwner(p, f); o != nil && templateTypeNames()[o.Obj().Name()] {
						tplSite = &sites[i]
						break
					}
				}
				if tplSite == nil {
					continue
				}
				arg := c.Common().Args[pi]
				n++
				kind, what := classify(fn, arg)
				key := fmt.Sprintf("%s→%s#%d", shortName(fn), shortName(cal), pi)
				r.Check("publish-immut", key, c.Pos(), kind != "shared",
					fmt.Sprintf("%s passes a template it did not create (%s) to %s, which writes %s.%s at %s: loading one template changes what another (its base, its siblings) renders",
						shortName(fn), what, shortName(cal), fieldOwner(p, tplSite.Field).Obj().Name(), tplSite.Field.Name(), p.pos(tplSite.Instr.Pos())))
			}
		})
	}
	r.Min("template_write_sites", n, 5)
}

func ruleRenderPure(r *Run) {
	p := r.P
	ms := newMutSummary(p, true)
	for _, name := range []string{"(*TemplateEngine).RenderToDocument", "(*TemplateEngine).RenderTemplateToDocument", "(*TemplateEngine).renderTemplate"} {
		fn := r.mustFunc(pkgDoc, name)
		if fn == nil {
			continue
		}
		for pi, par := range fn.Params {
			if !typeIs(par.Type(), pkgDoc, "TemplateData") && !typeIs(par.Type(), pkgDoc, "Template") {
				continue
			}
			sites := ms.Params(fn)[pi]
			detail := "no store through this parameter in the function or its callees"
			if len(sites) > 0 {
				detail = fmt.Sprintf("rendering writes through its %s parameter at %s (in %s)", par.Name(), p.pos(sites[0].Instr.Pos()), shortName(sites[0].Fn))
			}
			r.Check("render-pure", shortName(fn)+":"+par.Name(), fn.Pos(), len(sites) == 0, detail)
		}
	}
	// every other exported entry point that is handed the caller's data and renders (the
	// TemplateRenderer wrappers, convenience variants added later): the caller's data is only read.
	// TemplateData's own methods (its setters) are of course exempt — the receiver is theirs to change.
	known := map[string]bool{"(*TemplateEngine).RenderToDocument": true, "(*TemplateEngine).RenderTemplateToDocument": true, "(*TemplateEngine).renderTemplate": true}
	for _, fn := range p.exportedAPI(pkgDoc) {
		if fn.Signature.Recv() == nil || known[strings.TrimPrefix(shortName(fn), "document.")] {
			continue
		}
		if !typeIs(fn.Signature.Recv().Type(), pkgDoc, "TemplateEngine") && !typeIs(fn.Signature.Recv().Type(), pkgDoc, "TemplateRenderer") {
			continue
		}
		if !strings.Contains(fn.Name(), "Render") {
			continue
		}
		for pi, par := range fn.Params {
			if pi == 0 || !typeIs(par.Type(), pkgDoc, "TemplateData") {
				continue
			}
			sites := ms.Params(fn)[pi]
			detail := "no store through this parameter in the function or its callees"
			if len(sites) > 0 {
				detail = fmt.Sprintf("rendering writes through its %s parameter at %s (in %s): the caller's data changes under its hands, later renderings depend on which ran before, and concurrent renderings of shared data race", par.Name(), p.pos(sites[0].Instr.Pos()), shortName(sites[0].Fn))
			}
			r.Check("render-pure", shortName(fn)+":"+par.Name(), fn.Pos(), len(sites) == 0, detail)
		}
	}
	// the base document is only read: in the render entry points every write into Document memory
	// must target the clone (a fresh call result) — never memory reached from template.BaseDoc
	for _, name := range []string{"(*TemplateEngine).RenderTemplateToDocument", "(*TemplateEngine).RenderToDocument"} {
		fn := p.Func(pkgDoc, name)
		if fn == nil {
			continue
		}
		bad := ""
		allInstrs(fn, func(in ssa.Instruction) {
			c, ok := in.(ssa.CallInstruction)
			if !ok {
				return
			}
			cal := staticCallee(c)
			if cal == nil || !p.inModule(cal) {
				return
			}
			for pi, sites := range ms.Params(cal) {
				if pi >= len(c.Common().Args) || len(sites) == 0 {
					continue
				}
				arg := c.Common().Args[pi]
				chain, _ := addrChain(arg)
				for _, f := range chain {
					if fieldIs(p, f, pkgDoc, "Template", "BaseDoc") {
						bad = fmt.Sprintf("%s passes template.BaseDoc to %s which writes through it (%s)", shortName(fn), shortName(cal), p.pos(sites[0].Instr.Pos()))
					}
				}
			}
		})
		r.Check("render-pure", shortName(fn)+":BaseDoc", fn.Pos(), bad == "", map[bool]string{true: "the base document is passed only to functions that do not write through it (it is cloned first)", false: bad}[bad == ""])
	}
}

// passedToOnceDo: fn is a function literal that is only ever used as the argument of (*sync.Once).Do.
func passedToOnceDo(p *Program, fn *ssa.Function) bool {
	parent := fn.Parent()
	if parent == nil {
		return false
	}
	used, onlyOnce := false, true
	allInstrs(parent, func(in ssa.Instruction) {
		for _, op := range in.Operands(nil) {
			v := *op
			if mc, ok := v.(*ssa.MakeClosure); ok {
				v = mc.Fn
			}
			if v != ssa.Value(fn) {
				continue
			}
			if _, isMC := in.(*ssa.MakeClosure); isMC {
				continue
			}
			used = true
			c, ok := in.(ssa.CallInstruction)
			if !ok || calleeName(c) != "(*sync.Once).Do" {
				onlyOnce = false
			}
		}
	})
	return used && onlyOnce
}

// globalContentEscapes: a pointer-like value obtained from the content of global g is stored into
// memory that is not itself part of g's content, or is returned, in a function reachable from the
// API (other than the initialising literal).  Returns a description of the first escape, or "".
func globalContentEscapes(p *Program, g *ssa.Global, reach map[*ssa.Function]bool) string {
	shares := sharesPointers
	if !globalHasWriters(p, g, reach) {
		shares = mutableShare
	}
	for _, fn := range sortedFuncs(reach) {
		if passedToOnceDo(p, fn) {
			continue
		}
		var found string
		allInstrs(fn, func(in ssa.Instruction) {
			if found != "" {
				return
			}
			ld, ok := in.(*ssa.UnOp)
			if !ok || ld.Op != token.MUL || ld.X != ssa.Value(g) {
				return
			}
			found = derivedEscape(p, fn, ld, shares, reach, 0)
		})
		if found != "" {
			return found
		}
	}
	return ""
}

// derivedEscape: seed (a value of fn) is content of a package-level table.  Everything derived from
// it is followed; the first place where a sharing value leaves — a store into another object, a
// map update, a return from an exported function — is described.  A return from an UNEXPORTED
// function is followed into its callers (a look-up helper whose callers only read the entry does
// not let anything escape).
func derivedEscape(p *Program, fn *ssa.Function, seed ssa.Value, shares func(*Program, types.Type) bool, reach map[*ssa.Function]bool, depth int) string {
	derived := map[ssa.Value]bool{seed: true}
	grow := func(withLocals bool) {
		for changed := true; changed; {
			changed = false
			allInstrs(fn, func(in2 ssa.Instruction) {
				if withLocals {
					if st, ok := in2.(*ssa.Store); ok && derived[st.Val] {
						if al := allocBase(st.Addr); al != nil && !al.Heap && !derived[al] {
							derived[al] = true
							changed = true
						}
					}
				}
				v, ok := in2.(ssa.Value)
				if !ok || derived[v] {
					return
				}
				switch x := in2.(type) {
				case *ssa.UnOp, *ssa.FieldAddr, *ssa.Field, *ssa.IndexAddr, *ssa.Index, *ssa.Lookup, *ssa.Range, *ssa.Next, *ssa.Extract, *ssa.Phi, *ssa.Slice, *ssa.ChangeType, *ssa.MakeInterface, *ssa.TypeAssert:
					for _, op := range x.Operands(nil) {
						if *op != nil && derived[*op] {
							derived[v] = true
							changed = true
							return
						}
					}
				}
			})
		}
	}
	grow(false)
	// a by-value copy into a local variable that does not escape (doc := tableEntry) is still the
	// table's content: keep following it instead of reporting the copy itself
	grow(true)
	found := ""
	allInstrs(fn, func(in2 ssa.Instruction) {
		if found != "" {
			return
		}
		switch x := in2.(type) {
		case *ssa.Store:
			if !derived[x.Val] || derived[x.Addr] {
				return
			}
			if al := allocBase(x.Addr); al != nil && derived[al] {
				return
			}
			if shares(p, x.Val.Type()) {
				found = fmt.Sprintf("%s stores a %s taken from the table into another object (%s): all documents share what it points to", shortName(fn), x.Val.Type(), p.pos(x.Pos()))
			}
		case *ssa.MapUpdate:
			if derived[x.Value] && !derived[x.Map] && shares(p, x.Value.Type()) {
				found = fmt.Sprintf("%s puts a %s taken from the table into another map (%s)", shortName(fn), x.Value.Type(), p.pos(x.Pos()))
			}
		case *ssa.Return:
			for ri, rv := range x.Results {
				if !derived[rv] || !shares(p, rv.Type()) {
					continue
				}
				exported := fn.Object() != nil && fn.Object().Exported()
				if exported || fn.Parent() != nil || depth >= 3 {
					found = fmt.Sprintf("%s returns a %s taken from the table (%s)", shortName(fn), rv.Type(), p.pos(x.Pos()))
					continue
				}
				// unexported: what do the callers do with it?
				sites := staticCallSites(p, fn)
				for _, cs := range sites {
					cv, ok := cs.(*ssa.Call)
					if !ok {
						found = fmt.Sprintf("%s returns a %s taken from the table (%s) to a deferred or go call", shortName(fn), rv.Type(), p.pos(x.Pos()))
						break
					}
					var seed2 ssa.Value = cv
					if len(x.Results) > 1 {
						seed2 = nil
						if cv.Referrers() != nil {
							for _, u := range *cv.Referrers() {
								if ex, ok := u.(*ssa.Extract); ok && ex.Index == ri {
									seed2 = ex
								}
							}
						}
					}
					if seed2 == nil {
						continue
					}
					if f2 := derivedEscape(p, cv.Parent(), seed2, shares, reach, depth+1); f2 != "" {
						found = f2 + " (handed on by " + shortName(fn) + ")"
						break
					}
				}
			}
		}
	})
	return found
}

// globalHasWriters: some function outside init stores to g itself.
func globalHasWriters(p *Program, g *ssa.Global, reach map[*ssa.Function]bool) bool {
	has := false
	for fn := range reach {
		if fn.Name() == "init" || strings.HasPrefix(fn.Name(), "init#") {
			continue
		}
		allInstrs(fn, func(in ssa.Instruction) {
			if st, ok := in.(*ssa.Store); ok && st.Addr == ssa.Value(g) {
				has = true
			}
		})
	}
	return has
}

// mutableShare: a value of this type gives access to mutable data defined by the module — a pointer
// to a module struct, or a slice / map / struct containing one.  Errors, functions, and pointers to
// types of other packages (compiled regular expressions) do not count.
func mutableShare(p *Program, t types.Type) bool {
	seen := map[types.Type]bool{}
	var walk func(t types.Type) bool
	walk = func(t types.Type) bool {
		if seen[t] {
			return false
		}
		seen[t] = true
		if isErrorType(t) {
			return false
		}
		switch x := t.Underlying().(type) {
		case *types.Pointer:
			if n, ok := x.Elem().(*types.Named); ok && n.Obj().Pkg() != nil && strings.HasPrefix(n.Obj().Pkg().Path(), modPath) {
				if _, isSt := n.Underlying().(*types.Struct); isSt {
					return true
				}
			}
			return false
		case *types.Slice:
			return walk(x.Elem())
		case *types.Map:
			return walk(x.Elem())
		case *types.Array:
			return walk(x.Elem())
		case *types.Struct:
			for i := 0; i < x.NumFields(); i++ {
				if walk(x.Field(i).Type()) {
					return true
				}
			}
		}
		return false
	}
	return walk(t)
}

// sharesPointers: copying a value of this type shares memory (it is, or contains, a pointer,
// slice, map, channel, function or interface).
func sharesPointers(p *Program, t types.Type) bool {
	seen := map[types.Type]bool{}
	var walk func(t types.Type) bool
	walk = func(t types.Type) bool {
		if seen[t] {
			return false
		}
		seen[t] = true
		switch x := t.Underlying().(type) {
		case *types.Basic:
			return false
		case *types.Struct:
			for i := 0; i < x.NumFields(); i++ {
				if walk(x.Field(i).Type()) {
					return true
				}
			}
			return false
		case *types.Array:
			return walk(x.Elem())
		}
		return true
	}
	return walk(t)
}

// throughCache: the value is obtained by reading TemplateEngine.cache (map lookup / range).
func throughCache(p *Program, v ssa.Value) bool {
	seen := map[ssa.Value]bool{}
	var walk func(v ssa.Value) bool
	walk = func(v ssa.Value) bool {
		if v == nil || seen[v] {
			return false
		}
		seen[v] = true
		switch x := v.(type) {
		case *ssa.Lookup:
			if ld, ok := x.X.(*ssa.UnOp); ok {
				if fv, _ := fieldOfAddr(ld.X); fieldIs(p, fv, pkgDoc, "TemplateEngine", "cache") {
					return true
				}
			}
			return walk(x.X)
		case *ssa.Range:
			if ld, ok := x.X.(*ssa.UnOp); ok {
				if fv, _ := fieldOfAddr(ld.X); fieldIs(p, fv, pkgDoc, "TemplateEngine", "cache") {
					return true
				}
			}
			return walk(x.X)
		case *ssa.Extract:
			return walk(x.Tuple)
		case *ssa.Next:
			return walk(x.Iter)
		case *ssa.FieldAddr:
			return walk(x.X)
		case *ssa.IndexAddr:
			return walk(x.X)
		case *ssa.UnOp:
			return walk(x.X)
		case *ssa.Phi:
			for _, e := range x.Edges {
				if walk(e) {
					return true
				}
			}
		case *ssa.TypeAssert:
			return walk(x.X)
		case *ssa.ChangeType:
			return walk(x.X)
		}
		return false
	}
	return walk(v)
}

// ---------------------------------------------------------------------------
// R-RENDER-CACHE-FREE (C17): what a template renders is fixed when it is loaded (its parent is
// resolved then).  The rendering proper — every function that works on an already looked-up
// *Template together with the data — must not consult the engine's template cache again: a lookup by
// name at render time makes the output depend on what was loaded, reloaded or removed in between.
// ---------------------------------------------------------------------------

func ruleRenderCacheFree(r *Run) {
	p := r.P
	var roots []*ssa.Function
	for _, fn := range p.ModFuncs() {
		if fn.Pkg == nil || fn.Pkg.Pkg.Path() != pkgDoc || fn.Parent() != nil {
			continue
		}
		hasT, hasD := false, false
		for _, par := range fn.Params {
			if typeIs(par.Type(), pkgDoc, "Template") {
				hasT = true
			}
			if typeIs(par.Type(), pkgDoc, "TemplateData") {
				hasD = true
			}
		}
		if hasT && hasD {
			roots = append(roots, fn)
		}
	}
	r.Min("render_functions_taking_template_and_data", len(roots), 1)
	if len(roots) == 0 {
		return
	}
	reach := p.staticReach(roots...)
	bad := ""
	var badPos token.Pos
	for _, fn := range sortedFuncs(reach) {
		allInstrs(fn, func(in ssa.Instruction) {
			fa, ok := in.(*ssa.FieldAddr)
			if !ok || bad != "" {
				return
			}
			if fv, _ := fieldOfAddr(fa); fieldIs(p, fv, pkgDoc, "TemplateEngine", "cache") {
				bad = shortName(fn) + " reads the template cache (" + p.pos(fa.Pos()) + ")"
				badPos = fa.Pos()
			}
		})
	}
	pos := roots[0].Pos()
	if bad != "" {
		pos = badPos
	}
	r.Check("render-cache-free", shortName(roots[0]), pos, bad == "",
		fmt.Sprintf("rendering an already loaded template must not look templates up by name again: %s", map[bool]string{true: "no cache access is reachable from the rendering functions", false: bad + ", reachable from " + shortName(roots[0]) + " — the result then depends on which templates were loaded, reloaded or removed since this one was loaded"}[bad == ""]))
}
