package main

import (
	"encoding/json"
	"fmt"
	"os"
	"path/filepath"
	"sort"
	"strings"
)

// naReasons: why a property is not claimed while no rule for it is registered.
var naReasons = map[string]string{}

func writeManifest(vd string) {
	type lvl struct {
		Category  string `json:"category"`
		Text      string `json:"text"`
		DesignRef string `json:"design_ref"`
	}
	type check struct {
		PropertyID string `json:"property_id"`
		Quick      string `json:"quick_cmd"`
		Thorough   string `json:"thorough_cmd"`
		Evidence   string `json:"evidence_file"`
		Replay     string `json:"replay_cmd_template"`
		Engine     string `json:"engine"`
		Level      lvl    `json:"level_claimed"`
		Note       string `json:"level_note"`
		Technique  string `json:"technique"`
	}
	var ids []string
	for id := range props {
		ids = append(ids, id)
	}
	sort.Strings(ids)
	var checks []check
	var served []string
	for _, id := range ids {
		sp := props[id]
		tech := "static analysis: "
		for i, rl := range sp.Rules {
			if i > 0 {
				tech += "; "
			}
			tech += rl.Name
		}
		tech += " (go/types + go/ssa + call graph over /repo's current source; nothing is executed)"
		checks = append(checks, check{
			PropertyID: id,
			Quick:      "./check " + id + " quick",
			Thorough:   "./check " + id + " thorough",
			Evidence:   "evidence/" + id + ".json",
			Replay:     "bin/wzcheck -replay {path}",
			Engine:     "wzcheck",
			Level: lvl{"other", "Static analysis of the source. " + sp.Explanation + extraClauses(sp) + " NOT decided: " + sp.NotDecided,
				"DESIGN.md §4 " + id + ", §11, §14"},
			Note:      "Trusted: Go type checker and go/ssa (x/tools v0.29.0), the frozen tables in the checker, and: " + joinStr(sp.Assumptions),
			Technique: tech,
		})
		served = append(served, id)
	}
	type na struct {
		PropertyID string `json:"property_id"`
		Reason     string `json:"reason"`
	}
	nas := []na{}
	for i := 1; i <= 20; i++ {
		id := fmt.Sprintf("C%02d", i)
		if _, ok := props[id]; ok {
			continue
		}
		reason := naReasons[id]
		if reason == "" {
			reason = "no static rule for this property is implemented (yet) in wzcheck; the property is not claimed"
		}
		nas = append(nas, na{id, reason})
	}
	m := map[string]interface{}{
		"version":   1,
		"setup_cmd": "cd /verif && export GOFLAGS=-mod=mod GOPROXY=off GOSUMDB=off GOTOOLCHAIN=local GOWORK=off && mkdir -p bin evidence && cd checker && go build -o ../bin/wzcheck .",
		"hooks": map[string]interface{}{
			"guard":            "verif",
			"enable":           "none needed: the checks read the unmodified source (no hook commits exist); the thorough tier additionally loads the tree with -tags verif and GOARCH=386 to make sure no build-constrained file hides code",
			"baseline_off_cmd": "/verif/tools/baseline.sh",
			"source_commits":   []string{},
			"add_only":         true,
		},
		"engines": []map[string]interface{}{{
			"name": "wzcheck", "path": "checker/", "serves_properties": served,
			"kind_free_text": "repository-specific static analyser (Go; go/packages, go/types, go/ssa, VTA call graph). One rule set per property; obligations keyed by rule+construct; known_findings.json lists recorded genuine defects.",
		}},
		"checks":         checks,
		"not_applicable": nas,
		"notes":          "All checks are static (level 'other'): each decides a structural necessary condition of its property, stated in level_claimed.text and DESIGN.md §4. Exit 0 = no unlisted violation; exit 1 + VIOLATION line = violation; exit 2 = the checker itself could not decide (unresolved anchor, instance count below the confirmed minimum, load/type error).",
	}
	b, _ := json.MarshalIndent(m, "", " ")
	if err := os.WriteFile(filepath.Join(vd, "MANIFEST.json"), append(b, '\n'), 0o644); err != nil {
		fatal(2, "%v", err)
	}
	fmt.Printf("MANIFEST.json written: %d checks, %d not applicable\n", len(checks), len(nas))
}

// extraClauses: rules registered for the property that its hand-written explanation does not name
// yet (added after later seeding rounds) are listed with their one-line statement, so that the
// claimed level always says everything that is decided.
func extraClauses(sp PropSpec) string {
	out := ""
	for _, rl := range sp.Rules {
		base := rl.Name
		if i := strings.IndexAny(base, "/ ("); i > 0 {
			base = base[:i]
		}
		if strings.Contains(sp.Explanation, "("+base) || strings.Contains(sp.Explanation, base+")") || strings.Contains(sp.Explanation, base+"/") || strings.Contains(sp.Explanation, "/"+base) {
			continue
		}
		out += " (" + rl.Name + ") " + rl.Doc + ";"
	}
	if out != "" {
		out = " Further structural clauses decided:" + strings.TrimSuffix(out, ";") + "."
	}
	return out
}

func joinStr(s []string) string {
	out := ""
	for i, x := range s {
		if i > 0 {
			out += "; "
		}
		out += x
	}
	return out
}
