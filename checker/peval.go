package main

// A small path-enumerating partial evaluator over SSA for string-valued helper functions.  It
// decides rules of the form "f maps distinct constants to distinct names" without caring how f
// is written (switch, if-chain, lookup helper plus concatenation, Sprintf).  Nothing is executed:
// the function body is interpreted symbolically over {constant string, opaque symbol}.

import (
	"fmt"
	"go/constant"
	"go/token"
	"go/types"
	"sort"
	"strings"

	"golang.org/x/tools/go/ssa"
)

// pv: a partially known string.  Opaque pieces are written \x00name\x00.
type pv struct {
	s     string
	known bool // s is meaningful (possibly containing opaque pieces)
}

func (v pv) concrete() bool { return v.known && !strings.Contains(v.s, "\x00") }

type pevalCtx struct {
	steps int
	depth int
}

// pevalCall: the possible results (index resIdx) of calling fn with the given arguments (unknown
// arguments are opaque symbols named after the parameter).
func pevalCall(fn *ssa.Function, args []pv, resIdx int, ctx *pevalCtx) (out []string, complete bool) {
	if fn == nil || len(fn.Blocks) == 0 || ctx.depth > 4 {
		return nil, false
	}
	ctx.depth++
	defer func() { ctx.depth-- }()
	complete = true
	set := map[string]bool{}
	env := map[ssa.Value]pv{}
	for i, p := range fn.Params {
		if i < len(args) && args[i].known {
			env[p] = args[i]
		} else {
			env[p] = pv{"\x00" + p.Name() + "\x00", true}
		}
	}
	var eval func(v ssa.Value) pv
	eval = func(v ssa.Value) pv {
		if x, ok := env[v]; ok {
			return x
		}
		switch x := v.(type) {
		case *ssa.Const:
			if x.Value != nil && x.Value.Kind() == constant.String {
				return pv{constant.StringVal(x.Value), true}
			}
		case *ssa.ChangeType:
			return eval(x.X)
		case *ssa.Convert:
			if b, ok := x.X.Type().Underlying().(*types.Basic); ok && b.Info()&types.IsString != 0 {
				return eval(x.X)
			}
		case *ssa.BinOp:
			if x.Op == token.ADD {
				a, b := eval(x.X), eval(x.Y)
				if a.known && b.known {
					return pv{a.s + b.s, true}
				}
			}
		case *ssa.Call:
			if calleeName(x) == "fmt.Sprintf" && len(x.Call.Args) == 2 {
				if format, ok := constString(x.Call.Args[0]); ok {
					elems := varargElems(x.Call.Args[1])
					var sb strings.Builder
					ai := 0
					okAll := true
					for i := 0; i < len(format); i++ {
						if format[i] == '%' && i+1 < len(format) {
							switch format[i+1] {
							case '%':
								sb.WriteByte('%')
							case 's', 'v':
								if ai < len(elems) {
									e := eval(unwrapIface(elems[ai]))
									if !e.known {
										e = pv{fmt.Sprintf("\x00arg%d\x00", ai), true}
									}
									sb.WriteString(e.s)
								} else {
									okAll = false
								}
								ai++
							default:
								sb.WriteString(fmt.Sprintf("\x00fmt%d\x00", ai))
								ai++
							}
							i++
							continue
						}
						sb.WriteByte(format[i])
					}
					if okAll {
						return pv{sb.String(), true}
					}
				}
			}
			if cal := staticCallee(x); cal != nil && len(cal.Blocks) > 0 && cal.Pkg != nil && strings.HasPrefix(cal.Pkg.Pkg.Path(), modPath) && cal.Signature.Results().Len() == 1 {
				var as []pv
				for _, a := range x.Call.Args {
					as = append(as, eval(a))
				}
				res, ok := pevalCall(cal, as, 0, ctx)
				if ok && len(res) == 1 {
					return pv{res[0], true}
				}
			}
		}
		return pv{}
	}
	var walk func(b, prev *ssa.BasicBlock, local map[ssa.Value]pv)
	walk = func(b, prev *ssa.BasicBlock, local map[ssa.Value]pv) {
		ctx.steps++
		if ctx.steps > 4000 {
			complete = false
			return
		}
		for _, in := range b.Instrs {
			switch x := in.(type) {
			case *ssa.Phi:
				for i, p := range b.Preds {
					if p == prev {
						env[x] = eval(x.Edges[i])
					}
				}
			case *ssa.Return:
				if resIdx < len(x.Results) {
					r := eval(retResult(x, resIdx))
					if !r.known {
						complete = false
						return
					}
					set[r.s] = true
				}
				return
			case *ssa.If:
				taken := -1
				if bo, ok := x.Cond.(*ssa.BinOp); ok && (bo.Op == token.EQL || bo.Op == token.NEQ) {
					a, c := eval(bo.X), eval(bo.Y)
					if a.concrete() && c.concrete() {
						if (a.s == c.s) == (bo.Op == token.EQL) {
							taken = 0
						} else {
							taken = 1
						}
					}
				}
				for i, s := range b.Succs {
					if taken >= 0 && i != taken {
						continue
					}
					saved := map[ssa.Value]pv{}
					for k, v := range env {
						saved[k] = v
					}
					walk(s, b, nil)
					env = saved
				}
				return
			case *ssa.Jump:
				walk(b.Succs[0], b, nil)
				return
			case *ssa.Panic:
				return
			case ssa.Value:
				if r := eval(x); r.known {
					env[x] = r
				}
			}
		}
	}
	walk(fn.Blocks[0], nil, nil)
	for s := range set {
		out = append(out, s)
	}
	sort.Strings(out)
	return out, complete
}

func unwrapIface(v ssa.Value) ssa.Value {
	for {
		switch x := v.(type) {
		case *ssa.MakeInterface:
			v = x.X
		case *ssa.ChangeInterface:
			v = x.X
		default:
			return v
		}
	}
}

func showPV(s string) string {
	parts := strings.Split(s, "\x00")
	for i := 1; i < len(parts); i += 2 {
		parts[i] = "<" + parts[i] + ">"
	}
	return strings.Join(parts, "")
}

// constsOfType: the package-level string constants of the named type, name → value.
func constsOfType(pkg *types.Package, typeName string) map[string]string {
	out := map[string]string{}
	sc := pkg.Scope()
	for _, n := range sc.Names() {
		c, ok := sc.Lookup(n).(*types.Const)
		if !ok {
			continue
		}
		nt, ok := c.Type().(*types.Named)
		if !ok || nt.Obj().Name() != typeName || c.Val().Kind() != constant.String {
			continue
		}
		out[n] = constant.StringVal(c.Val())
	}
	return out
}
