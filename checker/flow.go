package main

import (
	"go/token"
	"go/types"
	"sort"

	"golang.org/x/tools/go/ssa"
)

// ---------------------------------------------------------------------------
// Roots of a value / address (A1+A5): which parameters, globals, allocations or
// call results a pointer may be derived from.  Path-insensitive, intra-procedural,
// follows loads, field/index selection, map lookups, range iteration, phis, type
// assertions, slices and stores into local variables.
// ---------------------------------------------------------------------------

type rootSet map[ssa.Value]bool

type rootInfo struct {
	roots rootSet
}

// rootsOf computes the set of root values v may point into.  deref counts whether a
// pointer indirection occurred on the way (used to look through local copies).
func rootsOf(v ssa.Value) rootSet { return rootsOfMode(v, false) }

// rootsOfAddr: roots of the MEMORY an address points into (the target of a store).  Differs from
// rootsOf in one case: for `append(a, b...)` the written backing array is a's (or a fresh one),
// never the memory the appended elements point to — as long as no pointer has been loaded out of
// the slice on the way (chain[l], chain[r] = chain[r], chain[l] on a local slice of *Template writes
// the local slice, not the templates).
func rootsOfAddr(v ssa.Value) rootSet { return rootsOfMode(v, true) }

func rootsOfMode(v ssa.Value, addrOnly bool) rootSet {
	rs := rootSet{}
	seen := map[ssa.Value]bool{}
	var walk func(v ssa.Value, derefs int)
	walk = func(v ssa.Value, derefs int) {
		if v == nil || seen[v] {
			return
		}
		seen[v] = true
		switch x := v.(type) {
		case *ssa.FieldAddr:
			if al, ok := x.X.(*ssa.Alloc); ok && al.Referrers() != nil {
				// a field of a local struct: what was stored into THAT field (not into its siblings)
				rs[al] = true
				for _, in := range *al.Referrers() {
					switch u := in.(type) {
					case *ssa.FieldAddr:
						if u.X != ssa.Value(al) || u.Field != x.Field || u.Referrers() == nil {
							continue
						}
						for _, in2 := range *u.Referrers() {
							if st, ok := in2.(*ssa.Store); ok && st.Addr == ssa.Value(u) {
								if isPointerLike(st.Val.Type()) || derefs > 0 {
									walk(st.Val, derefs)
								}
							}
						}
					case *ssa.Store:
						if u.Addr == ssa.Value(al) && (isPointerLike(u.Val.Type()) || derefs > 0) {
							walk(u.Val, derefs)
						} else if u.Addr == ssa.Value(al) && isPointerLike(derefType(x.Type())) {
							// the local struct is a copy of another (merged := *data): the pointer, map or slice
							// read from this field is the one the original holds
							if ld, ok := u.Val.(*ssa.UnOp); ok && ld.Op == token.MUL {
								walk(ld.X, derefs)
							}
						}
					}
				}
				return
			}
			walk(x.X, derefs)
		case *ssa.IndexAddr:
			walk(x.X, derefs)
		case *ssa.Field:
			walk(x.X, derefs)
		case *ssa.Index:
			walk(x.X, derefs)
		case *ssa.UnOp:
			if x.Op == token.MUL {
				walk(x.X, derefs+1)
			} else {
				rs[v] = true
			}
		case *ssa.Lookup:
			walk(x.X, derefs+1)
		case *ssa.ChangeType:
			walk(x.X, derefs)
		case *ssa.Convert:
			walk(x.X, derefs)
		case *ssa.ChangeInterface:
			walk(x.X, derefs)
		case *ssa.MakeInterface:
			walk(x.X, derefs)
		case *ssa.TypeAssert:
			walk(x.X, derefs)
		case *ssa.Slice:
			walk(x.X, derefs)
		case *ssa.Extract:
			walk(x.Tuple, derefs)
		case *ssa.Next:
			walk(x.Iter, derefs)
		case *ssa.Range:
			walk(x.X, derefs+1)
		case *ssa.Phi:
			for _, e := range x.Edges {
				walk(e, derefs)
			}
		case *ssa.Alloc:
			rs[v] = true
			// a local variable: whatever was stored in it may be what we point into
			// (stores go through the variable itself or, for local arrays such as a varargs array,
			// through element addresses; fields of a local struct are handled field by field in the
			// FieldAddr case)
			var visitRefs func(a ssa.Value, depth int)
			visitRefs = func(a ssa.Value, depth int) {
				refs := a.Referrers()
				if refs == nil || depth > 6 {
					return
				}
				for _, in := range *refs {
					switch u := in.(type) {
					case *ssa.Store:
						if u.Addr == a && allocBase(u.Addr) == x {
							if isPointerLike(u.Val.Type()) || derefs > 0 {
								walk(u.Val, derefs)
							}
						}
					case *ssa.IndexAddr:
						if u.X == a {
							visitRefs(u, depth+1)
						}
					}
				}
			}
			visitRefs(x, 0)
		case *ssa.Call:
			// builtin append returns (possibly) its first argument's array
			if b, ok := x.Call.Value.(*ssa.Builtin); ok && b.Name() == "append" {
				walk(x.Call.Args[0], derefs)
				if len(x.Call.Args) > 1 && !(addrOnly && derefs == 0) {
					walk(x.Call.Args[1], derefs)
				}
				return
			}
			rs[v] = true
		default:
			rs[v] = true
		}
	}
	walk(v, 0)
	return rs
}

// ---------------------------------------------------------------------------
// Return-root summaries: where may the pointer-like results of a module function point?
// ---------------------------------------------------------------------------

type retSummary struct {
	Params  map[int]bool
	Globals map[*ssa.Global]bool
	Fresh   bool // some result may be freshly allocated
	Other   bool // something else (external call result, unknown)
}

type retSummaries struct {
	p *Program
	m map[*ssa.Function]*retSummary
}

var retSumCache = map[*Program]*retSummaries{}

func getRetSummaries(p *Program) *retSummaries {
	if rs, ok := retSumCache[p]; ok {
		return rs
	}
	rs := &retSummaries{p: p, m: map[*ssa.Function]*retSummary{}}
	retSumCache[p] = rs
	fns := p.ModFuncs()
	for _, f := range fns {
		rs.m[f] = &retSummary{Params: map[int]bool{}, Globals: map[*ssa.Global]bool{}}
	}
	size := func(s *retSummary) int {
		n := len(s.Params)*4 + len(s.Globals)*4
		if s.Fresh {
			n++
		}
		if s.Other {
			n += 2
		}
		return n
	}
	for round := 0; round < 12; round++ {
		changed := false
		for _, f := range fns {
			s := rs.m[f]
			before := size(s)
			for _, ret := range returnsOf(f) {
				for i := range ret.Results {
					v := retResult(ret, i)
					if !isPointerLike(v.Type()) {
						continue
					}
					rs.addRoots(f, v, s, 0)
				}
			}
			if size(s) != before {
				changed = true
			}
		}
		if !changed {
			break
		}
	}
	return rs
}

func (rs *retSummaries) addRoots(f *ssa.Function, v ssa.Value, s *retSummary, depth int) {
	for r := range rootsOf(v) {
		switch x := r.(type) {
		case *ssa.Parameter:
			if i := paramIndex(f, x); i >= 0 {
				s.Params[i] = true
			}
		case *ssa.Global:
			s.Globals[x] = true
		case *ssa.Alloc, *ssa.MakeSlice, *ssa.MakeMap, *ssa.MakeInterface, *ssa.MakeClosure:
			s.Fresh = true
		case *ssa.Const:
		case *ssa.Call:
			cal := staticCallee(x)
			if cal == nil || rs.m[cal] == nil {
				if b, ok := x.Call.Value.(*ssa.Builtin); ok && (b.Name() == "len" || b.Name() == "cap") {
					continue
				}
				s.Other = true
				continue
			}
			cs := rs.m[cal]
			if cs.Fresh {
				s.Fresh = true
			}
			if cs.Other {
				s.Other = true
			}
			for g := range cs.Globals {
				s.Globals[g] = true
			}
			if depth < 6 {
				for pi := range cs.Params {
					if pi < len(x.Call.Args) {
						rs.addRoots(f, x.Call.Args[pi], s, depth+1)
					}
				}
			}
		default:
			s.Other = true
		}
	}
}

// deepRoots resolves call-result roots through the callee's return summary.
func deepRoots(p *Program, v ssa.Value) rootSet { return deepRootsMode(p, v, false) }

// deepRootsAddr: as deepRoots, for the target address of a store (see rootsOfAddr).
func deepRootsAddr(p *Program, v ssa.Value) rootSet { return deepRootsMode(p, v, true) }

func deepRootsMode(p *Program, v ssa.Value, addrOnly bool) rootSet {
	rs := getRetSummaries(p)
	out := rootSet{}
	seen := map[ssa.Value]bool{}
	var add func(v ssa.Value, depth int)
	add = func(v ssa.Value, depth int) {
		src := rootsOf(v)
		if addrOnly && depth == 0 {
			src = rootsOfAddr(v)
		}
		for r := range src {
			if seen[r] {
				continue
			}
			seen[r] = true
			c, ok := r.(*ssa.Call)
			if !ok {
				out[r] = true
				continue
			}
			cal := staticCallee(c)
			cs := rs.m[cal]
			if cal == nil || cs == nil {
				out[r] = true
				continue
			}
			if cs.Fresh || cs.Other || len(cs.Params)+len(cs.Globals) == 0 {
				out[r] = true // keep the call itself as a (fresh/unknown) root
			}
			for g := range cs.Globals {
				out[g] = true
			}
			if depth < 6 {
				for pi := range cs.Params {
					if pi < len(c.Call.Args) {
						add(c.Call.Args[pi], depth+1)
					}
				}
			}
		}
	}
	add(v, 0)
	return out
}

// allocBase strips field/index selections (no loads) and returns the Alloc, if any.
func allocBase(addr ssa.Value) *ssa.Alloc {
	for {
		switch a := addr.(type) {
		case *ssa.FieldAddr:
			addr = a.X
		case *ssa.IndexAddr:
			addr = a.X
		case *ssa.Alloc:
			return a
		default:
			return nil
		}
	}
}

func isPointerLike(t types.Type) bool {
	switch u := t.Underlying().(type) {
	case *types.Pointer, *types.Slice, *types.Map, *types.Interface, *types.Chan, *types.Signature:
		return true
	case *types.Struct:
		for i := 0; i < u.NumFields(); i++ {
			if isPointerLike(u.Field(i).Type()) {
				return true
			}
		}
	case *types.Array:
		return isPointerLike(u.Elem())
	}
	return false
}

// derivesFrom reports whether v may be derived from one of the given values.
func derivesFrom(v ssa.Value, srcs ...ssa.Value) bool {
	rs := rootsOf(v)
	for _, s := range srcs {
		if rs[s] {
			return true
		}
	}
	return false
}

// ---------------------------------------------------------------------------
// Mutation summaries: which parameters (index in fn.Params) may have memory reachable
// from them written by fn or its (static / call-graph) callees.
// ---------------------------------------------------------------------------

type writeSite struct {
	Instr     ssa.Instruction
	Fn        *ssa.Function
	Field     *types.Var // innermost field written, if any
	Via       []*ssa.Function
	Inherited bool // a callee's write to a global, propagated to its callers
}

type mutSummary struct {
	p      *Program
	params map[*ssa.Function]map[int][]writeSite
	global map[*ssa.Function]map[*ssa.Global][]writeSite
	done   map[*ssa.Function]bool
	useCG  bool
}

func newMutSummary(p *Program, useCG bool) *mutSummary {
	return &mutSummary{p: p, params: map[*ssa.Function]map[int][]writeSite{}, global: map[*ssa.Function]map[*ssa.Global][]writeSite{}, done: map[*ssa.Function]bool{}, useCG: useCG}
}

func paramIndex(fn *ssa.Function, v ssa.Value) int {
	for i, p := range fn.Params {
		if ssa.Value(p) == v {
			return i
		}
	}
	return -1
}

// writtenAddrs lists (address-or-map value, instruction, field) triples for direct writes in fn.
func directWrites(fn *ssa.Function) []struct {
	Target ssa.Value
	In     ssa.Instruction
	Field  *types.Var
} {
	var out []struct {
		Target ssa.Value
		In     ssa.Instruction
		Field  *types.Var
	}
	add := func(t ssa.Value, in ssa.Instruction) {
		var fv *types.Var
		if chain, _ := addrChain(t); len(chain) > 0 {
			fv = chain[len(chain)-1]
		}
		out = append(out, struct {
			Target ssa.Value
			In     ssa.Instruction
			Field  *types.Var
		}{t, in, fv})
	}
	allInstrs(fn, func(in ssa.Instruction) {
		switch x := in.(type) {
		case *ssa.Store:
			if _, ok := x.Addr.(*ssa.Alloc); ok {
				return // assignment to a local variable itself
			}
			add(x.Addr, x)
		case *ssa.MapUpdate:
			add(x.Map, x)
		case *ssa.Call:
			if b, ok := x.Call.Value.(*ssa.Builtin); ok {
				switch b.Name() {
				case "delete", "copy", "clear":
					add(x.Call.Args[0], x)
				}
			}
		}
	})
	return out
}

// computeAll iterates the per-function summaries to a fixpoint over the module.
func (m *mutSummary) computeAll() {
	if m.done[nil] {
		return
	}
	m.done[nil] = true
	fns := m.p.ModFuncs()
	for round := 0; round < 12; round++ {
		changed := false
		for _, f := range fns {
			before := len(m.params[f])*1000 + len(m.global[f])
			m.compute(f, nil)
			if len(m.params[f])*1000+len(m.global[f]) != before {
				changed = true
			}
		}
		if !changed {
			break
		}
	}
}

func (m *mutSummary) compute(fn *ssa.Function, stack map[*ssa.Function]bool) {
	ps := map[int][]writeSite{}
	gs := map[*ssa.Global][]writeSite{}
	record := func(target ssa.Value, ws writeSite) {
		for r := range deepRootsAddr(m.p, target) {
			switch rv := r.(type) {
			case *ssa.Parameter:
				if i := paramIndex(fn, rv); i >= 0 {
					ps[i] = append(ps[i], ws)
				}
			case *ssa.Global:
				gs[rv] = append(gs[rv], ws)
			case *ssa.FreeVar:
				// closure writing a captured variable: attribute to parent at MakeClosure time (below)
			}
		}
	}
	for _, w := range directWrites(fn) {
		// a store directly to a local alloc's own field is local unless the alloc root leads elsewhere
		if ab := allocBase(w.Target); ab != nil {
			continue
		}
		record(w.Target, writeSite{Instr: w.In, Fn: fn, Field: w.Field})
	}
	// calls
	allInstrs(fn, func(in ssa.Instruction) {
		c, ok := in.(ssa.CallInstruction)
		if !ok {
			return
		}
		var callees []*ssa.Function
		if sc := staticCallee(c); sc != nil {
			callees = append(callees, sc)
		} else if m.useCG {
			if n := m.p.CallGraph().Nodes[fn]; n != nil {
				for _, e := range n.Out {
					if e.Site == c {
						callees = append(callees, e.Callee.Func)
					}
				}
			}
		}
		for _, cal := range callees {
			if !m.p.inModule(cal) || len(cal.Blocks) == 0 {
				continue
			}
			args := c.Common().Args
			if c.Common().IsInvoke() {
				args = append([]ssa.Value{c.Common().Value}, args...)
			}
			for pi, sites := range m.params[cal] {
				if pi >= len(args) || len(sites) == 0 {
					continue
				}
				seenF := map[*types.Var]bool{}
				for _, s0 := range sites {
					if seenF[s0.Field] || len(seenF) > 24 {
						continue
					}
					seenF[s0.Field] = true
					record(args[pi], writeSite{Instr: s0.Instr, Fn: s0.Fn, Field: s0.Field, Via: append([]*ssa.Function{cal}, s0.Via...)})
				}
			}
			for g, sites := range m.global[cal] {
				if len(sites) > 0 {
					s0 := sites[0]
					gs[g] = append(gs[g], writeSite{Instr: s0.Instr, Fn: s0.Fn, Field: s0.Field, Via: append([]*ssa.Function{cal}, s0.Via...), Inherited: true})
				}
			}
			// closures passed as arguments / free variables: a closure's writes to captured
			// values are attributed through bindings
		}
		// closure literal called or passed: handle bindings
		for _, a := range c.Common().Args {
			if mc, ok := a.(*ssa.MakeClosure); ok {
				m.closureWrites(fn, mc, record, gs, stack)
			}
		}
		if mc, ok := c.Common().Value.(*ssa.MakeClosure); ok {
			m.closureWrites(fn, mc, record, gs, stack)
		}
	})
	m.params[fn] = ps
	m.global[fn] = gs
}

func (m *mutSummary) closureWrites(fn *ssa.Function, mc *ssa.MakeClosure, record func(ssa.Value, writeSite), gs map[*ssa.Global][]writeSite, stack map[*ssa.Function]bool) {
	cf := mc.Fn.(*ssa.Function)
	for _, w := range directWrites(cf) {
		for r := range rootsOf(w.Target) {
			if fv, ok := r.(*ssa.FreeVar); ok {
				for i, f := range cf.FreeVars {
					if f == fv && i < len(mc.Bindings) {
						record(mc.Bindings[i], writeSite{Instr: w.In, Fn: cf, Field: w.Field})
					}
				}
			}
		}
	}
	for g, sites := range m.global[cf] {
		gs[g] = append(gs[g], sites...)
	}
}

func (m *mutSummary) Params(fn *ssa.Function) map[int][]writeSite {
	m.computeAll()
	return m.params[fn]
}

func (m *mutSummary) Globals(fn *ssa.Function) map[*ssa.Global][]writeSite {
	m.computeAll()
	return m.global[fn]
}

func sortedFuncs(m map[*ssa.Function]bool) []*ssa.Function {
	var fs []*ssa.Function
	for f := range m {
		fs = append(fs, f)
	}
	sort.Slice(fs, func(i, j int) bool { return fs[i].String() < fs[j].String() })
	return fs
}
