package main

import (
	"fmt"
	"go/types"
	"sort"

	"golang.org/x/tools/go/ssa"
)

// ---------------------------------------------------------------------------
// Mutability oracle for the alias rules.
//
// Sharing an object between a clone and its source only matters if somebody can change it
// afterwards.  "Library-mutable" = some exported function or method of the module stores into
// the field (or appends to / updates the slice or map held in the field) of an object it
// RECEIVED (through a parameter or its receiver), directly or in callees — as opposed to an
// object it has just created.  The set is computed from the mutation summaries (flow.go), so it
// follows the call graph.  A type is deep-mutable when it, or anything reachable from it
// through fields, has a library-mutable field.
// ---------------------------------------------------------------------------

type mutOracle struct {
	p      *Program
	fields map[*types.Var]writeSite // field → one witness write reachable from the API
	memo   map[string]string        // type string → "" (immutable) or reason
	kinds  []*types.Named           // body element kinds (dynamic types of Body.Elements)
}

func newMutOracle(p *Program, ms *mutSummary) *mutOracle {
	ms.computeAll()
	o := &mutOracle{p: p, fields: map[*types.Var]writeSite{}, memo: map[string]string{}}
	for _, fn := range p.exportedAPI(pkgDoc, pkgSty, pkgMd) {
		for _, sites := range ms.Params(fn) {
			for _, w := range sites {
				if w.Field == nil {
					continue
				}
				if _, ok := o.fields[w.Field]; !ok {
					o.fields[w.Field] = w
				}
			}
		}
	}
	for n := range bodyKinds(p) {
		o.kinds = append(o.kinds, n)
	}
	sort.Slice(o.kinds, func(i, j int) bool { return o.kinds[i].Obj().Name() < o.kinds[j].Obj().Name() })
	return o
}

// fieldMutable: the field itself is assigned / appended to / updated through a received object.
func (o *mutOracle) fieldMutable(f *types.Var) (string, bool) {
	if w, ok := o.fields[f]; ok {
		return fmt.Sprintf("field %s is written by %s (%s) on an object it did not create", f.Name(), shortName(w.Fn), o.p.pos(w.Instr.Pos())), true
	}
	return "", false
}

// deepMutable: can anything reachable from a value of type t be changed by the library?
func (o *mutOracle) deepMutable(t types.Type) (string, bool) {
	return o.deep(t, map[string]bool{})
}

func (o *mutOracle) deep(t types.Type, visiting map[string]bool) (string, bool) {
	key := t.String()
	if r, ok := o.memo[key]; ok {
		return r, r != ""
	}
	if visiting[key] {
		return "", false
	}
	visiting[key] = true
	reason := ""
	switch x := t.(type) {
	case *types.Pointer:
		reason, _ = o.deep(x.Elem(), visiting)
	case *types.Slice:
		reason, _ = o.deep(x.Elem(), visiting)
	case *types.Array:
		reason, _ = o.deep(x.Elem(), visiting)
	case *types.Map:
		reason, _ = o.deep(x.Elem(), visiting)
	case *types.Named:
		if st, ok := x.Underlying().(*types.Struct); ok {
			if isModStruct(o.p, x) == nil {
				break // foreign struct (sync.Mutex, xml.Name …): not the library's to mutate
			}
			for i := 0; i < st.NumFields() && reason == ""; i++ {
				f := st.Field(i)
				if r, ok := o.fieldMutable(f); ok {
					reason = typeName(x) + ": " + r
					break
				}
				if r, ok := o.deep(f.Type(), visiting); ok {
					reason = r
				}
			}
		} else if _, ok := x.Underlying().(*types.Interface); ok {
			reason, _ = o.deep(x.Underlying(), visiting)
		} else {
			reason, _ = o.deep(x.Underlying(), visiting)
		}
	case *types.Interface:
		// the only interface-typed containers in the model hold body elements
		for _, k := range o.kinds {
			if r, ok := o.deep(k, visiting); ok {
				reason = "element kind " + r
				break
			}
		}
	}
	delete(visiting, key)
	o.memo[key] = reason
	return reason, reason != ""
}

// pointerLikeFields lists the fields of struct type n (recursing into struct-valued fields) whose
// values are shared by a plain struct assignment.
func pointerLikeFields(p *Program, n *types.Named) []*types.Var {
	var out []*types.Var
	seen := map[*types.Named]bool{}
	var visit func(n *types.Named)
	visit = func(n *types.Named) {
		if n == nil || seen[n] {
			return
		}
		seen[n] = true
		st, ok := n.Underlying().(*types.Struct)
		if !ok {
			return
		}
		for i := 0; i < st.NumFields(); i++ {
			f := st.Field(i)
			if isPointerLike(f.Type()) {
				if b, ok := f.Type().Underlying().(*types.Basic); ok && b.Info()&types.IsString != 0 {
					continue
				}
				out = append(out, f)
				continue
			}
			if sn, _ := f.Type().(*types.Named); sn != nil {
				if _, ok := sn.Underlying().(*types.Struct); ok {
					visit(sn)
				}
			}
		}
	}
	visit(n)
	return out
}

// freshStoreToField: does fn (or its closures) store a freshly made value into field f of an
// object that is not the source?  Used to recognise `c := *src; c.F = make(...); copy(c.F, src.F)`.
func freshStoreToField(p *Program, a *cloneAnalysis, fn *ssa.Function, f *types.Var) bool {
	return freshStoreToFieldOf(p, a, fn, f, nil)
}

// freshStoreToFieldOf: as freshStoreToField, restricted to stores into the object `obj` (the local
// struct copy itself): a fresh value given to the same field of ANOTHER object on another path of
// the function does not un-share this copy.
func freshStoreToFieldOf(p *Program, a *cloneAnalysis, fn *ssa.Function, f *types.Var, obj *ssa.Alloc) bool {
	found := false
	for _, g := range withClosures(fn) {
		allInstrs(g, func(in ssa.Instruction) {
			st, ok := in.(*ssa.Store)
			if !ok || found {
				return
			}
			chain, root := addrChain(st.Addr)
			if len(chain) == 0 || chain[len(chain)-1] != f || a.srcDerived(root) {
				return
			}
			if obj != nil && stripLoads(root) != ssa.Value(obj) {
				return
			}
			if isFreshValue(p, st.Val) && !isAppendOfSource(a, st.Val) {
				found = true
			}
		})
	}
	return found
}

// isAppendOfSource: append(x[:0], src...) and append(src[:k], …) reuse the source's array.
func isAppendOfSource(a *cloneAnalysis, v ssa.Value) bool {
	c, ok := stripConv(v).(*ssa.Call)
	if !ok {
		return false
	}
	b, ok := c.Call.Value.(*ssa.Builtin)
	if !ok || b.Name() != "append" || len(c.Call.Args) == 0 {
		return false
	}
	return a.srcDerived(c.Call.Args[0])
}
