package main

// Self-validation of the checker (thorough tier, DESIGN.md §6): a catalogue of seeded variants of
// /repo's source is applied IN MEMORY (go/packages overlay; nothing is written under /repo and
// nothing is executed) and the property's rules are evaluated on each variant in a subprocess.
//
//   breaking variant: must compile and must be reported with the expected obligation key;
//   benign variant  : behaviour-preserving rewrite; the rules must stay silent.
//
// A variant whose anchor text is no longer present exactly once is reported as skipped (the
// repository moved on), never as a violation of the property.  An undetected breaking variant or
// a noisy benign variant fails the thorough run as a CHECKER failure (exit 2), not as a
// property violation.

import (
	"bytes"
	"fmt"
	"os"
	"os/exec"
	"path/filepath"
	"regexp"
	"sort"
	"strings"
	"sync"
)

type Mutant struct {
	Name   string
	Kind   string // breaking | benign
	Prop   string // comma separated property ids
	File   string // relative to repo
	Old    string
	New    string
	Expect string // obligation key expected to be violated (breaking); a trailing * matches a prefix
	Why    string
	// Edits: additional replacements (two cooperating sites)
	More []Edit
	// PatchFile: a unified diff applied in memory instead of Old/New (seeded/ and benign/ patches)
	PatchFile string
	// KnownLimitation: a benign refactoring the rules are known not to see through yet (listed in
	// DESIGN.md Appendix A as open); reported, but does not fail the thorough run
	KnownLimitation bool
}

type Edit struct {
	File, Old, New string
}

func (m Mutant) forProp(prop string) bool {
	for _, p := range strings.Split(m.Prop, ",") {
		if strings.TrimSpace(p) == prop {
			return true
		}
	}
	return false
}

func mutantsFor(prop string) []Mutant {
	var out []Mutant
	for _, m := range mutantCatalogue {
		if m.forProp(prop) {
			out = append(out, m)
		}
	}
	for _, m := range patchMutants(verifDir()) {
		if m.forProp(prop) {
			out = append(out, m)
		}
	}
	return out
}

func mutantOverlay(repo, prop, name string) (map[string][]byte, error) {
	for _, m := range mutantsFor(prop) {
		if m.Name != name {
			continue
		}
		if m.PatchFile != "" {
			b, err := os.ReadFile(m.PatchFile)
			if err != nil {
				return nil, err
			}
			return applyPatch(repo, parseUnifiedDiff(string(b)))
		}
		ov := map[string][]byte{}
		edits := append([]Edit{{m.File, m.Old, m.New}}, m.More...)
		for _, e := range edits {
			abs := filepath.Join(repo, e.File)
			src, ok := ov[abs]
			if !ok {
				b, err := os.ReadFile(abs)
				if err != nil {
					return nil, err
				}
				src = b
			}
			if n := bytes.Count(src, []byte(e.Old)); n != 1 {
				return nil, fmt.Errorf("anchor text of %s occurs %d times in %s (expected exactly once)", name, n, e.File)
			}
			ov[abs] = bytes.Replace(src, []byte(e.Old), []byte(e.New), 1)
		}
		return ov, nil
	}
	return nil, fmt.Errorf("no mutant %q for %s", name, prop)
}

var oblLine = regexp.MustCompile(`(?m)^  rule=\S+ obligation=(.*) site=`)

func runSelfTest(prop, repo string, r *Run) map[string]interface{} {
	ms := mutantsFor(prop)
	type res struct {
		m       Mutant
		status  string // detected | missed | silent | noisy | skipped | broken
		detail  string
		reports []string
	}
	results := make([]res, len(ms))
	var wg sync.WaitGroup
	sem := make(chan struct{}, 8)
	exe, _ := os.Executable()
	for i, m := range ms {
		wg.Add(1)
		go func(i int, m Mutant) {
			defer wg.Done()
			sem <- struct{}{}
			defer func() { <-sem }()
			cmd := exec.Command(exe, "-prop", prop, "-tier", "quick", "-repo", repo, "-mutant", m.Name, "-no-evidence")
			cmd.Env = append(os.Environ(), "WZ_VERIF="+verifDir())
			out, err := cmd.CombinedOutput()
			code := 0
			if ee, ok := err.(*exec.ExitError); ok {
				code = ee.ExitCode()
			} else if err != nil {
				code = -1
			}
			var keys []string
			for _, mm := range oblLine.FindAllStringSubmatch(string(out), -1) {
				keys = append(keys, mm[1])
			}
			rs := res{m: m, reports: keys}
			switch {
			case code == 3:
				rs.status, rs.detail = "skipped", firstLine(out)
			case code < 0 || (code == 2 && (strings.Contains(string(out), "load failed") || strings.Contains(string(out), "checker panic"))):
				rs.status, rs.detail = "broken", "variant could not be analysed (does it compile?): "+lastLines(out, 3)
			case code == 2 && m.Kind == "benign":
				rs.status, rs.detail = "noisy", "the checker could not decide (exit 2): "+lastLines(out, 2)
			case m.Kind == "breaking":
				hit := m.Expect == "*" && len(keys) > 0
				for _, k := range keys {
					if k == m.Expect || (strings.HasSuffix(m.Expect, "*") && strings.HasPrefix(k, strings.TrimSuffix(m.Expect, "*"))) {
						hit = true
					}
				}
				if hit {
					rs.status = "detected"
				} else {
					rs.status, rs.detail = "missed", fmt.Sprintf("expected %s, reported %v", m.Expect, keys)
				}
			default:
				if code == 0 && len(keys) == 0 {
					rs.status = "silent"
				} else {
					rs.status, rs.detail = "noisy", fmt.Sprintf("reported %v", keys)
				}
			}
			results[i] = rs
		}(i, m)
	}
	wg.Wait()
	cnt := map[string]int{}
	var list []map[string]interface{}
	for _, rs := range results {
		cnt[rs.status]++
		e := map[string]interface{}{"name": rs.m.Name, "kind": rs.m.Kind, "file": rs.m.File, "status": rs.status, "why": rs.m.Why}
		if rs.m.Kind == "breaking" {
			e["expect"] = rs.m.Expect
		}
		if rs.detail != "" {
			e["detail"] = rs.detail
		}
		list = append(list, e)
		switch rs.status {
		case "missed":
			if rs.m.KnownLimitation {
				fmt.Printf("SELFTEST-KNOWN-LIMITATION %s: this seeded change is NOT detected by the rules of %s (%s)\n", rs.m.Name, prop, rs.detail)
			} else {
				r.Failures = append(r.Failures, fmt.Sprintf("SELFTEST checker insensitive: breaking variant %s not detected (%s)", rs.m.Name, rs.detail))
			}
		case "noisy":
			if rs.m.KnownLimitation {
				fmt.Printf("SELFTEST-KNOWN-LIMITATION %s: the rules do not see through this refactoring (%s)\n", rs.m.Name, rs.detail)
			} else {
				r.Failures = append(r.Failures, fmt.Sprintf("SELFTEST checker over-sensitive: benign variant %s reported (%s)", rs.m.Name, rs.detail))
			}
		case "broken":
			r.Failures = append(r.Failures, fmt.Sprintf("SELFTEST variant %s: %s", rs.m.Name, rs.detail))
		case "skipped":
			fmt.Printf("SELFTEST-SKIPPED %s: %s\n", rs.m.Name, rs.detail)
		}
	}
	sort.Slice(list, func(i, j int) bool { return list[i]["name"].(string) < list[j]["name"].(string) })
	nb, nn := 0, 0
	for _, m := range ms {
		if m.Kind == "breaking" {
			nb++
		} else {
			nn++
		}
	}
	fmt.Printf("selftest property=%s breaking=%d detected=%d missed=%d benign=%d silent=%d noisy=%d skipped=%d broken=%d\n",
		prop, nb, cnt["detected"], cnt["missed"], nn, cnt["silent"], cnt["noisy"], cnt["skipped"], cnt["broken"])
	return map[string]interface{}{
		"breaking_total": nb, "breaking_detected": cnt["detected"], "benign_total": nn, "benign_silent": cnt["silent"],
		"skipped": cnt["skipped"], "variants": list,
		"method": "each variant = one or two text edits applied through a go/packages overlay (in memory), analysed in its own subprocess; nothing is executed",
	}
}

func firstLine(b []byte) string {
	s := strings.TrimSpace(string(b))
	if i := strings.IndexByte(s, '\n'); i >= 0 {
		s = s[:i]
	}
	return s
}

func lastLines(b []byte, n int) string {
	ls := strings.Split(strings.TrimSpace(string(b)), "\n")
	if len(ls) > n {
		ls = ls[len(ls)-n:]
	}
	return strings.Join(ls, " | ")
}
