package main

type Mutant struct {
	Name   string
	Kind   string // breaking | benign
	Prop   string
	File   string // relative to repo
	Old    string
	New    string
	Expect string // obligation key expected to be violated (breaking)
}

func mutantsFor(prop string) []Mutant { return nil }

func mutantOverlay(repo, prop, name string) (map[string][]byte, error) { return nil, nil }

func runSelfTest(prop, repo string, r *Run) map[string]interface{} { return nil }
