package main

import (
	"fmt"
	"go/token"
	"go/types"
	"os"
	"sort"
	"strconv"
	"strings"

	"golang.org/x/tools/go/ssa"
)

// ---------------------------------------------------------------------------
// Reader model shared by R-SCHEMA-READ / R-SCHEMA-ATTR / R-RUN-CONTAINER.
// ---------------------------------------------------------------------------

type fieldStore struct {
	Field  *types.Var
	Instr  ssa.Instruction
	Fn     *ssa.Function
	Val    ssa.Value // stored value (nil for appends through sub-paths)
	Block  *ssa.BasicBlock
	Direct bool // the store's address is exactly &x.Field (not a sub-field)
}

type readerModel struct {
	P         *Program
	Funcs     []*ssa.Function // reader functions, sorted
	IsReader  map[*ssa.Function]bool
	Stores    map[*ssa.Function][]fieldStore
	ElemCmps  map[*ssa.Function][]StrCmp // comparisons of StartElement.Name.Local
	AttrCmps  map[*ssa.Function][]StrCmp // comparisons of Attr.Name.Local
	Allocs    map[*types.Named]bool      // struct types allocated in reader functions
	allocSite map[*types.Named]token.Pos
}

const xmlPkg = "encoding/xml"

func isStartElemNameLocal(v ssa.Value) bool {
	base, ok := isFieldPath(v, "Name", "Local")
	if !ok || base == nil {
		return false
	}
	return typeIs(base.Type(), xmlPkg, "StartElement")
}

func isAttrNameLocal(v ssa.Value) (ssa.Value, bool) {
	base, ok := isFieldPath(v, "Name", "Local")
	if !ok || base == nil {
		return nil, false
	}
	if typeIs(base.Type(), xmlPkg, "Attr") {
		return base, true
	}
	// attr := &attrs[i]: the selections start at an element address; the access-path root is the slice
	if b2 := baseBefore(v, 2); b2 != nil && typeIs(b2.Type(), xmlPkg, "Attr") {
		return b2, true
	}
	return nil, false
}

func buildReaderModel(p *Program) *readerModel {
	m := &readerModel{P: p, IsReader: map[*ssa.Function]bool{}, Stores: map[*ssa.Function][]fieldStore{},
		ElemCmps: map[*ssa.Function][]StrCmp{}, AttrCmps: map[*ssa.Function][]StrCmp{}, Allocs: map[*types.Named]bool{}, allocSite: map[*types.Named]token.Pos{}}
	root := p.Func(pkgDoc, "(*Document).parseDocument")
	if root == nil {
		return m
	}
	reach := p.staticReach(root)
	for f := range reach {
		if f.Pkg == nil || f.Pkg.Pkg.Path() != pkgDoc {
			continue
		}
		// reader function: takes a *xml.Decoder, or is the root, or handles xml.Attr
		isR := f == root
		for _, par := range f.Params {
			if typeIs(par.Type(), xmlPkg, "Decoder") {
				isR = true
			}
			if s, ok := par.Type().Underlying().(*types.Slice); ok && typeIs(s.Elem(), xmlPkg, "Attr") {
				isR = true
			}
			// a helper that is handed the start tag itself (applyXxxElement(props, t xml.StartElement))
			if typeIs(par.Type(), xmlPkg, "StartElement") {
				isR = true
			}
		}
		if isR {
			m.IsReader[f] = true
			m.Funcs = append(m.Funcs, f)
		}
	}
	sort.Slice(m.Funcs, func(i, j int) bool { return m.Funcs[i].Pos() < m.Funcs[j].Pos() })
	defer func() {
		// a struct embedded by value in a constructed struct is constructed with it
		for changed := true; changed; {
			changed = false
			for n := range m.Allocs {
				st, _ := n.Underlying().(*types.Struct)
				if st == nil {
					continue
				}
				for i := 0; i < st.NumFields(); i++ {
					ft := st.Field(i).Type()
					if fn, ok := ft.(*types.Named); ok {
						if _, isSt := fn.Underlying().(*types.Struct); isSt && !m.Allocs[fn] {
							m.Allocs[fn] = true
							changed = true
						}
					}
				}
			}
		}
	}()
	for _, f := range m.Funcs {
		for _, c := range strCompares(f) {
			if isStartElemNameLocal(c.Operand) || paramIsElemName(p, f, c.Operand) {
				m.ElemCmps[f] = append(m.ElemCmps[f], c)
			} else if _, ok := isAttrNameLocal(c.Operand); ok {
				m.AttrCmps[f] = append(m.AttrCmps[f], c)
			}
		}
		allInstrs(f, func(in ssa.Instruction) {
			switch x := in.(type) {
			case ssa.CallInstruction:
				// a generic reader helper constructs values of its type arguments (new(E), var v E)
				if cal := staticCallee(x); cal != nil && m.IsReader[cal] {
					for _, ta := range typeArgsOfCall(x) {
						if n, st := structOf(ta); n != nil && st != nil {
							m.Allocs[n] = true
							if _, ok := m.allocSite[n]; !ok {
								m.allocSite[n] = x.Pos()
							}
						}
					}
				}
			case *ssa.Alloc:
				if n, st := structOf(x.Type()); n != nil && st != nil {
					if _, isArr := derefType(x.Type()).Underlying().(*types.Array); !isArr {
						m.Allocs[n] = true
						if _, ok := m.allocSite[n]; !ok {
							m.allocSite[n] = x.Pos()
						}
					}
				}
			case *ssa.Store:
				chain, _ := addrChain(x.Addr)
				for i, fv := range chain {
					if fv == nil {
						continue
					}
					m.Stores[f] = append(m.Stores[f], fieldStore{Field: fv, Instr: x, Fn: f, Val: x.Val, Block: x.Block(), Direct: i == len(chain)-1 && isDirectFieldAddr(x.Addr)})
				}
				// a store through a slot chosen per element name (var slot **T; case "top": slot = &b.Top …;
				// *slot = v): one store per alternative, located where the alternative was chosen
				if ph, ok := x.Addr.(*ssa.Phi); ok {
					for ei, e := range ph.Edges {
						if ei >= len(ph.Block().Preds) {
							continue
						}
						ch, _ := addrChain(e)
						for i, fv := range ch {
							if fv == nil {
								continue
							}
							m.Stores[f] = append(m.Stores[f], fieldStore{Field: fv, Instr: x, Fn: f, Val: x.Val, Block: ph.Block().Preds[ei], Direct: i == len(ch)-1 && isDirectFieldAddr(e)})
						}
					}
				}
			}
		})
	}
	return m
}

// paramIsElemName: v is a string parameter of f that receives the local name of a start tag —
// f is called with t.Name.Local in that position, or f is a function literal handed to a driver
// that calls its function-valued parameter with t.Name.Local there
// (parseChildren(dec, "pBdr", func(name string, attrs []xml.Attr) { switch name { … } })).
func paramIsElemName(p *Program, f *ssa.Function, v ssa.Value) bool {
	par, ok := v.(*ssa.Parameter)
	if !ok || par.Parent() != f || !isStringType(par.Type()) {
		return false
	}
	pi := paramIndex(f, par)
	if pi < 0 {
		return false
	}
	// direct static calls
	for _, cs := range staticCallSites(p, f) {
		args := cs.Common().Args
		if pi < len(args) && isStartElemNameLocal(args[pi]) {
			return true
		}
	}
	// a function literal passed on: find where the enclosing function hands it over
	encl := f.Parent()
	if encl == nil {
		return false
	}
	found := false
	allInstrs(encl, func(in ssa.Instruction) {
		mc, ok := in.(*ssa.MakeClosure)
		if !ok || mc.Fn != ssa.Value(f) || mc.Referrers() == nil {
			return
		}
		for _, u := range *mc.Referrers() {
			call, ok := u.(ssa.CallInstruction)
			if !ok {
				continue
			}
			g := staticCallee(call)
			if g == nil || !p.inModule(g) {
				continue
			}
			for ai, a := range call.Common().Args {
				if a != ssa.Value(mc) || ai >= len(g.Params) {
					continue
				}
				fp := g.Params[ai]
				allInstrs(g, func(in2 ssa.Instruction) {
					c2, ok := in2.(ssa.CallInstruction)
					if !ok || c2.Common().Value != ssa.Value(fp) {
						return
					}
					// a closure has no receiver: parameter index = argument index
					if pi < len(c2.Common().Args) && isStartElemNameLocal(c2.Common().Args[pi]) {
						found = true
					}
				})
			}
		}
	})
	return found
}

func isDirectFieldAddr(v ssa.Value) bool {
	_, ok := v.(*ssa.FieldAddr)
	return ok
}

// prologueStores: stores of callee that are outside every element-name region of the callee.
func (m *readerModel) prologueStores(f *ssa.Function) []fieldStore {
	var out []fieldStore
	for _, s := range m.Stores[f] {
		in := false
		for _, c := range m.ElemCmps[f] {
			if c.Region[s.Block] {
				in = true
				break
			}
		}
		if !in {
			out = append(out, s)
		}
	}
	return out
}

// storesInRegion: stores to fields inside the region, plus prologue stores of reader
// functions called (statically) from the region.
func (m *readerModel) storesInRegion(f *ssa.Function, region map[*ssa.BasicBlock]bool) []fieldStore {
	var out []fieldStore
	for _, s := range m.Stores[f] {
		if region[s.Block] {
			out = append(out, s)
		}
	}
	for b := range region {
		for _, in := range b.Instrs {
			if c, ok := in.(ssa.CallInstruction); ok {
				if cal := staticCallee(c); cal != nil && m.IsReader[cal] {
					out = append(out, m.prologueStores(cal)...)
				}
			}
		}
	}
	return out
}

// ---------------------------------------------------------------------------
// Writer schema: struct types reachable from the body element kinds.
// ---------------------------------------------------------------------------

type schemaField struct {
	Owner *types.Named
	Var   *types.Var
	Tag   XMLTag
	Index int
}

type writerSchema struct {
	Roots   []*types.Named
	Structs []*types.Named
	Fields  map[*types.Named][]schemaField
	Parent  map[*types.Named][]schemaField // fields that lead to the struct
}

// bodyKinds: named struct types converted to interface and appended to Body.Elements anywhere
// in the module (the kinds the API can put into a body).
func bodyKinds(p *Program) map[*types.Named]token.Pos {
	kinds := map[*types.Named]token.Pos{}
	bodyT := p.Named(pkgDoc, "Body")
	for _, fn := range p.ModFuncs() {
		allInstrs(fn, func(in ssa.Instruction) {
			mi, ok := in.(*ssa.MakeInterface)
			if !ok {
				return
			}
			n, st := structOf(mi.X.Type())
			if n == nil || st == nil || n.Obj().Pkg() == nil || !strings.HasPrefix(n.Obj().Pkg().Path(), modPath) {
				return
			}
			if _, isSlice := mi.X.Type().Underlying().(*types.Slice); isSlice {
				return
			}
			hit := false
			for use := range forwardFlow(mi, nil) {
				if st, ok := use.(*ssa.Store); ok {
					chain, _ := addrChain(st.Addr)
					for _, fv := range chain {
						if fv != nil && fv.Name() == "Elements" && bodyT != nil {
							if owner := fieldOwner(p, fv); owner == bodyT {
								hit = true
							}
						}
					}
				}
			}
			if hit {
				if _, ok := kinds[n]; !ok {
					kinds[n] = instrPos(mi)
				}
			}
		})
	}
	return kinds
}

var fieldOwnerCache = map[*types.Var]*types.Named{}

// fieldOwner finds the named struct type declaring field fv (module packages only).
func fieldOwner(p *Program, fv *types.Var) *types.Named {
	if n, ok := fieldOwnerCache[fv]; ok {
		return n
	}
	var res *types.Named
	if fv.Pkg() != nil {
		if pk := p.Pkgs[fv.Pkg().Path()]; pk != nil {
			sc := pk.Types.Scope()
			for _, name := range sc.Names() {
				if tn, ok := sc.Lookup(name).(*types.TypeName); ok {
					if st, ok := tn.Type().Underlying().(*types.Struct); ok {
						for i := 0; i < st.NumFields(); i++ {
							if st.Field(i) == fv {
								res, _ = tn.Type().(*types.Named)
							}
						}
					}
				}
			}
		}
	}
	fieldOwnerCache[fv] = res
	return res
}

func buildWriterSchema(p *Program, roots []*types.Named) *writerSchema {
	ws := &writerSchema{Fields: map[*types.Named][]schemaField{}, Parent: map[*types.Named][]schemaField{}}
	seen := map[*types.Named]bool{}
	var visit func(n *types.Named)
	visit = func(n *types.Named) {
		if n == nil || seen[n] {
			return
		}
		st, ok := n.Underlying().(*types.Struct)
		if !ok || n.Obj().Pkg() == nil || !strings.HasPrefix(n.Obj().Pkg().Path(), modPath) {
			return
		}
		seen[n] = true
		ws.Structs = append(ws.Structs, n)
		for i := 0; i < st.NumFields(); i++ {
			fv := st.Field(i)
			tag := parseXMLTag(st.Tag(i))
			if fv.Name() == "XMLName" || tag.Skip {
				continue
			}
			sf := schemaField{Owner: n, Var: fv, Tag: tag, Index: i}
			ws.Fields[n] = append(ws.Fields[n], sf)
			if cn, cst := structOf(fv.Type()); cn != nil && cst != nil {
				ws.Parent[cn] = append(ws.Parent[cn], sf)
				visit(cn)
			}
		}
	}
	for _, r := range roots {
		ws.Roots = append(ws.Roots, r)
		visit(r)
	}
	return ws
}

func hasDataFields(ws *writerSchema, n *types.Named) bool {
	for _, f := range ws.Fields[n] {
		if strings.HasPrefix(f.Tag.Name, "xmlns") {
			continue
		}
		return true
	}
	return false
}

func isNamespaceDecl(t XMLTag) bool {
	return t.Attr && (strings.HasPrefix(t.Name, "xmlns") || t.Name == "xmlns")
}

// ---------------------------------------------------------------------------
// R-SCHEMA-READ / R-SCHEMA-ATTR
// ---------------------------------------------------------------------------

func ruleSchema(r *Run) {
	p := r.P
	m := buildReaderModel(p)
	if len(m.Funcs) == 0 {
		r.Unresolved("document.(*Document).parseDocument (reader root)")
		return
	}
	r.Min("reader_functions", len(m.Funcs), 30)

	kinds := bodyKinds(p)
	var roots []*types.Named
	for n := range kinds {
		roots = append(roots, n)
	}
	sort.Slice(roots, func(i, j int) bool { return roots[i].Obj().Name() < roots[j].Obj().Name() })
	r.Min("body_element_kinds", len(roots), 3)
	ws := buildWriterSchema(p, roots)
	r.Count("writer_structs", len(ws.Structs))

	// the writer only writes exported fields: an XML tag on an unexported field is dead
	for _, n := range ws.Structs {
		for _, sf := range ws.Fields[n] {
			if !sf.Var.Exported() {
				r.Trivial("schema-exported", typeName(n)+"."+sf.Var.Name(), sf.Var.Pos(), false,
					fmt.Sprintf("field %s.%s carries the XML tag %q but is unexported: encoding/xml neither writes nor reads it, so the value set through the API never reaches the saved part", typeName(n), sf.Var.Name(), sf.Tag.Name))
			}
		}
	}

	// body kinds must be produced by the reader
	rootViol := map[*types.Named]bool{}
	for _, n := range roots {
		ok := m.Allocs[n]
		r.Check("schema-body", typeName(n), kinds[n], ok,
			fmt.Sprintf("body element kind %s is put into Body.Elements by the API (e.g. %s); reader constructs it: %v", typeName(n), p.pos(kinds[n]), ok))
		if !ok {
			rootViol[n] = true
		}
	}

	// element-field coverage: collect (field, const) pairs per region
	type cov struct {
		fn  *ssa.Function
		pos token.Pos
	}
	elemCov := map[*types.Var]map[string]cov{}
	for _, f := range m.Funcs {
		for _, c := range m.ElemCmps[f] {
			for _, s := range m.storesInRegion(f, c.Region) {
				if elemCov[s.Field] == nil {
					elemCov[s.Field] = map[string]cov{}
				}
				if _, ok := elemCov[s.Field][c.Const]; !ok {
					elemCov[s.Field][c.Const] = cov{f, s.Instr.Pos()}
				}
			}
		}
	}

	// A reader helper may hand the child back instead of storing it (`align, offset, err :=
	// d.parsePosition(decoder, ...)`; the caller stores the results into the parent it builds).  The
	// field is then covered under the element name in whose region of the *helper* the returned
	// value is produced.
	for _, f := range m.Funcs {
		for _, s := range m.Stores[f] {
			if !s.Direct || s.Val == nil {
				continue
			}
			for _, o := range returnedOrigins(m, s.Val, 0) {
				for _, c := range m.ElemCmps[o.fn] {
					if c.Region[o.blk] {
						if elemCov[s.Field] == nil {
							elemCov[s.Field] = map[string]cov{}
						}
						if _, ok := elemCov[s.Field][c.Const]; !ok {
							elemCov[s.Field][c.Const] = cov{o.fn, o.pos}
						}
					}
				}
			}
		}
	}

	// A reader may be table driven: a map from child element names to the addresses of the fields
	// of the struct under construction (slots := map[string]**T{"top": &b.Top, ...}), handed to a
	// driver that looks the start tag's local name up in it and stores through the slot it finds.
	for _, f := range m.Funcs {
		allInstrs(f, func(in ssa.Instruction) {
			mu, ok := in.(*ssa.MapUpdate)
			if !ok {
				return
			}
			key, isC := constString(mu.Key)
			if !isC {
				return
			}
			ch, _ := addrChain(mu.Value)
			if len(ch) == 0 || ch[len(ch)-1] == nil {
				return
			}
			if _, isAddr := mu.Value.(*ssa.FieldAddr); !isAddr {
				return
			}
			if !dispatchedByElementName(m, f, mu.Map, 0) {
				return
			}
			fv := ch[len(ch)-1]
			if elemCov[fv] == nil {
				elemCov[fv] = map[string]cov{}
			}
			if _, ok := elemCov[fv][key]; !ok {
				elemCov[fv][key] = cov{f, mu.Pos()}
			}
		})
	}

	// …or a slot selector: a helper that is handed the element name and the addresses of several
	// fields and returns the address that goes with the name
	// (slot := boxSide(t.Name.Local, &b.Top, &b.Left, &b.Bottom, &b.Right); *slot = v)
	for _, f := range m.Funcs {
		allInstrs(f, func(in ssa.Instruction) {
			c, ok := in.(*ssa.Call)
			if !ok {
				return
			}
			h := staticCallee(c)
			if h == nil || !p.inModule(h) || len(h.Blocks) == 0 || h.Signature.Results().Len() != 1 {
				return
			}
			if _, isPtr := h.Signature.Results().At(0).Type().Underlying().(*types.Pointer); !isPtr {
				return
			}
			// the result is stored through (directly or after a phi with other slots)
			storedThrough := false
			seenV := map[ssa.Value]bool{}
			var follow func(v ssa.Value, d int)
			follow = func(v ssa.Value, d int) {
				if d > 3 || seenV[v] || v.Referrers() == nil {
					return
				}
				seenV[v] = true
				for _, u := range *v.Referrers() {
					switch y := u.(type) {
					case *ssa.Store:
						if y.Addr == v {
							storedThrough = true
						}
					case *ssa.Phi:
						follow(y, d+1)
					}
				}
			}
			follow(c, 0)
			if !storedThrough {
				return
			}
			for _, cmp := range strCompares(h) {
				sp, ok := cmp.Operand.(*ssa.Parameter)
				if !ok || sp.Parent() != h {
					continue
				}
				si := paramIndex(h, sp)
				if si < 0 || si >= len(c.Call.Args) {
					continue
				}
				if !isStartElemNameLocal(c.Call.Args[si]) && !paramIsElemName(p, f, c.Call.Args[si]) {
					continue
				}
				for b := range cmp.Region {
					for _, in2 := range b.Instrs {
						ret, ok := in2.(*ssa.Return)
						if !ok || len(ret.Results) != 1 {
							continue
						}
						pp, ok := ret.Results[0].(*ssa.Parameter)
						if !ok {
							continue
						}
						pj := paramIndex(h, pp)
						if pj < 0 || pj >= len(c.Call.Args) {
							continue
						}
						fa, ok := c.Call.Args[pj].(*ssa.FieldAddr)
						if !ok {
							continue
						}
						fv, _ := fieldOfAddr(fa)
						if fv == nil {
							continue
						}
						if elemCov[fv] == nil {
							elemCov[fv] = map[string]cov{}
						}
						if _, ok := elemCov[fv][cmp.Const]; !ok {
							elemCov[fv][cmp.Const] = cov{f, c.Pos()}
						}
					}
				}
			}
		})
	}

	// attribute stores: trace stored values to attribute lookups
	type attrSrc struct {
		name string
		pos  token.Pos
		fn   *ssa.Function
	}
	attrStores := map[*types.Var][]attrSrc{}
	anyStore := map[*types.Var]bool{}
	for _, f := range m.Funcs {
		for _, s := range m.Stores[f] {
			if !s.Direct {
				continue
			}
			anyStore[s.Field] = true
			for _, name := range attrNamesOf(m, f, s) {
				attrStores[s.Field] = append(attrStores[s.Field], attrSrc{name, s.Instr.Pos(), f})
			}
		}
	}

	// violated[T] = some field leading to T is itself a violation (T's obligations are subsumed)
	violatedField := map[*types.Var]bool{}
	// A struct obtained by converting another struct type with identical fields
	// (TableCellBorder(parseBorderAttributes(attrs))) is filled field by field from the source type.
	for _, f := range m.Funcs {
		allInstrs(f, func(in ssa.Instruction) {
			ct, ok := in.(*ssa.ChangeType)
			if !ok {
				return
			}
			from, fst := structOf(ct.X.Type())
			to, tst := structOf(ct.Type())
			if from == nil || to == nil || fst == nil || tst == nil || from == to || fst.NumFields() != tst.NumFields() {
				return
			}
			m.Allocs[to] = true
			for i := 0; i < fst.NumFields(); i++ {
				a, b := fst.Field(i), tst.Field(i)
				attrStores[b] = append(attrStores[b], attrStores[a]...)
				if anyStore[a] {
					anyStore[b] = true
				}
			}
		})
	}

	nElem, nAttr, nSub := 0, 0, 0
	// process structs in BFS order (ws.Structs is DFS preorder from roots: parents first)
	subsumed := map[*types.Named]bool{}
	for n := range rootViol {
		subsumed[n] = true
	}
	for _, n := range ws.Structs {
		if !m.Allocs[n] || subsumed[n] {
			// not constructed by the reader: every obligation of n is subsumed if a parent is violated/subsumed
			parentBad := subsumed[n]
			for _, pf := range ws.Parent[n] {
				if violatedField[pf.Var] || subsumed[pf.Owner] {
					parentBad = true
				}
			}
			if !hasDataFields(ws, n) {
				continue
			}
			if parentBad || rootViol[n] {
				subsumed[n] = true
				nSub += len(ws.Fields[n])
				continue
			}
			// constructed nowhere, but parents look fine → constructed via a path we do not see
			if !m.Allocs[n] {
				// find whether any parent field is covered; if covered by a value we cannot see, undecided
				r.Undecided("schema-read", typeName(n)+".<construct>", n.Obj().Pos(),
					"struct is reachable in the writer schema, its parent fields are read, but no reader function constructs it")
				continue
			}
		}
		for _, sf := range ws.Fields[n] {
			key := n.Obj().Name() + "." + sf.Var.Name()
			if n.Obj().Pkg().Path() != pkgDoc {
				key = typeName(n) + "." + sf.Var.Name()
			}
			switch {
			case isNamespaceDecl(sf.Tag):
				continue
			case sf.Tag.Attr:
				nAttr++
				srcs := attrStores[sf.Var]
				good, bad := 0, []string{}
				for _, s := range srcs {
					if s.name == sf.Tag.Local || s.name == sf.Tag.Name {
						good++
					} else if strings.HasPrefix(s.name, "=constant ") {
						bad = append(bad, fmt.Sprintf("a made-up value (%s, merged with the attribute's value at %s)", strings.TrimPrefix(s.name, "=constant "), p.pos(s.pos)))
					} else {
						bad = append(bad, fmt.Sprintf("%q at %s", s.name, p.pos(s.pos)))
					}
				}
				switch {
				case len(bad) > 0:
					r.Check("schema-attr", key, sf.Var.Pos(), false,
						fmt.Sprintf("attribute field %s (xml %q) is filled from attribute(s) %s — name differs from the writer's tag", key, sf.Tag.Name, strings.Join(bad, ", ")))
				case good == 0:
					r.Check("schema-attr", key, sf.Var.Pos(), false,
						fmt.Sprintf("attribute field %s (xml %q) is written by the marshaller but no reader function fills it from attribute %q", key, sf.Tag.Name, sf.Tag.Local))
				default:
					r.Check("schema-attr", key, sf.Var.Pos(), true, fmt.Sprintf("filled from attribute %q at %d site(s)", sf.Tag.Local, good))
				}
			case sf.Tag.CharData || sf.Tag.InnerXML:
				nElem++
				r.Check("schema-chardata", key, sf.Var.Pos(), anyStore[sf.Var],
					fmt.Sprintf("character-data field %s must be stored by the reader", key))
			default:
				nElem++
				c, ok := elemCov[sf.Var][sf.Tag.Local]
				detail := ""
				if cn, _ := structOf(sf.Var.Type()); !ok && cn != nil && !hasDataFields(ws, cn) && len(elemCov[sf.Var]) > 0 {
					// a child without any data is covered when the reader rebuilds it with its parent
					for _, c2 := range elemCov[sf.Var] {
						c, ok = c2, true
					}
					detail = fmt.Sprintf("data-less child <%s> rebuilt with its parent in %s", sf.Tag.Local, shortName(c.fn))
					r.Check("schema-read", key, sf.Var.Pos(), true, detail)
					continue
				}
				if ok {
					detail = fmt.Sprintf("element <%s> handled in %s (%s)", sf.Tag.Local, shortName(c.fn), p.pos(c.pos))
				} else {
					others := []string{}
					for k := range elemCov[sf.Var] {
						others = append(others, k)
					}
					sort.Strings(others)
					detail = fmt.Sprintf("field %s is written as <%s> but no reader case for %q stores into it", key, sf.Tag.Name, sf.Tag.Local)
					if len(others) > 0 {
						detail += fmt.Sprintf(" (it is stored under element name(s) %v)", others)
					}
					violatedField[sf.Var] = true
				}
				r.Check("schema-read", key, sf.Var.Pos(), ok, detail)
			}
		}
	}
	// While reading, an attribute field is only ever filled from its own attribute: a helper the
	// reader calls must not rewrite it from a sibling field ("normalising" w and h on open changes
	// what the writer wrote, and the next save writes something else again).
	if root := p.Func(pkgDoc, "(*Document).parseDocument"); root != nil {
		for _, g := range sortedFuncs(p.staticReach(root)) {
			if g.Pkg == nil || g.Pkg.Pkg.Path() != pkgDoc {
				continue
			}
			allInstrs(g, func(in ssa.Instruction) {
				st, ok := in.(*ssa.Store)
				if !ok {
					return
				}
				fa, ok := st.Addr.(*ssa.FieldAddr)
				if !ok {
					return
				}
				fv, _ := fieldOfAddr(fa)
				owner := fieldOwner(p, fv)
				if fv == nil || owner == nil {
					return
				}
				isAttr := false
				for _, sf := range ws.Fields[owner] {
					if sf.Var == fv && sf.Tag.Attr {
						isAttr = true
					}
				}
				if !isAttr {
					return
				}
				// value loaded from another field of the same struct type
				var src *types.Var
				switch x := st.Val.(type) {
				case *ssa.UnOp:
					if x.Op == token.MUL {
						if fa2, ok := x.X.(*ssa.FieldAddr); ok {
							src, _ = fieldOfAddr(fa2)
						}
					}
				case *ssa.Field:
					src, _ = fieldOfVal(x)
				}
				if src == nil || src == fv || fieldOwner(p, src) != owner {
					return
				}
				r.Check("schema-attr", owner.Obj().Name()+"."+fv.Name()+":cross-store:"+shortName(topLevel(g)), st.Pos(), false,
					fmt.Sprintf("while a document is opened, %s stores the value of %s.%s into the attribute field %s.%s: what was read from the file is replaced by something the reader made up from another attribute", shortName(topLevel(g)), owner.Obj().Name(), src.Name(), owner.Obj().Name(), fv.Name()))
			})
		}
	}
	r.Min("element_field_obligations", nElem, 60)
	r.Min("attribute_field_obligations", nAttr, 100)
	r.Count("subsumed_obligations", nSub)
}

// attrNamesOf: names of the XML attributes the stored value comes from.
func attrNamesOf(m *readerModel, f *ssa.Function, s fieldStore) []string {
	return attrNamesFrom(m, f, s.Val, s.Block, 0)
}

// attrNamesFrom: the attribute names whose looked-up values may flow into val (evaluated in
// block blk of f).  A module helper that receives the attribute list and returns looked-up values
// (possibly several: `typ, id := refAttrs(t.Attr)`) is followed into its return statements.
func attrNamesFrom(m *readerModel, f *ssa.Function, val ssa.Value, blk *ssa.BasicBlock, hops int) []string {
	s := struct {
		Val   ssa.Value
		Block *ssa.BasicBlock
	}{val, blk}
	var names []string
	seen := map[ssa.Value]bool{}
	viaHelper := func(c *ssa.Call, idx int) {
		cal := staticCallee(c)
		if cal == nil || hops > 2 || len(cal.Blocks) == 0 || cal.Pkg == nil || !strings.HasPrefix(cal.Pkg.Pkg.Path(), modPath) {
			return
		}
		takesAttrs := false
		for _, p := range cal.Params {
			if sl, ok := p.Type().Underlying().(*types.Slice); ok && typeIs(sl.Elem(), xmlPkg, "Attr") {
				takesAttrs = true
			}
		}
		if !takesAttrs {
			return
		}
		for _, b := range cal.Blocks {
			for _, in := range b.Instrs {
				if ret, ok := in.(*ssa.Return); ok && idx < len(ret.Results) {
					names = append(names, attrNamesFrom(m, cal, ret.Results[idx], b, hops+1)...)
				}
			}
		}
	}
	// viaHelperField: field `field` of the struct a module helper (given the attribute list) returns
	viaHelperField := func(c *ssa.Call, field int) {
		cal := staticCallee(c)
		if cal == nil || hops > 2 || len(cal.Blocks) == 0 || cal.Pkg == nil || !strings.HasPrefix(cal.Pkg.Pkg.Path(), modPath) {
			return
		}
		for _, b := range cal.Blocks {
			for _, in := range b.Instrs {
				ret, ok := in.(*ssa.Return)
				if !ok || len(ret.Results) == 0 {
					continue
				}
				// return T{...}: a composite literal built in a local and loaded
				if ld, ok := ret.Results[0].(*ssa.UnOp); ok && ld.Op == token.MUL {
					if al, ok := ld.X.(*ssa.Alloc); ok && al.Referrers() != nil {
						for _, u := range *al.Referrers() {
							if fa, ok := u.(*ssa.FieldAddr); ok && fa.Field == field && fa.Referrers() != nil {
								for _, u2 := range *fa.Referrers() {
									if st, ok := u2.(*ssa.Store); ok && st.Addr == fa {
										names = append(names, attrNamesFrom(m, cal, st.Val, st.Block(), hops+1)...)
									}
								}
							}
						}
					}
				}
			}
		}
	}
	var walk func(v ssa.Value, depth int)
	walk = func(v ssa.Value, depth int) {
		if v == nil || seen[v] || depth > 8 {
			return
		}
		seen[v] = true
		switch x := v.(type) {
		case *ssa.Call:
			cal := staticCallee(x)
			if cal != nil && isAttrLookupFunc(cal) {
				for _, a := range x.Call.Args {
					if cs, ok := constString(a); ok {
						names = append(names, cs)
					}
				}
			} else if cal != nil {
				viaHelper(x, 0)
			}
		case *ssa.Extract:
			if c, ok := x.Tuple.(*ssa.Call); ok {
				viaHelper(c, x.Index)
			}
		case *ssa.Phi:
			for _, e := range x.Edges {
				// a non-empty constant merged with the looked-up value: on some path the reader stores a
				// value it made up instead of what the attribute says (or of nothing)
				if cs, ok := constString(e); ok && cs != "" {
					names = append(names, "=constant "+strconv.Quote(cs))
				}
				walk(e, depth+1)
			}
		case *ssa.Field:
			// attr.Value inside the region of attr.Name.Local == C
			if fv, base := fieldOfVal(x); fv != nil && fv.Name() == "Value" && typeIs(base.Type(), xmlPkg, "Attr") {
				for _, c := range m.AttrCmps[f] {
					if ab, ok := isAttrNameLocal(c.Operand); ok && sameBase(ab, base) && (c.Region[s.Block] || c.Region[x.Block()]) {
						names = append(names, c.Const)
					}
				}
			}
			// a field of a struct of looked-up values handed back by a helper (a := readAttrs(t.Attr); a.val)
			if c, ok := x.X.(*ssa.Call); ok {
				viaHelperField(c, x.Field)
			}
			if ld, ok := x.X.(*ssa.UnOp); ok && ld.Op == token.MUL {
				if al, ok := ld.X.(*ssa.Alloc); ok {
					for _, c := range wholeStoresOfCalls(al) {
						viaHelperField(c, x.Field)
					}
				}
			}
		case *ssa.UnOp:
			if x.Op == token.MUL {
				// load of a local variable: follow stores to the alloc; load of &attr.Value
				if fa, ok := x.X.(*ssa.FieldAddr); ok {
					if fv, base := fieldOfAddr(fa); fv != nil && fv.Name() == "Value" && typeIs(base.Type(), xmlPkg, "Attr") {
						for _, c := range m.AttrCmps[f] {
							if ab, ok := isAttrNameLocal(c.Operand); ok && sameBase(ab, base) && (c.Region[s.Block] || c.Region[x.Block()]) {
								names = append(names, c.Const)
							}
						}
					}
					// a.val where the local struct a holds a helper's result
					if al, ok := fa.X.(*ssa.Alloc); ok {
						for _, c := range wholeStoresOfCalls(al) {
							viaHelperField(c, fa.Field)
						}
					}
				}
				if al, ok := x.X.(*ssa.Alloc); ok {
					if refs := al.Referrers(); refs != nil {
						for _, in := range *refs {
							if st, ok := in.(*ssa.Store); ok && st.Addr == al {
								walk(st.Val, depth+1)
							}
						}
					}
				}
			}
		}
	}
	walk(s.Val, 0)
	if os.Getenv("WZ_DEBUG_ATTR") != "" {
		fmt.Fprintf(os.Stderr, "attrNamesFrom %s val=%v (%T) hops=%d -> %v (attrcmps=%d)\n", f.Name(), val, val, hops, names, len(m.AttrCmps[f]))
	}
	return names
}

// isAttrLookupFunc: module function (attrs []xml.Attr, name string) string whose body compares
// attr.Name.Local with the name parameter and returns attr.Value.
func isAttrLookupFunc(f *ssa.Function) bool {
	if len(f.Params) != 2 || f.Signature.Results().Len() != 1 {
		return false
	}
	s, ok := f.Params[0].Type().Underlying().(*types.Slice)
	if !ok || !typeIs(s.Elem(), xmlPkg, "Attr") {
		return false
	}
	cmp := false
	allInstrs(f, func(in ssa.Instruction) {
		if b, ok := in.(*ssa.BinOp); ok && b.Op == token.EQL {
			if _, ok := isAttrNameLocal(b.X); ok && b.Y == ssa.Value(f.Params[1]) {
				cmp = true
			}
			if _, ok := isAttrNameLocal(b.Y); ok && b.X == ssa.Value(f.Params[1]) {
				cmp = true
			}
		}
	})
	return cmp
}

// ---------------------------------------------------------------------------
// R-MARSHAL-COVER: hand-written MarshalXML methods encode every tagged field.
// ---------------------------------------------------------------------------

func ruleMarshalCover(r *Run) {
	p := r.P
	n := 0
	for _, pkgPath := range []string{pkgDoc, pkgMd, pkgSty} {
		pk := p.Pkgs[pkgPath]
		sc := pk.Types.Scope()
		for _, name := range sc.Names() {
			tn, ok := sc.Lookup(name).(*types.TypeName)
			if !ok {
				continue
			}
			named, _ := tn.Type().(*types.Named)
			st, _ := tn.Type().Underlying().(*types.Struct)
			if named == nil || st == nil {
				continue
			}
			var fn *ssa.Function
			for _, t := range []types.Type{types.NewPointer(named), named} {
				if sel := p.SSA.MethodSets.MethodSet(t).Lookup(pk.Types, "MarshalXML"); sel != nil {
					fn = p.SSA.MethodValue(sel)
					break
				}
			}
			if fn == nil || !p.inModule(fn) || len(fn.Params) == 0 {
				continue
			}
			n++
			recv := fn.Params[0]
			for i := 0; i < st.NumFields(); i++ {
				fv := st.Field(i)
				tag := parseXMLTag(st.Tag(i))
				if fv.Name() == "XMLName" {
					continue
				}
				if tag.Skip && !(named.Obj().Name() == "Body" && fv.Name() == "Elements") && !(fv.Name() == "Content" || fv.Name() == "Elements") {
					continue
				}
				if tag.Attr {
					// attributes must reach the start element: any use that flows into EncodeToken/EncodeElement
				}
				encoded := false
				allInstrs(fn, func(in ssa.Instruction) {
					var acc ssa.Value
					switch x := in.(type) {
					case *ssa.FieldAddr:
						if f2, base := fieldOfAddr(x); f2 == fv && stripLoads(base) == ssa.Value(recv) {
							acc = x
						}
					case *ssa.Field:
						if f2, base := fieldOfVal(x); f2 == fv && stripLoads(base) == ssa.Value(recv) {
							acc = x
						}
					}
					if acc == nil || encoded {
						return
					}
					for use := range forwardFlow(acc, nil) {
						if c, ok := use.(ssa.CallInstruction); ok {
							cn := calleeName(c)
							if strings.Contains(cn, "encoding/xml.Encoder).Encode") || strings.Contains(cn, "MarshalXML") {
								encoded = true
							}
						}
					}
				})
				r.Check("marshal-cover", typeName(named)+"."+fv.Name(), fv.Pos(), encoded,
					fmt.Sprintf("custom %s.MarshalXML (%s) must pass field %s to the encoder", typeName(named), p.pos(fn.Pos()), fv.Name()))
				if encoded {
					// …and on EVERY path that reports success the field is at least looked at (read for
					// encoding, or tested for absence).  A fast path that returns without reading the field
					// writes the element without it whatever the field holds.
					var reads []ssa.Instruction
					allInstrs(fn, func(in ssa.Instruction) {
						switch x := in.(type) {
						case *ssa.FieldAddr:
							if f2, base := fieldOfAddr(x); f2 == fv && stripLoads(base) == ssa.Value(recv) {
								reads = append(reads, x)
							}
						case *ssa.Field:
							if f2, base := fieldOfVal(x); f2 == fv && stripLoads(base) == ssa.Value(recv) {
								reads = append(reads, x)
							}
						}
					})
					okAll := len(reads) > 0
					ei := errorResultIndex(fn.Signature)
					for _, ret := range returnsOf(fn) {
						if ei >= 0 && !possiblyNilError(p, retResult(ret, ei), ret.Block()) {
							continue
						}
						if !mustPassThrough(fn, ret, reads) {
							okAll = false
						}
					}
					r.Check("marshal-cover", typeName(named)+"."+fv.Name()+":every-path", fv.Pos(), okAll,
						fmt.Sprintf("custom %s.MarshalXML (%s): every path that returns success must have read field %s (to encode it or to find it absent); a path that skips it writes the element without that content", typeName(named), p.pos(fn.Pos()), fv.Name()))
				}
			}
		}
	}
	r.Min("custom_marshalers", n, 5)
}

// retOrigin: where (function, block) a value returned by a reader helper is produced.
type retOrigin struct {
	fn  *ssa.Function
	blk *ssa.BasicBlock
	pos token.Pos
}

// returnedOrigins follows v back to results of calls to reader functions and, inside those, from
// the return statements through phis and local variables to the instructions that produce the
// returned value (allocations, further reader calls).  Depth-limited; nil constants are skipped.
func returnedOrigins(m *readerModel, v ssa.Value, hops int) []retOrigin {
	var out []retOrigin
	if hops > 3 {
		return out
	}
	seen := map[ssa.Value]bool{}
	fromCall := func(c *ssa.Call, idx int) {
		out = append(out, returnedOriginsOfCall(m, c, idx, hops)...)
	}
	var walk func(v ssa.Value, depth int)
	walk = func(v ssa.Value, depth int) {
		if v == nil || seen[v] || depth > 8 {
			return
		}
		seen[v] = true
		switch x := v.(type) {
		case *ssa.Extract:
			if c, ok := x.Tuple.(*ssa.Call); ok {
				fromCall(c, x.Index)
			}
		case *ssa.Call:
			fromCall(x, 0)
		case *ssa.Phi:
			for _, e := range x.Edges {
				walk(e, depth+1)
			}
		case *ssa.UnOp:
			if x.Op == token.MUL {
				if al, ok := x.X.(*ssa.Alloc); ok {
					if refs := al.Referrers(); refs != nil {
						for _, in := range *refs {
							if st, ok := in.(*ssa.Store); ok && st.Addr == al {
								walk(st.Val, depth+1)
							}
						}
					}
				}
			}
		}
	}
	walk(v, 0)
	return out
}

func returnedOriginsOfCall(m *readerModel, c *ssa.Call, idx int, hops int) []retOrigin {
	if hops > 3 {
		return nil
	}
	g := staticCallee(c)
	if g == nil || !m.IsReader[g] || len(g.Blocks) == 0 {
		return nil
	}
	var out []retOrigin
	for _, b := range g.Blocks {
		for _, in := range b.Instrs {
			if ret, ok := in.(*ssa.Return); ok && idx < len(ret.Results) {
				// re-enter through a synthetic walk: wrap the returned value
				out = append(out, originsInside(m, g, ret.Results[idx], hops)...)
			}
		}
	}
	return out
}

func originsInside(m *readerModel, g *ssa.Function, v ssa.Value, hops int) []retOrigin {
	var out []retOrigin
	seen := map[ssa.Value]bool{}
	var rec func(v ssa.Value, depth int)
	rec = func(v ssa.Value, depth int) {
		if v == nil || seen[v] || depth > 10 || isNilConst(v) {
			return
		}
		seen[v] = true
		switch x := v.(type) {
		case *ssa.Phi:
			for _, e := range x.Edges {
				rec(e, depth+1)
			}
		case *ssa.Alloc:
			if x.Heap {
				out = append(out, retOrigin{g, x.Block(), x.Pos()})
			}
		case *ssa.Extract:
			out = append(out, retOrigin{g, x.Block(), x.Pos()})
			if c, ok := x.Tuple.(*ssa.Call); ok {
				out = append(out, returnedOriginsOfCall(m, c, x.Index, hops+1)...)
			}
		case *ssa.Call:
			out = append(out, retOrigin{g, x.Block(), x.Pos()})
			out = append(out, returnedOriginsOfCall(m, x, 0, hops+1)...)
		}
	}
	rec(v, 0)
	return out
}

// wholeStoresOfCalls: the calls whose (struct) result is stored as a whole into the local al.
func wholeStoresOfCalls(al *ssa.Alloc) []*ssa.Call {
	var out []*ssa.Call
	if refs := al.Referrers(); refs != nil {
		for _, u := range *refs {
			if st, ok := u.(*ssa.Store); ok && st.Addr == al {
				if c, ok := st.Val.(*ssa.Call); ok {
					out = append(out, c)
				}
			}
		}
	}
	return out
}

// dispatchedByElementName: the map value mp (in f) is looked up with a start tag's local name and
// the slot found is stored through — in f itself or in a reader function mp is passed to.
func dispatchedByElementName(m *readerModel, f *ssa.Function, mp ssa.Value, hops int) bool {
	if hops > 2 || mp == nil {
		return false
	}
	found := false
	refs := mp.Referrers()
	if refs == nil {
		return false
	}
	for _, u := range *refs {
		switch x := u.(type) {
		case *ssa.Lookup:
			if x.X != mp || !isStartElemNameLocal(x.Index) {
				continue
			}
			// the slot (or the slot extracted from the comma-ok pair) must be stored through
			var slots []ssa.Value
			slots = append(slots, x)
			if x.Referrers() != nil {
				for _, u2 := range *x.Referrers() {
					if ex, ok := u2.(*ssa.Extract); ok && ex.Index == 0 {
						slots = append(slots, ex)
					}
				}
			}
			for _, sl := range slots {
				if sl.Referrers() == nil {
					continue
				}
				for _, u3 := range *sl.Referrers() {
					if st, ok := u3.(*ssa.Store); ok && st.Addr == sl {
						found = true
					}
				}
			}
		case ssa.CallInstruction:
			cal := staticCallee(x)
			if cal == nil || !m.IsReader[cal] {
				continue
			}
			for i, a := range x.Common().Args {
				if a == mp && i < len(cal.Params) {
					if dispatchedByElementName(m, cal, cal.Params[i], hops+1) {
						found = true
					}
				}
			}
		case *ssa.ChangeType:
			if dispatchedByElementName(m, f, x, hops) {
				found = true
			}
		}
	}
	return found
}
