package main

import (
	"fmt"
	"go/token"
	"go/types"
	"sort"
	"strings"

	"golang.org/x/tools/go/ssa"
)

// ---------------------------------------------------------------------------
// A2: backward dependence slice of a value.
// Data dependence through operands, loads ← stores to the same access path (flow
// insensitive), local variables, varargs arrays; over-approximated control dependence at
// phis (every branch condition that can reach the phi's block); module callees contribute
// the slices of their return values (bounded depth).
// ---------------------------------------------------------------------------

type sliceRes struct {
	Vals    map[ssa.Value]bool
	Instrs  map[ssa.Instruction]bool
	accSeen map[*ssa.Alloc]bool
}

type slicer struct {
	dataOnly bool // do not add the branch conditions that select between phi inputs
	p        *Program
	maxDepth int
	storeIdx map[*ssa.Function]map[string][]*ssa.Store
	stop     func(ssa.Value) bool // values treated as leaves (not traversed further)
}

func newSlicer(p *Program) *slicer {
	return &slicer{p: p, maxDepth: 4, storeIdx: map[*ssa.Function]map[string][]*ssa.Store{}}
}

func pathString(addr ssa.Value) string {
	root, path := objKey(addr)
	switch r := root.(type) {
	case *ssa.Parameter:
		return "param:" + r.Name() + path
	case *ssa.Global:
		return "global:" + r.Name() + path
	case *ssa.Alloc:
		return "local:" + r.Name() + path
	case *ssa.FreeVar:
		return "free:" + r.Name() + path
	}
	return root.Name() + path
}

func (s *slicer) stores(fn *ssa.Function) map[string][]*ssa.Store {
	if m, ok := s.storeIdx[fn]; ok {
		return m
	}
	m := map[string][]*ssa.Store{}
	allInstrs(fn, func(in ssa.Instruction) {
		if st, ok := in.(*ssa.Store); ok {
			k := pathString(st.Addr)
			m[k] = append(m[k], st)
		}
	})
	s.storeIdx[fn] = m
	return m
}

func (s *slicer) Slice(v ssa.Value) *sliceRes {
	res := &sliceRes{Vals: map[ssa.Value]bool{}, Instrs: map[ssa.Instruction]bool{}}
	s.walk(v, res, 0)
	return res
}

// SliceFrom: the slice of v extended upwards through helper parameters — when the value lives in a
// helper that root (transitively) calls and depends on one of the helper's parameters, the
// arguments at the call sites inside root's static reach are part of the slice as well.
func (s *slicer) SliceFrom(v ssa.Value, root *ssa.Function) *sliceRes {
	res := s.Slice(v)
	reach := s.p.staticReach(root)
	reach[root] = true
	done := map[*ssa.Parameter]bool{}
	for round := 0; round < 4; round++ {
		var todo []*ssa.Parameter
		for x := range res.Vals {
			if par, ok := x.(*ssa.Parameter); ok && !done[par] && par.Parent() != root && reach[par.Parent()] {
				todo = append(todo, par)
			}
		}
		if len(todo) == 0 {
			break
		}
		for _, par := range todo {
			done[par] = true
			h := par.Parent()
			pi := paramIndex(h, par)
			for g := range reach {
				allInstrs(g, func(in ssa.Instruction) {
					c, ok := in.(ssa.CallInstruction)
					if !ok || staticCallee(c) != h || pi >= len(c.Common().Args) {
						return
					}
					s.walk(c.Common().Args[pi], res, 0)
				})
			}
		}
	}
	return res
}

// SliceUp: the slice of v extended upwards through parameters at every static call site in the
// module (bounded): where does the value come from, whoever calls?
func (s *slicer) SliceUp(v ssa.Value) *sliceRes {
	res := s.Slice(v)
	callers := s.p.callersIndex()
	done := map[*ssa.Parameter]bool{}
	for round := 0; round < 3; round++ {
		var todo []*ssa.Parameter
		for x := range res.Vals {
			if par, ok := x.(*ssa.Parameter); ok && !done[par] {
				todo = append(todo, par)
			}
		}
		if len(todo) == 0 {
			break
		}
		for _, par := range todo {
			done[par] = true
			h := par.Parent()
			if h == nil {
				continue
			}
			pi := paramIndex(h, par)
			for g := range callers[h] {
				allInstrs(g, func(in ssa.Instruction) {
					c, ok := in.(ssa.CallInstruction)
					if !ok || staticCallee(c) != h || pi >= len(c.Common().Args) {
						return
					}
					s.walk(c.Common().Args[pi], res, 0)
				})
			}
		}
	}
	return res
}

func (s *slicer) walk(v ssa.Value, res *sliceRes, depth int) {
	if v == nil || res.Vals[v] {
		return
	}
	res.Vals[v] = true
	if in, ok := v.(ssa.Instruction); ok {
		res.Instrs[in] = true
	}
	if s.stop != nil && s.stop(v) {
		return
	}
	switch x := v.(type) {
	case *ssa.Const, *ssa.Parameter, *ssa.Global, *ssa.FreeVar, *ssa.Builtin, *ssa.Function:
		return
	case *ssa.Alloc:
		// everything stored into the variable (or its elements / fields)
		if refs := x.Referrers(); refs != nil {
			for _, in := range *refs {
				s.followAllocUse(x, in, res, depth)
			}
		}
		return
	case *ssa.Field:
		if rep, call := structFieldRep(x); rep != nil && depth < s.maxDepth {
			// only the carried field, not everything the helper computes
			res.Vals[call] = true
			s.walk(rep, res, depth+1)
			for _, a := range call.Call.Args {
				s.walk(a, res, depth)
			}
			return
		}
	case *ssa.UnOp:
		if x.Op == token.MUL {
			if rep, call := structFieldRep(x); rep != nil && depth < s.maxDepth {
				res.Vals[call] = true
				s.walk(rep, res, depth+1)
				for _, a := range call.Call.Args {
					s.walk(a, res, depth)
				}
				return
			}
			s.walk(x.X, res, depth)
			fn := x.Parent()
			if fn != nil {
				if _, isAlloc := x.X.(*ssa.Alloc); !isAlloc {
					for _, st := range s.stores(fn)[pathString(x.X)] {
						res.Instrs[st] = true
						s.walk(st.Val, res, depth)
					}
				}
			}
			return
		}
	case *ssa.Phi:
		for _, e := range x.Edges {
			s.walk(e, res, depth)
		}
		if s.dataOnly {
			return
		}
		// over-approximate control dependence
		fn := x.Parent()
		for _, b := range fn.Blocks {
			if len(b.Instrs) == 0 {
				continue
			}
			if iff, ok := b.Instrs[len(b.Instrs)-1].(*ssa.If); ok {
				if reachableBlocks(b, nil)[x.Block()] {
					s.walk(iff.Cond, res, depth)
				}
			}
		}
		return
	case *ssa.Call:
		for _, a := range x.Call.Args {
			s.walk(a, res, depth)
		}
		if x.Call.IsInvoke() {
			s.walk(x.Call.Value, res, depth)
		}
		if cal := staticCallee(x); cal != nil && s.p.inModule(cal) && depth < s.maxDepth {
			for _, ret := range returnsOf(cal) {
				for _, rv := range ret.Results {
					s.walk(rv, res, depth+1)
				}
			}
		} else if mc, ok := x.Call.Value.(*ssa.MakeClosure); ok && depth < s.maxDepth {
			cf := mc.Fn.(*ssa.Function)
			for _, ret := range returnsOf(cf) {
				for _, rv := range ret.Results {
					s.walk(rv, res, depth+1)
				}
			}
			for _, b := range mc.Bindings {
				s.walk(b, res, depth)
			}
		}
		return
	}
	if in, ok := v.(ssa.Instruction); ok {
		for _, op := range in.Operands(nil) {
			if *op != nil {
				s.walk(*op, res, depth)
			}
		}
	}
}

func (s *slicer) followAllocUse(al *ssa.Alloc, in ssa.Instruction, res *sliceRes, depth int) {
	switch x := in.(type) {
	case *ssa.Store:
		if allocBase(x.Addr) == al {
			res.Instrs[x] = true
			s.walk(x.Val, res, depth)
		}
	case ssa.CallInstruction, *ssa.MakeInterface, *ssa.ChangeInterface:
		// an accumulator object filled through methods of a package outside the module
		// (var b strings.Builder; b.WriteString(x); … b.String() — or enc := xml.NewEncoder(&buf);
		// enc.Encode(v); … buf.Bytes()): what is written into it, directly or through a handle
		// derived from it, is what can later be read from it
		if res.accSeen == nil {
			res.accSeen = map[*ssa.Alloc]bool{}
		}
		if res.accSeen[al] {
			return
		}
		res.accSeen[al] = true
		var calls []ssa.CallInstruction
		forwardFlow(al, func(u ssa.Instruction) bool {
			switch y := u.(type) {
			case *ssa.MakeInterface, *ssa.ChangeInterface:
				return true
			case ssa.CallInstruction:
				if cal := staticCallee(y); cal != nil && s.p.inModule(cal) {
					// the object is handed to a module helper that fills it (appendRunText(&b, run)):
					// what the helper writes into its parameter through outside methods counts as well
					if depth < s.maxDepth {
						for pi, a := range y.Common().Args {
							if a != ssa.Value(al) || pi >= len(cal.Params) {
								continue
							}
							par := cal.Params[pi]
							allInstrs(cal, func(in2 ssa.Instruction) {
								c2, ok := in2.(ssa.CallInstruction)
								if !ok {
									return
								}
								if cal2 := staticCallee(c2); cal2 != nil && s.p.inModule(cal2) {
									return
								}
								uses := false
								for _, a2 := range c2.Common().Args {
									if a2 == ssa.Value(par) {
										uses = true
									}
								}
								if uses {
									for _, a2 := range c2.Common().Args {
										if a2 != ssa.Value(par) {
											s.walk(a2, res, depth+1)
										}
									}
								}
							})
						}
					}
					return false
				}
				calls = append(calls, y)
				// continue only through handles (an encoder / writer wrapping the object), not
				// through data read out of it
				if v, ok := u.(ssa.Value); ok {
					switch v.Type().Underlying().(type) {
					case *types.Pointer, *types.Interface:
						return true
					}
				}
				return false
			}
			return false
		})
		for _, c := range calls {
			if v, ok := c.(ssa.Value); ok {
				res.Vals[v] = true
			}
			res.Instrs[c] = true
			for _, a := range c.Common().Args {
				s.walk(a, res, depth)
			}
		}
	case *ssa.MakeClosure:
		// the variable is captured by a function literal that assigns to it
		// (consider := func(name string) { if id > max { max = id } }): what the literal stores into the
		// captured variable, and the arguments it is called with, are part of the variable's history
		cf, _ := x.Fn.(*ssa.Function)
		if cf == nil || depth >= s.maxDepth {
			return
		}
		if res.accSeen == nil {
			res.accSeen = map[*ssa.Alloc]bool{}
		}
		for i, b := range x.Bindings {
			if b != ssa.Value(al) || i >= len(cf.FreeVars) {
				continue
			}
			fv := cf.FreeVars[i]
			if refs := fv.Referrers(); refs != nil {
				for _, in2 := range *refs {
					if st, ok := in2.(*ssa.Store); ok && st.Addr == ssa.Value(fv) {
						res.Instrs[st] = true
						s.walk(st.Val, res, depth+1)
					}
				}
			}
		}
		// the literal's parameters are bound at its call sites
		var handles []ssa.Value
		handles = append(handles, x)
		if refs := x.Referrers(); refs != nil {
			for _, u := range *refs {
				if st, ok := u.(*ssa.Store); ok && st.Val == ssa.Value(x) {
					if hal, ok := st.Addr.(*ssa.Alloc); ok && hal.Referrers() != nil {
						for _, u2 := range *hal.Referrers() {
							if ld, ok := u2.(*ssa.UnOp); ok && ld.Op == token.MUL {
								handles = append(handles, ld)
							}
						}
					}
				}
			}
		}
		for _, h := range handles {
			if h.Referrers() == nil {
				continue
			}
			for _, u := range *h.Referrers() {
				if c, ok := u.(ssa.CallInstruction); ok && c.Common().Value == h {
					for _, a := range c.Common().Args {
						s.walk(a, res, depth+1)
					}
				}
			}
		}
	case *ssa.IndexAddr:
		if refs := x.Referrers(); refs != nil {
			for _, in2 := range *refs {
				if st, ok := in2.(*ssa.Store); ok && st.Addr == ssa.Value(x) {
					res.Instrs[st] = true
					s.walk(st.Val, res, depth)
				}
			}
		}
	case *ssa.FieldAddr:
		if refs := x.Referrers(); refs != nil {
			for _, in2 := range *refs {
				if st, ok := in2.(*ssa.Store); ok && st.Addr == ssa.Value(x) {
					res.Instrs[st] = true
					s.walk(st.Val, res, depth)
				}
			}
		}
	}
}

// readsField reports whether the slice contains a read of the given struct field
// (identified by owner type name + field name, so that it survives reloading).
func (r *sliceRes) readsField(p *Program, ownerPkg, owner, field string) bool {
	for v := range r.Vals {
		var fv *types.Var
		switch x := v.(type) {
		case *ssa.FieldAddr:
			fv, _ = fieldOfAddr(x)
		case *ssa.Field:
			fv, _ = fieldOfVal(x)
		}
		if fv == nil || fv.Name() != field {
			continue
		}
		if o := fieldOwner(p, fv); o != nil && o.Obj().Name() == owner && o.Obj().Pkg().Path() == ownerPkg {
			// must be a read: FieldAddr that is loaded, or a Field value
			if fa, ok := v.(*ssa.FieldAddr); ok {
				if refs := fa.Referrers(); refs != nil {
					for _, in := range *refs {
						if u, ok := in.(*ssa.UnOp); ok && u.Op == token.MUL && r.Vals[u] {
							return true
						}
					}
				}
				continue
			}
			return true
		}
	}
	return false
}

// fingerprint: a normalised description of the leaf dependencies of the slice
// (constants are abstracted to their kind; len(path) and field reads by path).
func (r *sliceRes) fingerprint(p *Program) string {
	set := map[string]bool{}
	for v := range r.Vals {
		switch x := v.(type) {
		case *ssa.Const:
			if x.Value != nil {
				set["const"] = true
			}
		case *ssa.Call:
			if b, ok := x.Call.Value.(*ssa.Builtin); ok && b.Name() == "len" {
				_, path := objKey(x.Call.Args[0])
				set["len("+strings.TrimPrefix(path, ".")+")"] = true
			}
		}
	}
	var ks []string
	for k := range set {
		ks = append(ks, k)
	}
	sort.Strings(ks)
	return strings.Join(ks, "+")
}

// ---------------------------------------------------------------------------
// A4: symbolic strings.
// ---------------------------------------------------------------------------

type symPart struct {
	Const string
	Sym   ssa.Value // nil for constants
}

type symString []symPart

func (s symString) String() string {
	var b strings.Builder
	for _, p := range s {
		if p.Sym == nil {
			b.WriteString(p.Const)
		} else {
			b.WriteString("⟨" + p.Sym.Name() + "⟩")
		}
	}
	return b.String()
}

// Pattern renders the string with every symbolic part as "*" (stable across SSA renumbering).
func (s symString) Pattern() string {
	var b strings.Builder
	for _, p := range s.norm() {
		if p.Sym == nil {
			b.WriteString(p.Const)
		} else {
			b.WriteString("*")
		}
	}
	return b.String()
}

func (s symString) norm() symString {
	var out symString
	for _, p := range s {
		if p.Sym == nil && len(out) > 0 && out[len(out)-1].Sym == nil {
			out[len(out)-1].Const += p.Const
			continue
		}
		if p.Sym == nil && p.Const == "" {
			continue
		}
		out = append(out, p)
	}
	return out
}

func (s symString) equal(t symString) bool {
	s, t = s.norm(), t.norm()
	if len(s) != len(t) {
		return false
	}
	for i := range s {
		if s[i].Sym != t[i].Sym || s[i].Const != t[i].Const {
			return false
		}
	}
	return true
}

func (s symString) isConst() (string, bool) {
	n := s.norm()
	if len(n) == 0 {
		return "", true
	}
	if len(n) == 1 && n[0].Sym == nil {
		return n[0].Const, true
	}
	return "", false
}

func prefixed(prefix string, s symString) symString {
	return append(symString{{Const: prefix}}, s...).norm()
}

// symOf renders a string-valued SSA value.
func symOf(v ssa.Value) symString {
	return symOfD(v, 0)
}

func symOfD(v ssa.Value, d int) symString {
	if d > 12 {
		return symString{{Sym: v}}
	}
	if rep, call := structFieldRep(v); rep != nil && d < 8 {
		// a string carried in a struct built by a helper: the helper's expression with the call's
		// arguments substituted for its parameters
		return substParams(symOfD(rep, d+1), call, d)
	}
	switch x := v.(type) {
	case *ssa.Const:
		if s, ok := constString(x); ok {
			return symString{{Const: s}}
		}
	case *ssa.BinOp:
		if x.Op == token.ADD {
			return append(symOfD(x.X, d+1), symOfD(x.Y, d+1)...).norm()
		}
	case *ssa.ChangeType:
		return symOfD(x.X, d+1)
	case *ssa.Convert:
		if b, ok := x.X.Type().Underlying().(*types.Basic); ok && b.Info()&types.IsString != 0 {
			return symOfD(x.X, d+1)
		}
	case *ssa.UnOp:
		if x.Op == token.MUL {
			// local variable with a single store
			if al, ok := x.X.(*ssa.Alloc); ok {
				var only ssa.Value
				n := 0
				if refs := al.Referrers(); refs != nil {
					for _, in := range *refs {
						if st, ok := in.(*ssa.Store); ok && st.Addr == ssa.Value(al) {
							only = st.Val
							n++
						}
					}
				}
				if n == 1 {
					return symOfD(only, d+1)
				}
			}
		}
	case *ssa.Call:
		// a straight-line module helper that builds a string from its parameters
		// (func mediaPartName(n string) string { return "word/media/" + n }): its expression with the
		// arguments substituted
		if cal := staticCallee(x); cal != nil && cal.Pkg != nil && strings.HasPrefix(cal.Pkg.Pkg.Path(), modPath) && len(cal.Blocks) == 1 &&
			cal.Signature.Results().Len() == 1 && isStringType(cal.Signature.Results().At(0).Type()) && d < 8 {
			if ret, ok := cal.Blocks[0].Instrs[len(cal.Blocks[0].Instrs)-1].(*ssa.Return); ok && len(ret.Results) == 1 {
				inner := symOfD(ret.Results[0], d+1)
				var out symString
				okSub := true
				for _, part := range inner {
					if part.Sym == nil {
						out = append(out, part)
						continue
					}
					if prm, isP := part.Sym.(*ssa.Parameter); isP {
						if i := paramIndex(cal, prm); i >= 0 && i < len(x.Call.Args) {
							out = append(out, symOfD(x.Call.Args[i], d+1)...)
							continue
						}
					}
					// a field of a struct-valued parameter (method on a value receiver: r.fileName)
					if prm, fidx := paramFieldRead(part.Sym); prm != nil {
						if i := paramIndex(cal, prm); i >= 0 && i < len(x.Call.Args) {
							if rep, call2 := structFieldOf(x.Call.Args[i], fidx, 0); rep != nil {
								out = append(out, substParams(symOfD(rep, d+1), call2, d)...)
								continue
							}
						}
					}
					okSub = false // depends on something local to the helper
				}
				if okSub && len(out) > 0 {
					return out.norm()
				}
			}
		}
		if calleeName(x) == "fmt.Sprintf" && len(x.Call.Args) == 2 {
			if format, ok := constString(x.Call.Args[0]); ok {
				args := varargElems(x.Call.Args[1])
				var out symString
				ai := 0
				for i := 0; i < len(format); i++ {
					if format[i] == '%' && i+1 < len(format) {
						switch format[i+1] {
						case '%':
							out = append(out, symPart{Const: "%"})
							i++
							continue
						case 's', 'd', 'v':
							if ai < len(args) {
								a := args[ai]
								if mi, ok := a.(*ssa.MakeInterface); ok {
									a = mi.X
								}
								if format[i+1] == 's' || isStringType(a.Type()) {
									out = append(out, symOfD(a, d+1)...)
								} else {
									out = append(out, symPart{Sym: a})
								}
								ai++
								i++
								continue
							}
						}
						return symString{{Sym: v}}
					}
					out = append(out, symPart{Const: string(format[i])})
				}
				return out.norm()
			}
		}
	}
	return symString{{Sym: v}}
}

func isStringType(t types.Type) bool {
	b, ok := t.Underlying().(*types.Basic)
	return ok && b.Info()&types.IsString != 0
}

// varargElems returns the values stored into the varargs array behind a Slice.
func varargElems(v ssa.Value) []ssa.Value {
	sl, ok := v.(*ssa.Slice)
	if !ok {
		return nil
	}
	al, ok := sl.X.(*ssa.Alloc)
	if !ok {
		return nil
	}
	elems := map[int64]ssa.Value{}
	max := int64(-1)
	if refs := al.Referrers(); refs != nil {
		for _, in := range *refs {
			if ia, ok := in.(*ssa.IndexAddr); ok {
				idx, ok := constInt(ia.Index)
				if !ok {
					continue
				}
				if r2 := ia.Referrers(); r2 != nil {
					for _, in2 := range *r2 {
						if st, ok := in2.(*ssa.Store); ok && st.Addr == ssa.Value(ia) {
							elems[idx] = st.Val
							if idx > max {
								max = idx
							}
						}
					}
				}
			}
		}
	}
	var out []ssa.Value
	for i := int64(0); i <= max; i++ {
		out = append(out, elems[i])
	}
	return out
}

func fmtPos(p *Program, pos token.Pos) string { return p.pos(pos) }

var _ = fmt.Sprintf

// controlConds: branch conditions the instruction is control dependent on (an If one of whose
// successors — but not both — dominates the instruction's block).
func controlConds(in ssa.Instruction) []ssa.Value {
	var out []ssa.Value
	b := in.Block()
	for _, x := range in.Parent().Blocks {
		if len(x.Instrs) == 0 || x == b || len(x.Succs) != 2 || x.Succs[0] == x.Succs[1] {
			continue
		}
		iff, ok := x.Instrs[len(x.Instrs)-1].(*ssa.If)
		if !ok {
			continue
		}
		if !x.Dominates(b) {
			// …or x is one of the test blocks of a compound condition: it sits between b's immediate
			// dominator and b and does nothing but evaluate its test
			id := b.Idom()
			if id == nil || !id.Dominates(x) {
				continue
			}
			pure := true
			for _, i2 := range x.Instrs {
				switch y := i2.(type) {
				case *ssa.Store, *ssa.MapUpdate, *ssa.Defer, *ssa.Go, *ssa.Send:
					pure = false
				case *ssa.Call:
					if cal := staticCallee(y); cal != nil && cal.Pkg != nil && strings.HasPrefix(cal.Pkg.Pkg.Path(), modPath) {
						pure = false
					}
				}
			}
			if !pure {
				continue
			}
		}
		// b is control dependent on x when exactly one branch of x can still reach b (without
		// coming back through x): also for the inner tests of `a && (b || c)`, whose target block
		// has several predecessors
		cut := map[*ssa.BasicBlock]bool{x: true}
		r0 := x.Succs[0] == b || reachableBlocks(x.Succs[0], cut)[b]
		r1 := x.Succs[1] == b || reachableBlocks(x.Succs[1], cut)[b]
		if r0 != r1 {
			out = append(out, iff.Cond)
		}
	}
	return out
}

// SliceWithControl: slice of v plus the slices of the conditions `at` is control dependent on.
func (s *slicer) SliceWithControl(v ssa.Value, at ssa.Instruction) *sliceRes {
	res := s.Slice(v)
	for _, c := range controlConds(at) {
		s.walk(c, res, 0)
	}
	return res
}

// ---------------------------------------------------------------------------
// Values carried in a small struct: res := d.allocate(...); … res.relationID … res.partName()
// ---------------------------------------------------------------------------

// structFieldRep: v reads field i of a struct VALUE that is the result of a call to a module
// function returning a composite literal (directly, or through a local variable assigned once).
// Returns the value the callee stored into that field (it lives in the callee) and the call; two
// reads of the same field of the same call result have the same representative.
func structFieldRep(v ssa.Value) (ssa.Value, *ssa.Call) {
	var base ssa.Value
	idx := -1
	switch x := v.(type) {
	case *ssa.Field:
		base, idx = x.X, x.Field
	case *ssa.UnOp:
		if x.Op == token.MUL {
			if fa, ok := x.X.(*ssa.FieldAddr); ok {
				if al, ok := fa.X.(*ssa.Alloc); ok {
					base, idx = al, fa.Field
				}
			}
		}
	}
	if base == nil || idx < 0 {
		return nil, nil
	}
	return structFieldOf(base, idx, 0)
}

func structFieldOf(base ssa.Value, idx int, depth int) (ssa.Value, *ssa.Call) {
	if depth > 3 {
		return nil, nil
	}
	switch b := base.(type) {
	case *ssa.Alloc:
		if _, isStruct := derefType(b.Type()).Underlying().(*types.Struct); !isStruct || b.Referrers() == nil {
			return nil, nil
		}
		var whole []ssa.Value
		for _, u := range *b.Referrers() {
			switch y := u.(type) {
			case *ssa.Store:
				if y.Addr == ssa.Value(b) {
					whole = append(whole, y.Val)
				}
			case *ssa.FieldAddr:
				if y.Referrers() != nil {
					for _, u2 := range *y.Referrers() {
						if st, ok := u2.(*ssa.Store); ok && st.Addr == ssa.Value(y) {
							return nil, nil // the variable is modified field by field: not a carried value
						}
					}
				}
			}
		}
		if len(whole) != 1 {
			return nil, nil
		}
		return structFieldOf(whole[0], idx, depth+1)
	case *ssa.UnOp:
		if b.Op == token.MUL {
			if al, ok := b.X.(*ssa.Alloc); ok {
				return structFieldOf(al, idx, depth+1)
			}
		}
	case *ssa.Call:
		cal := staticCallee(b)
		if cal == nil || cal.Pkg == nil || !strings.HasPrefix(cal.Pkg.Pkg.Path(), modPath) || len(cal.Blocks) == 0 {
			return nil, nil
		}
		rets := returnsOf(cal)
		if len(rets) != 1 || len(rets[0].Results) != 1 {
			return nil, nil
		}
		ld, ok := rets[0].Results[0].(*ssa.UnOp)
		if !ok || ld.Op != token.MUL {
			return nil, nil
		}
		lit, ok := ld.X.(*ssa.Alloc)
		if !ok || lit.Referrers() == nil {
			return nil, nil
		}
		var rep ssa.Value
		n := 0
		for _, u := range *lit.Referrers() {
			if fa, ok := u.(*ssa.FieldAddr); ok && fa.Field == idx && fa.Referrers() != nil {
				for _, u2 := range *fa.Referrers() {
					if st, ok := u2.(*ssa.Store); ok && st.Addr == ssa.Value(fa) {
						rep = st.Val
						n++
					}
				}
			}
		}
		if n == 1 {
			return rep, b
		}
	}
	return nil, nil
}

// sameCarried: a and b are the same value, or read the same field of the same carried struct.
func sameCarried(a, b ssa.Value) bool {
	if a == b {
		return true
	}
	ra, ca := structFieldRep(a)
	rb, cb := structFieldRep(b)
	return ra != nil && ra == rb && ca == cb
}

// substParams replaces parameters of call's callee in a symbolic string by the call's arguments.
func substParams(in symString, call *ssa.Call, d int) symString {
	cal := staticCallee(call)
	if cal == nil {
		return in
	}
	var out symString
	for _, part := range in {
		if prm, isP := part.Sym.(*ssa.Parameter); isP && part.Sym != nil {
			if i := paramIndex(cal, prm); i >= 0 && i < len(call.Call.Args) {
				out = append(out, symOfD(call.Call.Args[i], d+1)...)
				continue
			}
		}
		out = append(out, part)
	}
	return out.norm()
}

// paramFieldRead: v reads field i of a struct-valued parameter — directly (Field) or through the
// local copy go/ssa makes of a value receiver whose address is taken (spilled parameter).
func paramFieldRead(v ssa.Value) (*ssa.Parameter, int) {
	switch x := v.(type) {
	case *ssa.Field:
		if prm, ok := x.X.(*ssa.Parameter); ok {
			return prm, x.Field
		}
	case *ssa.UnOp:
		if x.Op != token.MUL {
			return nil, -1
		}
		fa, ok := x.X.(*ssa.FieldAddr)
		if !ok {
			return nil, -1
		}
		al, ok := fa.X.(*ssa.Alloc)
		if !ok || al.Referrers() == nil {
			return nil, -1
		}
		var prm *ssa.Parameter
		n := 0
		for _, u := range *al.Referrers() {
			if st, ok := u.(*ssa.Store); ok && st.Addr == ssa.Value(al) {
				n++
				prm, _ = st.Val.(*ssa.Parameter)
			}
		}
		if n == 1 && prm != nil {
			return prm, fa.Field
		}
	}
	return nil, -1
}
