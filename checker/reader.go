package main

import (
	"fmt"
	"go/token"
	"go/types"
	"os"
	"sort"
	"strings"

	"golang.org/x/tools/go/ssa"
)

// ---------------------------------------------------------------------------
// Natural loops
// ---------------------------------------------------------------------------

type natLoop struct {
	Header *ssa.BasicBlock
	Body   map[*ssa.BasicBlock]bool // includes header
	Latch  []*ssa.BasicBlock
}

func naturalLoops(fn *ssa.Function) []*natLoop {
	byHeader := map[*ssa.BasicBlock]*natLoop{}
	var order []*ssa.BasicBlock
	for _, b := range fn.Blocks {
		for _, s := range b.Succs {
			if s.Dominates(b) { // back edge b→s
				l := byHeader[s]
				if l == nil {
					l = &natLoop{Header: s, Body: map[*ssa.BasicBlock]bool{s: true}}
					byHeader[s] = l
					order = append(order, s)
				}
				l.Latch = append(l.Latch, b)
				// blocks that reach b without passing s
				var stack []*ssa.BasicBlock
				if !l.Body[b] {
					l.Body[b] = true
					stack = append(stack, b)
				}
				for len(stack) > 0 {
					x := stack[len(stack)-1]
					stack = stack[:len(stack)-1]
					for _, pr := range x.Preds {
						if !l.Body[pr] {
							l.Body[pr] = true
							stack = append(stack, pr)
						}
					}
				}
			}
		}
	}
	var out []*natLoop
	for _, h := range order {
		out = append(out, byHeader[h])
	}
	return out
}

// isBoundedRange: the loop is the lowering of `for … range <slice|map|string|int>`.
func isBoundedRange(l *natLoop) bool {
	h := l.Header
	if len(h.Instrs) == 0 {
		return false
	}
	iff, ok := h.Instrs[len(h.Instrs)-1].(*ssa.If)
	if !ok {
		return false
	}
	switch c := iff.Cond.(type) {
	case *ssa.Extract:
		// ok flag of Next
		if _, isNext := c.Tuple.(*ssa.Next); isNext && c.Index == 0 {
			return true
		}
	case *ssa.BinOp:
		if c.Op != token.LSS {
			return false
		}
		// (phi + 1) < len(x)   with phi in header and len computed outside the loop
		add, ok := c.X.(*ssa.BinOp)
		if !ok || add.Op != token.ADD {
			return false
		}
		phi, ok := add.X.(*ssa.Phi)
		if !ok || phi.Block() != h {
			return false
		}
		if one, ok := constInt(add.Y); !ok || one != 1 {
			return false
		}
		// the phi's back-edge value must be add itself
		stepOK := false
		for _, e := range phi.Edges {
			if e == ssa.Value(add) {
				stepOK = true
			}
		}
		if !stepOK {
			return false
		}
		if in, ok := c.Y.(ssa.Instruction); ok && l.Body[in.Block()] {
			return false
		}
		return true
	}
	return false
}

const decoderToken = "(*encoding/xml.Decoder).Token"

// mustConsume computes the set of module functions that consume at least one token (or
// fail) on every path from entry to return.
func mustConsume(p *Program, cands []*ssa.Function) map[*ssa.Function]bool {
	mc := map[*ssa.Function]bool{}
	for changed := true; changed; {
		changed = false
		for _, f := range cands {
			if mc[f] || len(f.Blocks) == 0 {
				continue
			}
			cut := map[*ssa.BasicBlock]bool{}
			allInstrs(f, func(in ssa.Instruction) {
				if c, ok := in.(*ssa.Call); ok {
					if calleeName(c) == decoderToken || mc[staticCallee(c)] {
						cut[c.Block()] = true
					}
				}
			})
			reach := reachableBlocks(f.Blocks[0], cut)
			ok := true
			for _, ret := range returnsOf(f) {
				if reach[ret.Block()] {
					ok = false
				}
			}
			if ok {
				mc[f] = true
				changed = true
			}
		}
	}
	return mc
}

// ---------------------------------------------------------------------------
// R-LOOP-TOKEN
// ---------------------------------------------------------------------------

func ruleLoopToken(r *Run) {
	p := r.P
	m := buildReaderModel(p)
	if len(m.Funcs) == 0 {
		r.Unresolved("reader root (*Document).parseDocument")
		return
	}
	mc := mustConsume(p, m.Funcs)
	nTok, nRange := 0, 0
	for _, fn := range m.Funcs {
		for li, l := range naturalLoops(fn) {
			if isBoundedRange(l) {
				nRange++
				r.Trivial("loop-token", fmt.Sprintf("%s:range#%d", shortName(fn), li), l.Header.Instrs[0].Pos(), true, "bounded range loop over a slice/map")
				continue
			}
			nTok++
			key := fmt.Sprintf("%s:loop#%d", shortName(fn), li)
			pos := fn.Pos()
			// (1) every cycle consumes a token
			cut := map[*ssa.BasicBlock]bool{}
			var tokenCalls []*ssa.Call
			for b := range l.Body {
				for _, in := range b.Instrs {
					if c, ok := in.(*ssa.Call); ok {
						if calleeName(c) == decoderToken {
							cut[b] = true
							tokenCalls = append(tokenCalls, c)
							if pos == fn.Pos() {
								pos = c.Pos()
							}
						} else if mc[staticCallee(c)] {
							cut[b] = true
						}
					}
				}
			}
			cycle := false
			if !cut[l.Header] {
				// can we go header → … → header inside the loop without a consuming block?
				seen := map[*ssa.BasicBlock]bool{}
				var walk func(b *ssa.BasicBlock)
				walk = func(b *ssa.BasicBlock) {
					for _, s := range b.Succs {
						if !l.Body[s] || cut[s] {
							continue
						}
						if s == l.Header {
							cycle = true
							continue
						}
						if !seen[s] {
							seen[s] = true
							walk(s)
						}
					}
				}
				walk(l.Header)
			}
			if len(tokenCalls) == 0 && !cycle {
				// consumption only through callees: fine
			}
			r.Check("loop-token", key+":consumes", pos, !cycle,
				fmt.Sprintf("every iteration of the token loop in %s must consume a token (Decoder.Token or a reader that always does); a cycle without consumption never terminates", shortName(fn)))
			// (2) the error branch of every Token call leaves the loop
			for ti, c := range tokenCalls {
				ev := errValueOf(c)
				okExit, why := tokenErrLeaves(l, c, ev)
				r.Check("loop-token", fmt.Sprintf("%s:token#%d:error-exits", key, ti), c.Pos(), okExit,
					fmt.Sprintf("when Decoder.Token fails (%s) in %s the loop must be left on every path: %s", p.pos(c.Pos()), shortName(fn), why))
			}
		}
	}
	r.Min("token_loops", nTok, 30)
	r.Count("bounded_range_loops", nRange)
}

// tokenErrLeaves: from the block of the Token call, the loop header cannot be reached again
// (inside the loop) except through the "err == nil" continuation.
func tokenErrLeaves(l *natLoop, c *ssa.Call, ev ssa.Value) (bool, string) {
	if ev == nil {
		return false, "the error result is dropped"
	}
	refs := ev.Referrers()
	if refs == nil {
		return false, "the error result is never tested"
	}
	okBlocks := map[*ssa.BasicBlock]bool{}
	tested := false
	for _, in := range *refs {
		bo, ok := in.(*ssa.BinOp)
		if !ok || (bo.Op != token.NEQ && bo.Op != token.EQL) || (!isNilConst(bo.X) && !isNilConst(bo.Y)) {
			continue
		}
		if brefs := bo.Referrers(); brefs != nil {
			for _, u := range *brefs {
				if iff, ok := u.(*ssa.If); ok {
					tested = true
					cont := iff.Block().Succs[1]
					if bo.Op == token.EQL {
						cont = iff.Block().Succs[0]
					}
					okBlocks[cont] = true
				}
			}
		}
	}
	if !tested {
		return false, "the error is not compared with nil"
	}
	// reachability inside the loop from the call's block, not entering the ok continuation
	seen := map[*ssa.BasicBlock]bool{}
	back := false
	var walk func(b *ssa.BasicBlock)
	walk = func(b *ssa.BasicBlock) {
		for _, s := range b.Succs {
			if !l.Body[s] || okBlocks[s] {
				continue
			}
			if s == l.Header {
				back = true
				continue
			}
			if !seen[s] {
				seen[s] = true
				walk(s)
			}
		}
	}
	walk(c.Block())
	if back {
		return false, "a path with a non-nil error returns to the loop header (e.g. `continue`), so a truncated input loops forever"
	}
	return true, "error paths return or break"
}

// ---------------------------------------------------------------------------
// R-RECUR/reader
// ---------------------------------------------------------------------------

func ruleReaderRecursion(r *Run) {
	p := r.P
	m := buildReaderModel(p)
	n := 0
	for _, fn := range m.Funcs {
		n++
		rec := false
		var site token.Pos
		inRegion := true
		allInstrs(fn, func(in ssa.Instruction) {
			c, ok := in.(*ssa.Call)
			if !ok {
				return
			}
			cal := staticCallee(c)
			if cal == nil || !m.IsReader[cal] {
				return
			}
			if cal == fn || p.staticReach(cal)[fn] {
				rec = true
				site = c.Pos()
				// the call must sit in a StartElement case region (a token was consumed to get here)
				covered := false
				for _, sc := range m.ElemCmps[fn] {
					if sc.Region[c.Block()] {
						covered = true
					}
				}
				if !covered {
					inRegion = false
				}
			}
		})
		if !rec {
			r.Trivial("reader-recursion", shortName(fn), fn.Pos(), true, "not on a call-graph cycle: stack depth independent of input nesting")
			continue
		}
		// token-guarded recursion nests as deep as the input does: the goroutine stack is finite, so a
		// main part with extreme nesting kills the process (a fatal stack overflow cannot be recovered).
		// The cycle must therefore also carry a depth bound: an integer parameter or field that is
		// compared against a limit and incremented around the recursive call.
		bounded := false
		var scc []*ssa.Function
		for _, g := range m.Funcs {
			if g == fn || (p.staticReach(fn)[g] && p.staticReach(g)[fn]) {
				scc = append(scc, g)
			}
		}
		cmpd, incd := map[string]bool{}, map[string]bool{}
		intKey := func(v ssa.Value) string {
			switch x := v.(type) {
			case *ssa.Parameter:
				if b, ok := x.Type().Underlying().(*types.Basic); ok && b.Info()&types.IsInteger != 0 {
					return "param:" + x.Name()
				}
			case *ssa.UnOp:
				if x.Op == token.MUL {
					if fv, _ := fieldOfAddr(x.X); fv != nil {
						if b, ok := fv.Type().Underlying().(*types.Basic); ok && b.Info()&types.IsInteger != 0 {
							return "field:" + fv.Name()
						}
					}
				}
			}
			return ""
		}
		for _, g := range scc {
			allInstrs(g, func(in ssa.Instruction) {
				bo, ok := in.(*ssa.BinOp)
				if !ok {
					return
				}
				switch bo.Op {
				case token.GTR, token.GEQ, token.LSS, token.LEQ:
					for _, side := range []ssa.Value{bo.X, bo.Y} {
						if k := intKey(side); k != "" {
							cmpd[k] = true
						}
					}
				case token.ADD:
					if c, isC := constInt(bo.Y); isC && c > 0 {
						if k := intKey(bo.X); k != "" {
							incd[k] = true
						}
					}
				}
			})
		}
		for k := range cmpd {
			if incd[k] {
				bounded = true
			}
		}
		why := "recursive reader call must be guarded by a consumed start element so that depth is bounded by input nesting"
		if inRegion && !bounded {
			why = "the reader recurses once per nesting level of the input (" + shortName(fn) + " is on a call-graph cycle) without any depth limit: a main part nested deeply enough overflows the goroutine stack, which is fatal and cannot be turned into an error — Open must fail cleanly instead (carry a depth counter and compare it with a limit)"
		}
		r.Check("reader-recursion", shortName(fn), site, inRegion && bounded, why)
	}
	r.Min("reader_functions", n, 30)
}

// ---------------------------------------------------------------------------
// R-INIT-BODY
// ---------------------------------------------------------------------------

func ruleInitBody(r *Run) {
	open := r.mustFunc(pkgDoc, "openFromZipReader")
	if open == nil {
		return
	}
	initFieldOnOpen(r, open, "Body")
	// The two constructors must agree: every pointer/map field of Document that New() leaves non-nil
	// (the rest of the API dereferences those without a test) is non-nil after a successful Open too.
	p := r.P
	newFn := p.Func(pkgDoc, "New")
	if newFn == nil {
		r.Unresolved("document.New")
		return
	}
	set := map[string]bool{}
	fs := []*ssa.Function{newFn}
	for g := range p.staticReach(newFn) {
		fs = append(fs, g)
	}
	for _, g := range fs {
		allInstrs(g, func(in ssa.Instruction) {
			st, ok := in.(*ssa.Store)
			if !ok || isNilConst(st.Val) {
				return
			}
			fv, _ := fieldOfAddr(st.Addr)
			if fv == nil {
				return
			}
			if o := fieldOwner(p, fv); o == nil || o.Obj().Name() != "Document" || o.Obj().Pkg().Path() != pkgDoc {
				return
			}
			switch fv.Type().Underlying().(type) {
			case *types.Pointer, *types.Map:
				set[fv.Name()] = true
			}
		})
	}
	// composite literal &Document{F: v}: stores into a fresh Alloc are Stores too (covered above)
	var names []string
	for n := range set {
		if n != "Body" {
			names = append(names, n)
		}
	}
	sort.Strings(names)
	for _, n := range names {
		initFieldOnOpen(r, open, n)
	}
	r.Min("document_fields_initialised_by_New", len(names)+1, 4)
}

func initFieldOnOpen(r *Run, open *ssa.Function, field string) {
	p := r.P
	// must-store summary (least fixpoint from below over the reader functions + open)
	unwrapFn := func(v ssa.Value) *ssa.Function {
		var f *ssa.Function
		switch x := v.(type) {
		case *ssa.MakeClosure:
			f, _ = x.Fn.(*ssa.Function)
		case *ssa.Function:
			f = x
		}
		for d := 0; d < 3 && f != nil && f.Synthetic != "" && !p.inModule(f); d++ {
			var inner *ssa.Function
			allInstrs(f, func(in ssa.Instruction) {
				if ci, ok := in.(ssa.CallInstruction); ok {
					if g := ci.Common().StaticCallee(); g != nil {
						inner = g
					}
				}
			})
			f = inner
		}
		return f
	}
	cands := append([]*ssa.Function{}, buildReaderModel(p).Funcs...)
	if field != "Body" {
		// methods handed on as function values (d.parseContentTypes passed to a loading helper)
		seenC := map[*ssa.Function]bool{}
		for _, f := range cands {
			seenC[f] = true
		}
		scan := []*ssa.Function{open}
		for g := range p.staticReach(open) {
			scan = append(scan, g)
		}
		for _, g := range scan {
			allInstrs(g, func(in ssa.Instruction) {
				for _, op := range in.Operands(nil) {
					if *op == nil {
						continue
					}
					if h := unwrapFn(*op); h != nil && p.inModule(h) && h.Parent() == nil && !seenC[h] && h.Pkg != nil && h.Pkg.Pkg.Path() == pkgDoc {
						seenC[h] = true
						cands = append(cands, h)
					}
				}
			})
		}
	}
	if field != "Body" {
		// the package-level parts are read by plain functions, not token readers: everything open reaches
		inC := map[*ssa.Function]bool{}
		for _, f := range cands {
			inC[f] = true
		}
		for _, g := range sortedFuncs(p.staticReach(open)) {
			if !inC[g] && g.Parent() == nil && g.Pkg != nil && g.Pkg.Pkg.Path() == pkgDoc && g != open {
				cands = append(cands, g)
			}
		}
	}
	must := map[*ssa.Function]bool{}
	storesBody := func(in ssa.Instruction) bool {
		st, ok := in.(*ssa.Store)
		if !ok {
			return false
		}
		fv, _ := fieldOfAddr(st.Addr)
		if !fieldIs(p, fv, pkgDoc, "Document", field) {
			return false
		}
		return !isNilConst(st.Val)
	}
	nilErrReturns := func(f *ssa.Function) []*ssa.Return {
		var out []*ssa.Return
		ei := errorResultIndex(f.Signature)
		for _, ret := range returnsOf(f) {
			if ei < 0 || possiblyNilError(p, retResult(ret, ei), ret.Block()) {
				out = append(out, ret)
			}
		}
		return out
	}
	for changed := true; changed; {
		changed = false
		for _, f := range cands {
			if must[f] || len(f.Blocks) == 0 {
				continue
			}
			cut := map[*ssa.BasicBlock]bool{}
			allInstrs(f, func(in ssa.Instruction) {
				if storesBody(in) {
					cut[in.Block()] = true
				}
				if c, ok := in.(*ssa.Call); ok && must[staticCallee(c)] {
					cut[c.Block()] = true
				}
			})
			// a path that has passed `d.Body != nil` is as good as one that stored it
			for _, t := range fieldNilTestsAny(f) {
				if fieldIs(p, t.Field, pkgDoc, "Document", field) {
					for b := range t.NonNil {
						cut[b] = true
					}
				}
			}
			reach := reachableBlocks(f.Blocks[0], cut)
			ok := len(cut) > 0
			for _, ret := range nilErrReturns(f) {
				if reach[ret.Block()] {
					ok = false
				}
			}
			if ok {
				must[f] = true
				changed = true
			}
		}
	}
	// A loading helper may be handed the parser and the fallback as function values
	// (loadOptionalPart(name, d.parseContentTypes, func() { d.contentTypes = defaults() })): it is
	// evaluated per call site with those functions bound to its parameters.
	storesOnAllPaths := func(g *ssa.Function) bool {
		if g == nil || len(g.Blocks) == 0 {
			return false
		}
		cut := map[*ssa.BasicBlock]bool{}
		allInstrs(g, func(in ssa.Instruction) {
			if storesBody(in) {
				cut[in.Block()] = true
			}
			if c, ok := in.(*ssa.Call); ok && must[staticCallee(c)] {
				cut[c.Block()] = true
			}
		})
		if len(cut) == 0 {
			return false
		}
		reach := reachableBlocks(g.Blocks[0], cut)
		for _, ret := range returnsOf(g) {
			if reach[ret.Block()] {
				return false
			}
		}
		return true
	}
	evalWith := func(cal *ssa.Function, bind map[*ssa.Parameter]*ssa.Function) bool {
		if len(cal.Blocks) == 0 || len(bind) == 0 {
			return false
		}
		cut := map[*ssa.BasicBlock]bool{}
		allInstrs(cal, func(in ssa.Instruction) {
			if storesBody(in) {
				cut[in.Block()] = true
			}
			c, ok := in.(*ssa.Call)
			if !ok {
				return
			}
			if must[staticCallee(c)] {
				cut[c.Block()] = true
				return
			}
			if par, ok := c.Call.Value.(*ssa.Parameter); ok {
				if g := bind[par]; g != nil {
					if errorResultIndex(g.Signature) >= 0 {
						// the bound parser: it stores on its nil-error returns; the path on which it
						// failed goes on (to the fallback) and is judged there
						if must[g] {
							// cut only the nil-error continuation: the block that tests the error
							ev := errValueOf(c)
							if ev != nil && ev.Referrers() != nil {
								for _, u := range *ev.Referrers() {
									if bo, ok := u.(*ssa.BinOp); ok && (bo.Op == token.EQL || bo.Op == token.NEQ) && bo.Referrers() != nil {
										for _, u2 := range *bo.Referrers() {
											if iff, ok := u2.(*ssa.If); ok {
												nilSucc := iff.Block().Succs[0]
												if bo.Op == token.NEQ {
													nilSucc = iff.Block().Succs[1]
												}
												cut[nilSucc] = true
											}
										}
									}
								}
							}
						}
					} else if storesOnAllPaths(g) {
						cut[c.Block()] = true
					}
				}
			}
		})
		// a test of a bound function parameter against nil has one feasible outcome at this call site
		badEdge := map[[2]*ssa.BasicBlock]bool{}
		for par := range bind {
			if par.Referrers() == nil {
				continue
			}
			for _, u := range *par.Referrers() {
				bo, ok := u.(*ssa.BinOp)
				if !ok || (bo.Op != token.EQL && bo.Op != token.NEQ) || (!isNilConst(bo.X) && !isNilConst(bo.Y)) || bo.Referrers() == nil {
					continue
				}
				for _, u2 := range *bo.Referrers() {
					if iff, ok := u2.(*ssa.If); ok {
						nilSucc := iff.Block().Succs[0]
						if bo.Op == token.NEQ {
							nilSucc = iff.Block().Succs[1]
						}
						badEdge[[2]*ssa.BasicBlock{iff.Block(), nilSucc}] = true // infeasible here
					}
				}
			}
		}
		if len(cut) == 0 {
			return false
		}
		reach := map[*ssa.BasicBlock]bool{}
		var visit func(b *ssa.BasicBlock)
		visit = func(b *ssa.BasicBlock) {
			if reach[b] || cut[b] {
				return
			}
			reach[b] = true
			for _, sc := range b.Succs {
				if !badEdge[[2]*ssa.BasicBlock{b, sc}] {
					visit(sc)
				}
			}
		}
		visit(cal.Blocks[0])
		for _, ret := range returnsOf(cal) {
			if reach[ret.Block()] {
				return false
			}
		}
		return true
	}
	// which function is responsible?  The one called from open that (transitively) stores Body.
	var via []ssa.Instruction
	var culprit *ssa.Function
	allInstrs(open, func(in ssa.Instruction) {
		if storesBody(in) {
			via = append(via, in)
		}
		if c, ok := in.(*ssa.Call); ok {
			cal := staticCallee(c)
			if cal == nil || !p.inModule(cal) {
				return
			}
			bind := map[*ssa.Parameter]*ssa.Function{}
			for i, a := range c.Call.Args {
				if i < len(cal.Params) {
					if g := unwrapFn(a); g != nil {
						bind[cal.Params[i]] = g
					}
				}
			}
			if must[cal] || evalWith(cal, bind) {
				via = append(via, c)
			} else {
				// does it store Body at all?
				stores := false
				for f := range p.staticReach(cal) {
					allInstrs(f, func(in2 ssa.Instruction) {
						if storesBody(in2) {
							stores = true
						}
					})
				}
				if stores {
					culprit = cal
				}
			}
		}
	})
	ok := true
	for _, ret := range returnsOf(open) {
		if isNilConst(retResult(ret, 1)) {
			if !mustPassThrough(open, ret, via) {
				ok = false
			}
		}
	}
	detail := "every successful return of openFromZipReader is preceded by a store of a non-nil " + field
	pos := open.Pos()
	if !ok {
		detail = "openFromZipReader can return a document with a nil error although " + field + " was never set (New() sets it, and the API dereferences it without a test)"
		if culprit != nil {
			detail += fmt.Sprintf(": %s has a nil-error return path that does not initialise Document."+field+" (then dereferenced)", shortName(culprit))
			pos = culprit.Pos()
		}
	}
	name := "openFromZipReader"
	if culprit != nil && !ok {
		name = shortName(culprit)
	}
	if field == "Body" {
		r.Check("init-body", name, pos, ok, detail)
	} else {
		r.Check("init-field", field, pos, ok, detail)
	}
}

// ---------------------------------------------------------------------------
// R-RUN-CONTAINER (C04)
// ---------------------------------------------------------------------------

// runContainers: WordprocessingML elements that may contain w:r inside w:p
// (ECMA-376 Part 1 §17.3.2, §17.5, §17.13, §17.16): frozen.
var runContainers = []string{"hyperlink", "smartTag", "ins", "moveTo", "sdt", "fldSimple", "customXml", "dir", "bdo"}

func ruleRunContainer(r *Run) {
	p := r.P
	m := buildReaderModel(p)
	// the function handling paragraph children: has an element case whose region stores Paragraph.Runs
	var pfn *ssa.Function
	for _, f := range m.Funcs {
		for _, c := range m.ElemCmps[f] {
			for _, s := range m.storesInRegion(f, c.Region) {
				if fieldIs(p, s.Field, pkgDoc, "Paragraph", "Runs") && c.Const == "r" {
					pfn = f
				}
			}
		}
	}
	if pfn == nil {
		r.Unresolved("reader function with a case \"r\" storing Paragraph.Runs")
		return
	}
	// function that constructs Run
	var runFn *ssa.Function
	// the run reader returns one Run (other readers may build Run literals too: field markers)
	for _, f := range m.Funcs {
		res := f.Signature.Results()
		for i := 0; i < res.Len() && runFn == nil; i++ {
			if typeIs(res.At(i).Type(), pkgDoc, "Run") {
				if _, isSl := res.At(i).Type().Underlying().(*types.Slice); !isSl {
					runFn = f
				}
			}
		}
	}
	for _, f := range m.Funcs {
		if runFn != nil {
			break
		}
		allInstrs(f, func(in ssa.Instruction) {
			if a, ok := in.(*ssa.Alloc); ok && typeIs(a.Type(), pkgDoc, "Run") {
				if _, isArr := derefType(a.Type()).Underlying().(*types.Array); !isArr && runFn == nil {
					runFn = f
				}
			}
		})
	}
	if runFn == nil {
		r.Unresolved("reader function constructing document.Run")
		return
	}
	sort.Strings(runContainers)
	reachesRun := func(cal *ssa.Function) bool {
		return cal != nil && m.IsReader[cal] && (cal == runFn || p.staticReach(cal)[runFn])
	}
	// every reader function that collects runs: it has a case "r" that hands the element to the run
	// reader.  Run containers nest (a hyperlink inside a simple field, an insertion inside a
	// hyperlink), so each of these functions must let every container through.
	var collectors []*ssa.Function
	for _, f := range m.Funcs {
		isColl := false
		for _, c := range m.ElemCmps[f] {
			if c.Const != "r" {
				continue
			}
			for b := range c.Region {
				for _, in := range b.Instrs {
					if call, ok := in.(*ssa.Call); ok && reachesRun(staticCallee(call)) && b == firstBlockOfRegion(c) {
						isColl = true
					}
				}
			}
		}
		if isColl || f == pfn {
			collectors = append(collectors, f)
		}
	}
	if os.Getenv("WZDEBUG") != "" {
		for _, f := range m.Funcs {
			fmt.Fprintln(os.Stderr, "reader", shortName(f), len(m.ElemCmps[f]))
			for _, c := range m.ElemCmps[f] {
				fmt.Fprintln(os.Stderr, "   cmp", c.Const, len(c.Region))
			}
		}
		fmt.Fprintln(os.Stderr, "runFn", shortName(runFn))
	}
	r.Min("run_collecting_readers", len(collectors), 1)
	for _, f := range collectors {
		for _, name := range runContainers {
			ok, why := containerPassesThrough(p, m, f, name, reachesRun)
			key := name
			if f != pfn {
				key = shortName(f) + ":" + name
			}
			r.Check("run-container", key, f.Pos(), ok,
				fmt.Sprintf("<w:%s> may contain runs wherever runs are collected; in %s its start tag %s, so the text of the runs inside is lost on open+save", name, shortName(f), why))
		}
	}
}

func firstBlockOfRegion(c StrCmp) *ssa.BasicBlock {
	bo := c.If.Cond.(*ssa.BinOp)
	if bo.Op == token.NEQ {
		return c.Block.Succs[1]
	}
	return c.Block.Succs[0]
}

// containerPassesThrough follows what reader function f does with a start element named `name`:
// the chain of name comparisons is evaluated for that constant, and from the block it selects every
// path must reach the next Decoder.Token() (the children are read by the same loop) or a reader that
// leads to the run reader — before any other reader call (skipElement and friends consume the
// whole element).
func containerPassesThrough(p *Program, m *readerModel, f *ssa.Function, name string, reachesRun func(*ssa.Function) bool) (bool, string) {
	cmpAt := map[*ssa.BasicBlock]StrCmp{}
	for _, c := range m.ElemCmps[f] {
		cmpAt[c.Block] = c
	}
	if len(cmpAt) == 0 {
		return false, "is not dispatched on at all"
	}
	// dispatch entry: a comparison block not dominated by another comparison block's region
	var entry *ssa.BasicBlock
	for b := range cmpAt {
		if entry == nil || b.Dominates(entry) {
			entry = b
		}
	}
	type state struct {
		b *ssa.BasicBlock
		i int
	}
	seen := map[*ssa.BasicBlock]bool{}
	bad := ""
	var walk func(b *ssa.BasicBlock)
	walk = func(b *ssa.BasicBlock) {
		if bad != "" || seen[b] {
			return
		}
		seen[b] = true
		for _, in := range b.Instrs {
			call, ok := in.(*ssa.Call)
			if !ok {
				continue
			}
			if calleeName(call) == decoderToken {
				return // children are read by the loop
			}
			cal := staticCallee(call)
			if cal == nil || !p.inModule(cal) {
				continue
			}
			if reachesRun(cal) {
				return // descends
			}
			if m.IsReader[cal] {
				bad = "is handed to " + shortName(cal) + " (" + p.pos(call.Pos()) + "), which consumes the element without collecting runs"
				return
			}
		}
		if c, ok := cmpAt[b]; ok {
			bo := c.If.Cond.(*ssa.BinOp)
			eq, ne := b.Succs[0], b.Succs[1]
			if bo.Op == token.NEQ {
				eq, ne = ne, eq
			}
			if c.Const == name {
				walk(eq)
			} else {
				walk(ne)
			}
			return
		}
		if len(b.Instrs) > 0 {
			if _, isRet := b.Instrs[len(b.Instrs)-1].(*ssa.Return); isRet {
				return
			}
		}
		for _, s := range b.Succs {
			walk(s)
		}
	}
	walk(entry)
	if bad != "" {
		return false, bad
	}
	return true, "passes through"
}

// neverNilError: module functions whose error result is never nil (error constructors).
var neverNilCache = map[*ssa.Function]int{} // 0 unknown, 1 yes, 2 no, 3 in progress

func neverNilError(p *Program, f *ssa.Function) bool {
	if f == nil {
		return false
	}
	switch fullName(f) {
	case "fmt.Errorf", "errors.New":
		return true
	}
	if !p.inModule(f) {
		return false
	}
	switch neverNilCache[f] {
	case 1:
		return true
	case 2, 3:
		return false
	}
	neverNilCache[f] = 3
	ei := errorResultIndex(f.Signature)
	ok := ei >= 0 && len(f.Blocks) > 0
	if ok {
		for _, ret := range returnsOf(f) {
			if possiblyNilError(p, retResult(ret, ei), ret.Block()) {
				ok = false
			}
		}
	}
	if ok {
		neverNilCache[f] = 1
	} else {
		neverNilCache[f] = 2
	}
	return ok
}

// possiblyNilError: may the error value v be nil when control is in block b?
func possiblyNilError(p *Program, v ssa.Value, b *ssa.BasicBlock) bool {
	switch x := v.(type) {
	case *ssa.Const:
		return x.Value == nil
	case *ssa.MakeInterface:
		return false
	case *ssa.Call:
		if neverNilError(p, staticCallee(x)) {
			return false
		}
		// nil-preserving wrapper: nil iff its k-th argument is nil
		if k := nilIffParam(p, staticCallee(x)); k >= 0 && k < len(x.Call.Args) {
			return possiblyNilError(p, x.Call.Args[k], b)
		}
	case *ssa.UnOp:
		// package-level error values (errors.New at init, never reassigned: see global-state)
		if g, ok := x.X.(*ssa.Global); ok && x.Op == token.MUL && isErrorType(x.Type()) && strings.HasPrefix(g.Name(), "Err") {
			return false
		}
	case *ssa.Phi:
		for _, e := range x.Edges {
			if possiblyNilError(p, e, b) {
				return true
			}
		}
		return false
	}
	// inside the true branch of `v != nil`?
	if refs := v.Referrers(); refs != nil {
		for _, in := range *refs {
			bo, ok := in.(*ssa.BinOp)
			if !ok || (bo.Op != token.NEQ && bo.Op != token.EQL) || (!isNilConst(bo.X) && !isNilConst(bo.Y)) {
				continue
			}
			if br := bo.Referrers(); br != nil {
				for _, u := range *br {
					if iff, ok := u.(*ssa.If); ok {
						nn := iff.Block().Succs[0]
						if bo.Op == token.EQL {
							nn = iff.Block().Succs[1]
						}
						if edgeRegion(iff.Block(), nn)[b] {
							return false
						}
					}
				}
			}
		}
	}
	return true
}

// nilIffParam: f returns a nil error exactly on the paths where its error parameter k is nil.
func nilIffParam(p *Program, f *ssa.Function) int {
	if f == nil || !p.inModule(f) || len(f.Blocks) == 0 {
		return -1
	}
	ei := errorResultIndex(f.Signature)
	if ei < 0 {
		return -1
	}
	for k, par := range f.Params {
		if !isErrorType(par.Type()) {
			continue
		}
		// nil region of `par == nil`
		nilRegion := map[*ssa.BasicBlock]bool{}
		if refs := par.Referrers(); refs != nil {
			for _, in := range *refs {
				bo, ok := in.(*ssa.BinOp)
				if !ok || (bo.Op != token.NEQ && bo.Op != token.EQL) || (!isNilConst(bo.X) && !isNilConst(bo.Y)) {
					continue
				}
				if br := bo.Referrers(); br != nil {
					for _, u := range *br {
						if iff, ok := u.(*ssa.If); ok {
							nb := iff.Block().Succs[0]
							if bo.Op == token.NEQ {
								nb = iff.Block().Succs[1]
							}
							for b := range edgeRegion(iff.Block(), nb) {
								nilRegion[b] = true
							}
						}
					}
				}
			}
		}
		if len(nilRegion) == 0 {
			continue
		}
		ok := true
		for _, ret := range returnsOf(f) {
			v := retResult(ret, ei)
			if nilRegion[ret.Block()] {
				continue
			}
			if possiblyNilError(p, v, ret.Block()) {
				ok = false
			}
		}
		if ok {
			return k
		}
	}
	return -1
}
