package main

// R-PART-FROM-REGISTRY (C13, C15): a part that is regenerated from a registry (styles, notes,
// numbering) must contain EVERY entry of that registry.  Decided structurally: the slice that is
// marshalled is built by appending, inside a range loop over the registry collection (or over a
// slice that itself contains all of it), the loop's element on every path through the loop body —
// no filter, no early continue, no counted loop with lookups that assumes contiguous ids.

import (
	"fmt"
	"go/token"
	"go/types"

	"golang.org/x/tools/go/ssa"
)

// rangeInfo describes a `for … range X` loop.
type rangeInfo struct {
	Loop *natLoop
	X    ssa.Value // the collection ranged over
	Elem []ssa.Value
}

// rangeOf recognises both lowerings of a range loop: Range/Next for maps and strings, and the
// index-phi form for slices (isBoundedRange).
func rangeOf(l *natLoop) *rangeInfo {
	h := l.Header
	if len(h.Instrs) == 0 {
		return nil
	}
	iff, ok := h.Instrs[len(h.Instrs)-1].(*ssa.If)
	if !ok {
		return nil
	}
	switch c := iff.Cond.(type) {
	case *ssa.Extract:
		nx, ok := c.Tuple.(*ssa.Next)
		if !ok || c.Index != 0 {
			return nil
		}
		rg, ok := nx.Iter.(*ssa.Range)
		if !ok {
			return nil
		}
		ri := &rangeInfo{Loop: l, X: rg.X}
		if nx.Referrers() != nil {
			for _, u := range *nx.Referrers() {
				if ex, ok := u.(*ssa.Extract); ok && ex.Index > 0 {
					ri.Elem = append(ri.Elem, ex)
				}
			}
		}
		return ri
	case *ssa.BinOp:
		if !isBoundedRange(l) {
			return nil
		}
		// (phi+1) < len(X): find X from the len call
		var x ssa.Value
		if lc, ok := c.Y.(*ssa.Call); ok {
			if b, ok := lc.Call.Value.(*ssa.Builtin); ok && b.Name() == "len" {
				x = lc.Call.Args[0]
			}
		}
		if x == nil {
			return nil
		}
		ri := &rangeInfo{Loop: l, X: x}
		// elements: IndexAddr / Index on x inside the loop
		for b := range l.Body {
			for _, in := range b.Instrs {
				switch e := in.(type) {
				case *ssa.IndexAddr:
					if e.X == x || sameLoadedSlice(e.X, x) {
						ri.Elem = append(ri.Elem, e)
					}
				case *ssa.Index:
					if e.X == x {
						ri.Elem = append(ri.Elem, e)
					}
				}
			}
		}
		return ri
	}
	return nil
}

// sameLoadedSlice: a and b are two loads of the same slice variable / field (`for i := range row.Cells`
// reads row.Cells once for len() and again for &row.Cells[i]).
func sameLoadedSlice(a, b ssa.Value) bool {
	la, ok1 := a.(*ssa.UnOp)
	lb, ok2 := b.(*ssa.UnOp)
	if !ok1 || !ok2 || la.Op != token.MUL || lb.Op != token.MUL {
		return false
	}
	return la.X == lb.X || pathString(la.X) == pathString(lb.X)
}

type collector struct {
	p     *Program
	depth int
	// paramComplete: treat a slice parameter as a complete collection (the question is then
	// "does the result keep every element of its argument?")
	paramComplete bool
}

// containsAll decides whether slice value v holds every element of some registry collection.
// It returns the description of the collection on success, or the reason for failure.
func (c *collector) containsAll(v ssa.Value) (bool, string) {
	if c.depth > 4 {
		return false, "provenance too deep to decide"
	}
	v = stripConv(v)
	switch x := v.(type) {
	case *ssa.Call:
		if b, ok := x.Call.Value.(*ssa.Builtin); ok && b.Name() == "append" {
			return c.accumulator(x.Parent(), v, nil, nil)
		}
		cal := staticCallee(x)
		if cal == nil || !c.p.inModule(cal) || len(cal.Blocks) == 0 {
			return false, "result of " + calleeName(x) + " (not analysable)"
		}
		c.depth++
		defer func() { c.depth-- }()
		inner := ""
		for _, ret := range returnsOf(cal) {
			if len(ret.Results) == 0 {
				return false, "no result"
			}
			ok, why := c.containsAll(ret.Results[0])
			if !ok {
				return false, shortName(cal) + ": " + why
			}
			inner = why
		}
		return true, "built by " + shortName(cal) + " (" + inner + ")"
	case *ssa.Phi:
		return c.accumulator(x.Parent(), v, nil, nil)
	case *ssa.UnOp:
		if x.Op == token.MUL {
			if fv, base := fieldOfAddr(x.X); fv != nil {
				if al, ok := stripLoads(base).(*ssa.Alloc); ok {
					// a field of a local struct used as accumulator
					return c.accumulator(x.Parent(), nil, al, fv)
				}
				// a field of a longer-lived object: the registry collection itself — unless it is a slice
				// kept NEXT TO a registry map of the same element type (a cached listing): that is complete
				// only if every function that changes the map also resets the cache on every path
				if _, isSlice := fv.Type().Underlying().(*types.Slice); isSlice {
					if ok, why := c.cacheDisciplined(fv); !ok {
						return false, why
					}
				}
				return true, "the collection " + fv.Name() + " itself"
			}
			if al, ok := x.X.(*ssa.Alloc); ok {
				return c.accumulatorVar(al)
			}
		}
	case *ssa.Parameter:
		if c.paramComplete {
			return true, "the parameter " + x.Name()
		}
		// a helper that is handed the list (writeNotesPart(notes)): complete if the argument is at
		// every call site that passes one (nil = the initial, empty part)
		if h := x.Parent(); h != nil && c.depth < 3 {
			pi := paramIndex(h, x)
			sites, okAll, why := 0, true, ""
			c.depth++
			for caller := range c.p.callersIndex()[h] {
				allInstrs(caller, func(in ssa.Instruction) {
					call, ok := in.(ssa.CallInstruction)
					if !ok || staticCallee(call) != h || pi >= len(call.Common().Args) {
						return
					}
					a := call.Common().Args[pi]
					if isNilConst(a) {
						return
					}
					sites++
					if o, w := c.containsAll(a); !o {
						okAll, why = false, w
					} else if why == "" {
						why = w
					}
				})
			}
			c.depth--
			if sites > 0 && okAll {
				return true, "argument of " + shortName(h) + " (" + why + ")"
			}
			if sites > 0 {
				return false, why
			}
		}
	case *ssa.MakeSlice, *ssa.Const:
		return false, "an empty slice"
	case *ssa.Slice:
		return c.containsAll(x.X)
	}
	return false, fmt.Sprintf("value of unrecognised shape (%T)", v)
}

// accumulatorVar: a slice held in a local variable that lives in memory (captured by a closure).
func (c *collector) accumulatorVar(al *ssa.Alloc) (bool, string) {
	var last string
	if al.Referrers() == nil {
		return false, "unused variable"
	}
	for _, u := range *al.Referrers() {
		if st, ok := u.(*ssa.Store); ok && st.Addr == ssa.Value(al) {
			if ok, why := c.containsAll(st.Val); ok {
				return true, why
			} else {
				last = why
			}
		}
	}
	return false, last
}

// accumulator: the appends that feed either the SSA value v (phi/append chain) or the field fv of
// local struct al; at least one of them must sit in a range loop over a complete collection and
// be executed on every iteration with the loop's element.
func (c *collector) accumulator(fn *ssa.Function, v ssa.Value, al *ssa.Alloc, fv *types.Var) (bool, string) {
	var appends []*ssa.Call
	if v != nil {
		seen := map[ssa.Value]bool{}
		var walk func(x ssa.Value)
		walk = func(x ssa.Value) {
			x = stripConv(x)
			if x == nil || seen[x] {
				return
			}
			seen[x] = true
			switch y := x.(type) {
			case *ssa.Phi:
				for _, e := range y.Edges {
					walk(e)
				}
			case *ssa.Call:
				if b, ok := y.Call.Value.(*ssa.Builtin); ok && b.Name() == "append" {
					appends = append(appends, y)
					walk(y.Call.Args[0])
				} else if cal := staticCallee(y); cal != nil && c.p.inModule(cal) {
					// seeded from another complete slice: x := f(); x = append(x, …)
					if ok, _ := c.containsAll(y); ok {
						appends = append(appends, nil)
					}
				}
			}
		}
		walk(v)
	} else {
		allInstrs(fn, func(in ssa.Instruction) {
			st, ok := in.(*ssa.Store)
			if !ok {
				return
			}
			f2, base := fieldOfAddr(st.Addr)
			if f2 != fv || stripLoads(base) != ssa.Value(al) {
				return
			}
			if call, ok := stripConv(st.Val).(*ssa.Call); ok {
				if b, ok := call.Call.Value.(*ssa.Builtin); ok && b.Name() == "append" {
					appends = append(appends, call)
				}
			}
		})
	}
	if len(appends) == 0 {
		return false, "nothing is ever appended to it"
	}
	loops := naturalLoops(fn)
	why := "no append sits in a range loop over the registry"
	for _, ap := range appends {
		if ap == nil {
			return true, "starts from a complete slice"
		}
		// append(x, coll...) with coll complete: the whole collection is added in one go
		if len(ap.Call.Args) == 2 {
			if _, isLit := stripConv(ap.Call.Args[1]).(*ssa.Slice); !isLit {
				c.depth++
				ok, w := c.containsAll(ap.Call.Args[1])
				c.depth--
				if ok {
					// …provided no later step can drop or overwrite elements again: not inside a loop
					inLoop := false
					for _, cand := range loops {
						if cand.Body[ap.Block()] {
							inLoop = true
						}
					}
					if !inLoop {
						return true, "appends " + w
					}
				}
			}
		}
		// innermost loop containing the append
		var l *natLoop
		for _, cand := range loops {
			if cand.Body[ap.Block()] && (l == nil || len(cand.Body) < len(l.Body)) {
				l = cand
			}
		}
		if l == nil {
			continue
		}
		ri := rangeOf(l)
		if ri == nil {
			why = fmt.Sprintf("the loop at %s that fills it is not a range over the registry (a counted loop with look-ups visits only the keys it guesses)", c.p.pos(l.Header.Instrs[0].Pos()))
			continue
		}
		// the appended element must be the loop's element
		elemOK := false
		if len(ap.Call.Args) > 1 {
			for _, e := range varargElems(ap.Call.Args[1]) {
				for rt := range rootsOf(e) {
					for _, le := range ri.Elem {
						if rt == le || stripLoads(e) == le {
							elemOK = true
						}
					}
					if nx, ok := rt.(*ssa.Next); ok && len(ri.Elem) > 0 {
						if ex, ok := ri.Elem[0].(*ssa.Extract); ok && ex.Tuple == ssa.Value(nx) {
							elemOK = true
						}
					}
				}
				for _, le := range ri.Elem {
					if e == le {
						elemOK = true
					}
					if ld, ok := e.(*ssa.UnOp); ok && ld.X == le {
						elemOK = true
					}
				}
				// a local struct copy of the element with some field adjusted (newRun := run; newRun.X = …)
				if !elemOK && copyOfLoopElem(e, ri.Elem, 0) {
					elemOK = true
				}
			}
		}
		keyedLookup := false
		if !elemOK && len(ap.Call.Args) > 1 {
			// for _, id := range ids { out = append(out, registry[id]) } with ids = every key of the
			// registry (collected, possibly sorted): every entry is visited exactly through its key
			for _, e := range varargElems(ap.Call.Args[1]) {
				lk, ok := stripLoads(e).(*ssa.Lookup)
				if !ok {
					if ex, isEx := e.(*ssa.Extract); isEx {
						lk, ok = ex.Tuple.(*ssa.Lookup)
					}
				}
				if !ok || lk == nil {
					continue
				}
				ch, _ := addrChain(lk.X)
				if len(ch) == 0 || ch[len(ch)-1] == nil {
					continue
				}
				isElem := false
				for _, le := range ri.Elem {
					if lk.Index == le {
						isElem = true
					}
					if ld, ok := lk.Index.(*ssa.UnOp); ok && ld.X == le {
						isElem = true
					}
				}
				if isElem && c.containsAllKeys(ri.X, ch[len(ch)-1], 0) {
					keyedLookup = true
				}
			}
		}
		if !elemOK && !keyedLookup {
			why = "what is appended in the loop is not the loop's element"
			continue
		}
		// every path from the body entry back to the header passes the append
		iff := l.Header.Instrs[len(l.Header.Instrs)-1].(*ssa.If)
		body := iff.Block().Succs[0]
		if !l.Body[body] {
			body = iff.Block().Succs[1]
		}
		// the appends of the loop's element in this loop, taken together (an if/else that appends
		// the element in one branch and an adjusted copy of it in the other covers every iteration)
		cut := map[*ssa.BasicBlock]bool{ap.Block(): true}
		for _, ap2 := range appends {
			if ap2 == nil || ap2 == ap || !l.Body[ap2.Block()] || len(ap2.Call.Args) < 2 {
				continue
			}
			for _, e2 := range varargElems(ap2.Call.Args[1]) {
				if copyOfLoopElem(e2, ri.Elem, 0) {
					cut[ap2.Block()] = true
				}
			}
		}
		if !cut[body] && reachableBlocks(body, cut)[l.Header] {
			why = fmt.Sprintf("some iterations of the loop at %s skip the append (a filter or an early continue): entries of the registry are silently left out", c.p.pos(ap.Pos()))
			continue
		}
		if keyedLookup {
			return true, "range over every key of the registry (collected first), each entry looked up by its key"
		}
		// the ranged collection must itself be complete
		if ok, w := c.containsAll(ri.X); ok {
			return true, "range over " + w
		} else {
			why = "it ranges over something that is not known to be complete: " + w
		}
	}
	return false, why
}

// copyOfLoopElem: v is (a load of) a local variable whose whole value was copied from the loop's
// element, possibly through another such variable.
func copyOfLoopElem(v ssa.Value, elems []ssa.Value, depth int) bool {
	if depth > 3 {
		return false
	}
	for _, le := range elems {
		if v == le {
			return true
		}
		if ld, ok := v.(*ssa.UnOp); ok && ld.Op == token.MUL && ld.X == le {
			return true
		}
	}
	ld, ok := v.(*ssa.UnOp)
	if !ok || ld.Op != token.MUL {
		return false
	}
	al, ok := ld.X.(*ssa.Alloc)
	if !ok || al.Referrers() == nil {
		return false
	}
	whole := 0
	okAll := true
	for _, u := range *al.Referrers() {
		if st, ok := u.(*ssa.Store); ok && st.Addr == ssa.Value(al) {
			whole++
			if !copyOfLoopElem(st.Val, elems, depth+1) {
				okAll = false
			}
		}
	}
	return whole > 0 && okAll
}

// registrySinks: struct field (owner type name → field) whose marshalled slice must contain the
// whole registry, and the function that fills it.
// The sink is identified by the ELEMENT type of the marshalled slice field ([]*Footnote, []*style.Style …),
// not by the name of the struct or field that holds it: the wrapper struct may be renamed or moved.
var registrySinks = []struct{ Fn, Owner, Field, ElemPkg, Elem, What string }{
	{"(*Document).updateFootnotesFile", "Footnotes", "Footnotes", pkgDoc, "Footnote", "word/footnotes.xml ← every registered footnote"},
	{"(*Document).updateEndnotesFile", "Endnotes", "Endnotes", pkgDoc, "Endnote", "word/endnotes.xml ← every registered endnote"},
	{"(*Document).updateNumberingFile", "Numbering", "AbstractNums", pkgDoc, "AbstractNum", "word/numbering.xml ← every abstract numbering definition"},
	{"(*Document).updateNumberingFile", "Numbering", "NumberingInstances", pkgDoc, "NumInstance", "word/numbering.xml ← every numbering instance"},
	{"(*Document).serializeStyles", "stylesXML", "Styles", pkgSty, "Style", "word/styles.xml ← every style of the registry"},
}

// sliceOfPtrTo: t is []*pkg.name (or []pkg.name).
func sliceOfPtrTo(t types.Type, pkg, name string) bool {
	sl, ok := t.Underlying().(*types.Slice)
	if !ok {
		return false
	}
	return typeIs(sl.Elem(), pkg, name)
}

// freshObject: v is an allocation made here, or the result of a module constructor all of whose
// returns are allocations (newNumberingRoot()).
func freshObject(p *Program, v ssa.Value) bool {
	switch x := v.(type) {
	case *ssa.Alloc:
		return true
	case *ssa.Call:
		cal := staticCallee(x)
		if cal == nil || !p.inModule(cal) || len(cal.Blocks) == 0 {
			return false
		}
		for _, ret := range returnsOf(cal) {
			if len(ret.Results) != 1 {
				return false
			}
			if _, ok := stripLoads(ret.Results[0]).(*ssa.Alloc); !ok {
				return false
			}
		}
		return true
	}
	return false
}

// readsRegistry: g (or a function it statically reaches) ranges over a map whose values are *elem —
// the registry the part is regenerated from.
func readsRegistry(p *Program, g *ssa.Function, elem string) bool {
	found := false
	// the list is handed in by the caller (completeness is then decided at the call sites)
	for _, par := range topLevel(g).Params {
		if sl, ok := par.Type().Underlying().(*types.Slice); ok {
			if n := namedOf(sl.Elem()); n != nil && n.Obj().Name() == elem {
				return true
			}
		}
		// or the registry map itself is handed in (buildNotesRoot(manager.footnotes))
		if mt, ok := par.Type().Underlying().(*types.Map); ok {
			if n := namedOf(mt.Elem()); n != nil && n.Obj().Name() == elem {
				return true
			}
		}
	}
	fs := []*ssa.Function{g}
	for h := range p.staticReach(g) {
		fs = append(fs, h)
	}
	for _, f := range fs {
		allInstrs(f, func(in ssa.Instruction) {
			// touches the registry map at all (range, look-up, len): an initialising function that writes
			// the empty part never does
			if fa, ok := in.(*ssa.FieldAddr); ok {
				if fv, _ := fieldOfAddr(fa); fv != nil {
					if mt, ok := fv.Type().Underlying().(*types.Map); ok {
						if n := namedOf(mt.Elem()); n != nil && n.Obj().Name() == elem {
							found = true
						}
					}
				}
			}
			// the style registry is read through GetAllStyles()
			if c, ok := in.(*ssa.Call); ok && elem == "Style" {
				if cal := staticCallee(c); cal != nil && cal.Name() == "GetAllStyles" {
					found = true
				}
			}
		})
	}
	return found
}

func rulePartFromRegistry(only ...string) func(r *Run) {
	return func(r *Run) {
		p := r.P
		n, want := 0, 0
		for _, s := range registrySinks {
			if len(only) > 0 {
				hit := false
				for _, o := range only {
					if o == s.Owner {
						hit = true
					}
				}
				if !hit {
					continue
				}
			}
			want++
			// the function that fills the marshalled struct: the recorded one, its private helpers — or,
			// when the part writing was reorganised (writeNotesPart shared by both note kinds,
			// marshalStylesPart shared with an accessor), whichever function stores a slice of the
			// sink's element type into a struct it builds for marshalling
			var vals []ssa.Value
			var pos token.Pos
			var accAl *ssa.Alloc
			var accF *types.Var
			var fn *ssa.Function
			reader := buildReaderModel(p)
			cl := map[*ssa.Function]bool{}
			for _, c := range discoverClones(p, pkgDoc) {
				cl[c.Fn] = true
			}
			var scope []*ssa.Function
			for _, g := range p.ModFuncs() {
				if g.Pkg != nil && g.Pkg.Pkg.Path() == pkgDoc && !reader.IsReader[topLevel(g)] && !cl[topLevel(g)] {
					scope = append(scope, g)
				}
			}
			group := scope
			forEachInstrFn(group, func(g *ssa.Function, in ssa.Instruction) {
				st, ok := in.(*ssa.Store)
				if !ok {
					return
				}
				fv, base := fieldOfAddr(st.Addr)
				if fv == nil || !sliceOfPtrTo(fv.Type(), s.ElemPkg, s.Elem) {
					return
				}
				// a field of a struct that is being built for marshalling (an XML-tagged field), not
				// the registry itself
				if o := fieldOwner(p, fv); o != nil {
					if on := o.Obj().Name(); on == "FootnoteManager" || on == "NumberingManager" || on == "StyleManager" {
						return
					}
				}
				if !freshObject(p, stripLoads(base)) {
					return
				}
				// initialisation of an empty part (only the separator notes / no entries) is not a
				// regeneration from the registry: skip stores of literal slices in functions that never
				// read the registry maps
				if !readsRegistry(p, g, s.Elem) {
					return
				}
				if fn == nil {
					fn = g
				}
				pos = st.Pos()
				if prm, ok := st.Val.(*ssa.Parameter); ok {
					// the list is handed to a helper that builds the struct: take the arguments at its call sites
					idx := paramIndex(g, prm)
					for caller := range p.callersIndex()[g] {
						allInstrs(caller, func(in2 ssa.Instruction) {
							if c, ok := in2.(ssa.CallInstruction); ok && staticCallee(c) == g && idx >= 0 && idx < len(c.Common().Args) {
								vals = append(vals, c.Common().Args[idx])
							}
						})
					}
					return
				}
				vals = append(vals, st.Val)
				if al, ok := stripLoads(base).(*ssa.Alloc); ok {
					accAl, accF, fn = al, fv, g
				}
			})
			if len(vals) == 0 {
				r.Unresolved(s.Fn + ": store to " + s.Owner + "." + s.Field)
				continue
			}
			n++
			c := &collector{p: p}
			ok, why := false, ""
			// accumulate-in-field form first, then the plain values
			if accAl != nil {
				ok, why = c.accumulator(fn, nil, accAl, accF)
			}
			if !ok {
				for _, v := range vals {
					if o2, w2 := c.containsAll(v); o2 {
						ok, why = true, w2
						break
					} else if why == "" || accAl == nil {
						why = w2
					}
				}
			}
			r.Check("part-from-registry", s.Owner+"."+s.Field, pos, ok,
				fmt.Sprintf("%s: %s", s.What, map[bool]string{true: "complete (" + why + ")", false: "NOT shown complete — " + why}[ok]))
		}
		r.Min("registry_backed_part_fields", n, want)
	}
}

// containsAllKeys: slice value v holds every key of the map stored in field mapField — it is built
// by appending the key on every iteration of a range loop over that map (in this function or in a
// helper whose result it is); sorting in place does not lose keys.
func (c *collector) containsAllKeys(v ssa.Value, mapField *types.Var, depth int) bool {
	if depth > 3 || v == nil {
		return false
	}
	v = stripConv(v)
	switch x := v.(type) {
	case *ssa.Call:
		if b, ok := x.Call.Value.(*ssa.Builtin); ok && b.Name() == "append" {
			return c.keyAccumulator(x.Parent(), v, mapField)
		}
		cal := staticCallee(x)
		if cal == nil || !c.p.inModule(cal) || len(cal.Blocks) == 0 {
			return false
		}
		rets := returnsOf(cal)
		if len(rets) == 0 {
			return false
		}
		for _, ret := range rets {
			if len(ret.Results) == 0 || !c.containsAllKeys(ret.Results[0], mapField, depth+1) {
				return false
			}
		}
		return true
	case *ssa.Phi:
		return c.keyAccumulator(x.Parent(), v, mapField)
	case *ssa.Slice:
		return c.containsAllKeys(x.X, mapField, depth)
	case *ssa.UnOp:
		if al, ok := x.X.(*ssa.Alloc); ok && x.Op == token.MUL && al.Referrers() != nil {
			for _, u := range *al.Referrers() {
				if st, ok := u.(*ssa.Store); ok && st.Addr == ssa.Value(al) && c.containsAllKeys(st.Val, mapField, depth+1) {
					return true
				}
			}
		}
	}
	return false
}

func (c *collector) keyAccumulator(fn *ssa.Function, v ssa.Value, mapField *types.Var) bool {
	var appends []*ssa.Call
	seen := map[ssa.Value]bool{}
	var walk func(x ssa.Value)
	walk = func(x ssa.Value) {
		x = stripConv(x)
		if x == nil || seen[x] {
			return
		}
		seen[x] = true
		switch y := x.(type) {
		case *ssa.Phi:
			for _, e := range y.Edges {
				walk(e)
			}
		case *ssa.Call:
			if b, ok := y.Call.Value.(*ssa.Builtin); ok && b.Name() == "append" {
				appends = append(appends, y)
				walk(y.Call.Args[0])
			}
		}
	}
	walk(v)
	loops := naturalLoops(fn)
	for _, ap := range appends {
		var l *natLoop
		for _, cand := range loops {
			if cand.Body[ap.Block()] && (l == nil || len(cand.Body) < len(l.Body)) {
				l = cand
			}
		}
		if l == nil || len(ap.Call.Args) < 2 {
			continue
		}
		ri := rangeOf(l)
		if ri == nil {
			continue
		}
		ch, _ := addrChain(ri.X)
		if len(ch) == 0 || ch[len(ch)-1] != mapField {
			continue
		}
		// the appended element is the key of the map range (Extract #1 of the iterator's Next)
		isKey := false
		for _, e := range varargElems(ap.Call.Args[1]) {
			if ex, ok := e.(*ssa.Extract); ok && ex.Index == 1 {
				if _, isNext := ex.Tuple.(*ssa.Next); isNext {
					isKey = true
				}
			}
		}
		if !isKey {
			continue
		}
		iff := l.Header.Instrs[len(l.Header.Instrs)-1].(*ssa.If)
		body := iff.Block().Succs[0]
		if !l.Body[body] {
			body = iff.Block().Succs[1]
		}
		cut := map[*ssa.BasicBlock]bool{ap.Block(): true}
		if !cut[body] && reachableBlocks(body, cut)[l.Header] {
			continue
		}
		return true
	}
	return false
}

// cacheDisciplined: fv is a slice field; if its owner struct also has a map field with the same
// element type (the registry the slice caches), every function that updates or deletes from that map
// must store to fv on every path to a return that the update can reach.
func (c *collector) cacheDisciplined(fv *types.Var) (bool, string) {
	p := c.p
	owner := fieldOwner(p, fv)
	if owner == nil {
		return true, ""
	}
	sl := fv.Type().Underlying().(*types.Slice)
	st := owner.Underlying().(*types.Struct)
	var regs []*types.Var
	for i := 0; i < st.NumFields(); i++ {
		if mt, ok := st.Field(i).Type().Underlying().(*types.Map); ok && types.Identical(mt.Elem(), sl.Elem()) {
			regs = append(regs, st.Field(i))
		}
	}
	if len(regs) == 0 {
		return true, ""
	}
	isReg := func(v ssa.Value) bool {
		ch, _ := addrChain(v)
		if len(ch) == 0 || ch[len(ch)-1] == nil {
			return false
		}
		for _, rg := range regs {
			if ch[len(ch)-1] == rg {
				return true
			}
		}
		return false
	}
	for _, fn := range p.ModFuncs() {
		var updates, resets []ssa.Instruction
		allInstrs(fn, func(in ssa.Instruction) {
			switch x := in.(type) {
			case *ssa.MapUpdate:
				if isReg(x.Map) {
					updates = append(updates, x)
				}
			case *ssa.Call:
				if b, ok := x.Call.Value.(*ssa.Builtin); ok && b.Name() == "delete" && len(x.Call.Args) > 0 && isReg(x.Call.Args[0]) {
					updates = append(updates, x)
				}
			case *ssa.Store:
				if f2, _ := fieldOfAddr(x.Addr); f2 == fv {
					resets = append(resets, x)
				}
			}
		})
		if len(updates) == 0 {
			continue
		}
		// construction of a fresh owner (NewStyleManager, Clone) fills the map of an object nobody has listed yet
		freshOwner := true
		for _, u := range updates {
			var m ssa.Value
			switch x := u.(type) {
			case *ssa.MapUpdate:
				m = x.Map
			case *ssa.Call:
				m = x.Call.Args[0]
			}
			_, root := addrChain(m)
			if !freshObject(p, stripLoads(root)) {
				freshOwner = false
			}
		}
		if freshOwner {
			continue
		}
		for _, u := range updates {
			for _, ret := range returnsOf(fn) {
				if !instrBefore(u, ret) {
					continue
				}
				if len(resets) == 0 || !mustPassThrough(fn, ret, resets) {
					return false, fmt.Sprintf("%s is a cached listing kept next to the registry map; %s changes the registry (at %s) but does not reset the cache on every path: a later listing — and the part written from it — misses the change", fv.Name(), shortName(fn), p.pos(u.Pos()))
				}
			}
		}
	}
	return true, ""
}
