package main

// Rules added after round 5 (each a structural necessary condition; see DESIGN.md §15).

import (
	"fmt"
	"go/token"
	"go/types"
	"sort"
	"strings"

	"golang.org/x/tools/go/ssa"
)

var _ = sort.Strings
var _ = strings.HasPrefix
var _ token.Pos

// ---------------------------------------------------------------------------
// R-ALLOC-APPEND-ATOMIC (C02 C10 C11): an id taken from the allocator is fresh only for the list
// as it is at that moment.  Between the allocator call and the point where the relationship that
// carries the id is appended (or the id is handed to the helper that appends it), nothing may run
// that can add a relationship to a list of the document — otherwise that addition takes the same
// id (the allocator sees the same list twice).
// ---------------------------------------------------------------------------

func isRelAllocator(p *Program, fn *ssa.Function) bool {
	if fn == nil || fn.Pkg == nil || fn.Pkg.Pkg.Path() != pkgDoc || fn.Parent() != nil || len(fn.Blocks) == 0 {
		return false
	}
	if fn.Signature.Results().Len() != 1 || !isStringType(fn.Signature.Results().At(0).Type()) {
		return false
	}
	for _, par := range fn.Params {
		if s, ok := par.Type().Underlying().(*types.Slice); ok && typeIs(s.Elem(), pkgDoc, "Relationship") {
			return true
		}
	}
	return false
}

// relAdders: module functions that (transitively) append to a []Relationship field or call the allocator.
func relAdders(p *Program) map[*ssa.Function]bool {
	direct := map[*ssa.Function]bool{}
	for _, fn := range p.ModFuncs() {
		allInstrs(fn, func(in ssa.Instruction) {
			switch x := in.(type) {
			case *ssa.Store:
				fv, _ := fieldOfAddr(x.Addr)
				if fv == nil {
					return
				}
				if s, ok := fv.Type().Underlying().(*types.Slice); ok && typeIs(s.Elem(), pkgDoc, "Relationship") {
					if c, ok := x.Val.(*ssa.Call); ok {
						if b, ok := c.Call.Value.(*ssa.Builtin); ok && b.Name() == "append" {
							direct[topLevel(fn)] = true
						}
					}
				}
			}
		})
	}
	out := map[*ssa.Function]bool{}
	for _, fn := range p.ModFuncs() {
		if fn.Parent() != nil {
			continue
		}
		if direct[fn] {
			out[fn] = true
			continue
		}
		for g := range p.staticReach(fn) {
			if direct[topLevel(g)] {
				out[fn] = true
				break
			}
		}
	}
	return out
}

func instrBefore(a, b ssa.Instruction) bool {
	if a.Block() == b.Block() {
		return instrIndex(a) < instrIndex(b)
	}
	return blockReaches(a.Block(), b.Block())
}

func ruleAllocAppendAtomic(r *Run) {
	p := r.P
	adders := relAdders(p)
	n := 0
	perFn := map[string]int{}
	for _, fn := range p.ModFuncs() {
		if fn.Pkg == nil || fn.Pkg.Pkg.Path() != pkgDoc {
			continue
		}
		allInstrs(fn, func(in ssa.Instruction) {
			c, ok := in.(*ssa.Call)
			if !ok || !isRelAllocator(p, staticCallee(c)) {
				return
			}
			// consumers of the id: the store of a Relationship.ID, or a module call that is handed the id
			var uses []ssa.Instruction
			seen := map[ssa.Value]bool{}
			var follow func(v ssa.Value, depth int)
			follow = func(v ssa.Value, depth int) {
				if v == nil || seen[v] || depth > 6 || v.Referrers() == nil {
					return
				}
				seen[v] = true
				for _, u := range *v.Referrers() {
					switch x := u.(type) {
					case *ssa.Store:
						if x.Val == v {
							if fv, _ := fieldOfAddr(x.Addr); fieldIs(p, fv, pkgDoc, "Relationship", "ID") {
								uses = append(uses, x)
							} else if al, ok := x.Addr.(*ssa.Alloc); ok {
								// a local variable holding the id
								if al.Referrers() != nil {
									for _, u2 := range *al.Referrers() {
										if ld, ok := u2.(*ssa.UnOp); ok && ld.Op == token.MUL {
											follow(ld, depth+1)
										}
									}
								}
							}
						}
					case *ssa.Phi:
						follow(x, depth+1)
					case *ssa.Call:
						if cal := staticCallee(x); cal != nil && p.inModule(cal) && !isRelAllocator(p, cal) {
							for _, a := range x.Call.Args {
								if a == v {
									uses = append(uses, x)
								}
							}
						}
					}
				}
			}
			follow(c, 0)
			if len(uses) == 0 {
				return
			}
			n++
			perFn[shortName(topLevel(fn))]++
			idx := perFn[shortName(topLevel(fn))]
			bad := ""
			var badPos token.Pos
			allInstrs(fn, func(k ssa.Instruction) {
				kc, ok := k.(ssa.CallInstruction)
				if !ok || k == ssa.Instruction(c) || bad != "" {
					return
				}
				cal := staticCallee(kc)
				if cal == nil || !p.inModule(cal) {
					return
				}
				if !adders[topLevel(cal)] && !isRelAllocator(p, cal) {
					return
				}
				if isRelAllocator(p, cal) {
					return // a second id taken from the same state is the next site's problem, reported there
				}
				if !instrBefore(c, k) {
					return
				}
				for _, u := range uses {
					if u == k {
						continue
					}
					if instrBefore(k, u) {
						// the consumer that appends may itself be a call handed the id: k == u is fine
						bad = fmt.Sprintf("the call to %s at %s can add a relationship between taking the id (%s) and using it (%s)", shortName(cal), p.pos(k.Pos()), p.pos(c.Pos()), p.pos(u.Pos()))
						badPos = k.Pos()
						return
					}
				}
			})
			r.Check("alloc-append-atomic", fmt.Sprintf("%s#%d", shortName(topLevel(fn)), idx), posOrTok(badPos, c.Pos()), bad == "",
				fmt.Sprintf("%s takes a relationship id from %s; no relationship may be added to the document before the relationship carrying that id is: %s", shortName(topLevel(fn)), shortName(staticCallee(c)), map[bool]string{true: "nothing that adds relationships runs in between", false: bad + " — both relationships get the same id"}[bad == ""]))
		})
	}
	r.Min("relationship_id_allocations_with_consumer", n, 4)
}

func posOrTok(a, b token.Pos) token.Pos {
	if a != token.NoPos {
		return a
	}
	return b
}

// ---------------------------------------------------------------------------
// R-RESULT-FRESH (C03 C05): the bytes ToBytes hands out are the saved document.  They must not
// live in memory the document (or the package) keeps and writes again — a buffer reused across
// calls is overwritten by the next save, so an earlier result no longer opens as what was saved.
// Decided as an aliasing fact: the returned slice's memory roots are allocations of this very call.
// ---------------------------------------------------------------------------

func ruleResultFresh(r *Run) {
	p := r.P
	fn := r.mustFunc(pkgDoc, "(*Document).ToBytes")
	if fn == nil {
		return
	}
	n := 0
	for _, ret := range returnsOf(fn) {
		if len(ret.Results) == 0 {
			continue
		}
		v := retResult(ret, 0)
		if isNilConst(v) {
			continue
		}
		n++
		bad := ""
		for rt := range deepRoots(p, v) {
			switch x := rt.(type) {
			case *ssa.Parameter:
				bad = "memory reachable from parameter " + x.Name()
			case *ssa.Global:
				bad = "the package-level variable " + x.Name()
			case *ssa.FreeVar:
				bad = "a captured variable"
			}
		}
		// a buffer taken from a field of the receiver: Bytes() of &d.buf — the result of a method of
		// another package aliases what its pointer arguments point to
		var viaCalls func(x ssa.Value, depth int)
		seenV := map[ssa.Value]bool{}
		viaCalls = func(x ssa.Value, depth int) {
			if x == nil || seenV[x] || depth > 8 {
				return
			}
			seenV[x] = true
			for rt := range rootsOf(x) {
				switch y := rt.(type) {
				case *ssa.Parameter:
					bad = "memory reachable from parameter " + y.Name()
				case *ssa.Global:
					bad = "the package-level variable " + y.Name()
				case *ssa.Call:
					if cal := staticCallee(y); cal == nil || !p.inModule(cal) {
						for _, a := range y.Call.Args {
							if isPointerLike(a.Type()) {
								viaCalls(a, depth+1)
							}
						}
					}
				}
			}
		}
		viaCalls(v, 0)
		r.Check("result-fresh", fmt.Sprintf("%s#%d", shortName(fn), n), ret.Pos(), bad == "",
			fmt.Sprintf("%s returns the saved package as a byte slice; the slice must be backed by memory allocated by this call: %s", shortName(fn), map[bool]string{true: "it is", false: "it is backed by " + bad + " — the next save writes over the bytes handed out earlier"}[bad == ""]))
	}
	r.Min("tobytes_success_returns", n, 1)
}
