package main

// Rules added after round 5 (each a structural necessary condition; see DESIGN.md §15).

import (
	"fmt"
	"go/token"
	"go/types"
	"sort"
	"strings"

	"golang.org/x/tools/go/ssa"
)

var _ = sort.Strings
var _ = strings.HasPrefix
var _ token.Pos

// ---------------------------------------------------------------------------
// R-ALLOC-APPEND-ATOMIC (C02 C10 C11): an id taken from the allocator is fresh only for the list
// as it is at that moment.  Between the allocator call and the point where the relationship that
// carries the id is appended (or the id is handed to the helper that appends it), nothing may run
// that can add a relationship to a list of the document — otherwise that addition takes the same
// id (the allocator sees the same list twice).
// ---------------------------------------------------------------------------

func isRelAllocator(p *Program, fn *ssa.Function) bool {
	if fn == nil || fn.Pkg == nil || fn.Pkg.Pkg.Path() != pkgDoc || fn.Parent() != nil || len(fn.Blocks) == 0 {
		return false
	}
	if fn.Signature.Results().Len() != 1 || !isStringType(fn.Signature.Results().At(0).Type()) {
		return false
	}
	for _, par := range fn.Params {
		if s, ok := par.Type().Underlying().(*types.Slice); ok && typeIs(s.Elem(), pkgDoc, "Relationship") {
			return true
		}
	}
	return false
}

// relAdders: module functions that (transitively) append to a []Relationship field or call the allocator.
func relAdders(p *Program) map[*ssa.Function]bool {
	direct := map[*ssa.Function]bool{}
	for _, fn := range p.ModFuncs() {
		allInstrs(fn, func(in ssa.Instruction) {
			switch x := in.(type) {
			case *ssa.Store:
				fv, _ := fieldOfAddr(x.Addr)
				if fv == nil {
					return
				}
				if s, ok := fv.Type().Underlying().(*types.Slice); ok && typeIs(s.Elem(), pkgDoc, "Relationship") {
					if c, ok := x.Val.(*ssa.Call); ok {
						if b, ok := c.Call.Value.(*ssa.Builtin); ok && b.Name() == "append" {
							direct[topLevel(fn)] = true
						}
					}
				}
			}
		})
	}
	out := map[*ssa.Function]bool{}
	for _, fn := range p.ModFuncs() {
		if fn.Parent() != nil {
			continue
		}
		if direct[fn] {
			out[fn] = true
			continue
		}
		for g := range p.staticReach(fn) {
			if direct[topLevel(g)] {
				out[fn] = true
				break
			}
		}
	}
	return out
}

func instrBefore(a, b ssa.Instruction) bool {
	if a.Block() == b.Block() {
		return instrIndex(a) < instrIndex(b)
	}
	return blockReaches(a.Block(), b.Block())
}

func ruleAllocAppendAtomic(r *Run) {
	p := r.P
	adders := relAdders(p)
	n := 0
	perFn := map[string]int{}
	for _, fn := range p.ModFuncs() {
		if fn.Pkg == nil || fn.Pkg.Pkg.Path() != pkgDoc {
			continue
		}
		allInstrs(fn, func(in ssa.Instruction) {
			c, ok := in.(*ssa.Call)
			if !ok || !isRelAllocator(p, staticCallee(c)) {
				return
			}
			// consumers of the id: the store of a Relationship.ID, or a module call that is handed the id
			var uses []ssa.Instruction
			seen := map[ssa.Value]bool{}
			var follow func(v ssa.Value, depth int)
			follow = func(v ssa.Value, depth int) {
				if v == nil || seen[v] || depth > 6 || v.Referrers() == nil {
					return
				}
				seen[v] = true
				for _, u := range *v.Referrers() {
					switch x := u.(type) {
					case *ssa.Store:
						if x.Val == v {
							if fv, _ := fieldOfAddr(x.Addr); fieldIs(p, fv, pkgDoc, "Relationship", "ID") {
								uses = append(uses, x)
							} else if al, ok := x.Addr.(*ssa.Alloc); ok {
								// a local variable holding the id
								if al.Referrers() != nil {
									for _, u2 := range *al.Referrers() {
										if ld, ok := u2.(*ssa.UnOp); ok && ld.Op == token.MUL {
											follow(ld, depth+1)
										}
									}
								}
							}
						}
					case *ssa.Phi:
						follow(x, depth+1)
					case *ssa.Call:
						if cal := staticCallee(x); cal != nil && p.inModule(cal) && !isRelAllocator(p, cal) {
							for _, a := range x.Call.Args {
								if a == v {
									uses = append(uses, x)
								}
							}
						}
					}
				}
			}
			follow(c, 0)
			if len(uses) == 0 {
				return
			}
			// the use that adds the relationship (the ID store, or the call of a function that appends);
			// what happens to the id after that — writing it into a reference — is of no concern here
			isUse := map[ssa.Instruction]bool{}
			var appendUses []ssa.Instruction
			for _, u := range uses {
				isUse[u] = true
				if _, isSt := u.(*ssa.Store); isSt {
					appendUses = append(appendUses, u)
				} else if uc, ok := u.(ssa.CallInstruction); ok {
					if cal := staticCallee(uc); cal != nil && adders[topLevel(cal)] {
						appendUses = append(appendUses, u)
					}
				}
			}
			if len(appendUses) > 0 {
				uses = appendUses
			}
			n++
			perFn[shortName(topLevel(fn))]++
			idx := perFn[shortName(topLevel(fn))]
			bad := ""
			var badPos token.Pos
			allInstrs(fn, func(k ssa.Instruction) {
				kc, ok := k.(ssa.CallInstruction)
				if !ok || k == ssa.Instruction(c) || bad != "" || isUse[k] {
					return
				}
				cal := staticCallee(kc)
				if cal == nil || !p.inModule(cal) {
					return
				}
				if !adders[topLevel(cal)] && !isRelAllocator(p, cal) {
					return
				}
				if isRelAllocator(p, cal) {
					return // a second id taken from the same state is the next site's problem, reported there
				}
				if !instrBefore(c, k) {
					return
				}
				for _, u := range uses {
					if u == k {
						continue
					}
					if instrBefore(k, u) {
						// the consumer that appends may itself be a call handed the id: k == u is fine
						bad = fmt.Sprintf("the call to %s at %s can add a relationship between taking the id (%s) and using it (%s)", shortName(cal), p.pos(k.Pos()), p.pos(c.Pos()), p.pos(u.Pos()))
						badPos = k.Pos()
						return
					}
				}
			})
			r.Check("alloc-append-atomic", fmt.Sprintf("%s#%d", shortName(topLevel(fn)), idx), posOrTok(badPos, c.Pos()), bad == "",
				fmt.Sprintf("%s takes a relationship id from %s; no relationship may be added to the document before the relationship carrying that id is: %s", shortName(topLevel(fn)), shortName(staticCallee(c)), map[bool]string{true: "nothing that adds relationships runs in between", false: bad + " — both relationships get the same id"}[bad == ""]))
		})
	}
	r.Min("relationship_id_allocations_with_consumer", n, 4)
}

func posOrTok(a, b token.Pos) token.Pos {
	if a != token.NoPos {
		return a
	}
	return b
}

// ---------------------------------------------------------------------------
// R-RESULT-FRESH (C03 C05): the bytes ToBytes hands out are the saved document.  They must not
// live in memory the document (or the package) keeps and writes again — a buffer reused across
// calls is overwritten by the next save, so an earlier result no longer opens as what was saved.
// Decided as an aliasing fact: the returned slice's memory roots are allocations of this very call.
// ---------------------------------------------------------------------------

func ruleResultFresh(r *Run) {
	p := r.P
	fn := r.mustFunc(pkgDoc, "(*Document).ToBytes")
	if fn == nil {
		return
	}
	n := 0
	for _, ret := range returnsOf(fn) {
		if len(ret.Results) == 0 {
			continue
		}
		v := retResult(ret, 0)
		if isNilConst(v) {
			continue
		}
		n++
		bad := ""
		for rt := range deepRoots(p, v) {
			switch x := rt.(type) {
			case *ssa.Parameter:
				bad = "memory reachable from parameter " + x.Name()
			case *ssa.Global:
				bad = "the package-level variable " + x.Name()
			case *ssa.FreeVar:
				bad = "a captured variable"
			}
		}
		// a buffer taken from a field of the receiver: Bytes() of &d.buf — the result of a method of
		// another package aliases what its pointer arguments point to
		var viaCalls func(x ssa.Value, depth int)
		seenV := map[ssa.Value]bool{}
		viaCalls = func(x ssa.Value, depth int) {
			if x == nil || seenV[x] || depth > 8 {
				return
			}
			seenV[x] = true
			for rt := range rootsOf(x) {
				switch y := rt.(type) {
				case *ssa.Parameter:
					bad = "memory reachable from parameter " + y.Name()
				case *ssa.Global:
					bad = "the package-level variable " + y.Name()
				case *ssa.Call:
					if cal := staticCallee(y); cal == nil || !p.inModule(cal) {
						for _, a := range y.Call.Args {
							if isPointerLike(a.Type()) {
								viaCalls(a, depth+1)
							}
						}
					}
				}
			}
		}
		viaCalls(v, 0)
		r.Check("result-fresh", fmt.Sprintf("%s#%d", shortName(fn), n), ret.Pos(), bad == "",
			fmt.Sprintf("%s returns the saved package as a byte slice; the slice must be backed by memory allocated by this call: %s", shortName(fn), map[bool]string{true: "it is", false: "it is backed by " + bad + " — the next save writes over the bytes handed out earlier"}[bad == ""]))
	}
	r.Min("tobytes_success_returns", n, 1)
}

// ---------------------------------------------------------------------------
// R-RANGE-COPY (C18 C09): `for _, cell := range row.Cells { f(&cell) }` hands f the address of a
// COPY of the element.  Whatever f assigns to a field of *cell (cell.Paragraphs = longer slice)
// changes the copy only; the table keeps the old value.  Decided structurally: the address of a
// by-value range variable must not reach a function that assigns to a direct field of that
// parameter, unless the variable is written back into the collection.
// ---------------------------------------------------------------------------

func ruleRangeCopy(r *Run) {
	p := r.P
	n := 0
	for _, fn := range p.ModFuncs() {
		if fn.Pkg == nil || fn.Pkg.Pkg.Path() != pkgDoc {
			continue
		}
		loops := naturalLoops(fn)
		if len(loops) == 0 {
			continue
		}
		allInstrs(fn, func(in ssa.Instruction) {
			al, ok := in.(*ssa.Alloc)
			if !ok || al.Referrers() == nil {
				return
			}
			if n0 := isModStruct(p, al.Type()); n0 == nil {
				return
			}
			// the variable is (only) assigned from an element of a collection that is being ranged over
			var elemStores []*ssa.Store
			other := false
			for _, u := range *al.Referrers() {
				st, ok := u.(*ssa.Store)
				if !ok || st.Addr != ssa.Value(al) {
					continue
				}
				isElem := false
				switch v := st.Val.(type) {
				case *ssa.UnOp:
					if v.Op == token.MUL {
						if _, ok := v.X.(*ssa.IndexAddr); ok {
							isElem = true
						}
					}
				case *ssa.Extract:
					if _, ok := v.Tuple.(*ssa.Next); ok {
						isElem = true
					}
				case *ssa.Index:
					isElem = true
				}
				if isElem {
					elemStores = append(elemStores, st)
				} else {
					other = true
				}
			}
			if len(elemStores) == 0 || other {
				return
			}
			inLoop := false
			for _, l := range loops {
				if l.Body[elemStores[0].Block()] {
					inLoop = true
				}
			}
			if !inLoop {
				return
			}
			// written back? (coll[i] = x)
			writtenBack := false
			for _, u := range *al.Referrers() {
				if ld, ok := u.(*ssa.UnOp); ok && ld.Op == token.MUL && ld.Referrers() != nil {
					for _, u2 := range *ld.Referrers() {
						if st, ok := u2.(*ssa.Store); ok && st.Val == ssa.Value(ld) {
							if _, isIdx := st.Addr.(*ssa.IndexAddr); isIdx {
								writtenBack = true
							}
						}
					}
				}
			}
			// calls that receive the address
			for _, u := range *al.Referrers() {
				c, ok := u.(ssa.CallInstruction)
				if !ok {
					continue
				}
				for ai, a := range c.Common().Args {
					if a != ssa.Value(al) {
						continue
					}
					var callees []*ssa.Function
					if cal := staticCallee(c); cal != nil {
						callees = append(callees, cal)
					} else if !c.Common().IsInvoke() {
						for g := range p.dynamicCallees(fn, c) {
							callees = append(callees, g)
						}
						// a callback parameter of fn: the function literals handed in at fn's call sites
						if par, ok := c.Common().Value.(*ssa.Parameter); ok {
							pi := paramIndex(fn, par)
							for _, cs := range staticCallSites(p, fn) {
								if pi >= 0 && pi < len(cs.Common().Args) {
									switch fv := cs.Common().Args[pi].(type) {
									case *ssa.MakeClosure:
										callees = append(callees, fv.Fn.(*ssa.Function))
									case *ssa.Function:
										callees = append(callees, fv)
									}
								}
							}
						}
					}
					for _, cal := range callees {
						if !p.inModule(cal) || len(cal.Blocks) == 0 {
							continue
						}
						pi := ai
						if c.Common().IsInvoke() {
							continue
						}
						if cal.Signature.Recv() != nil && staticCallee(c) != nil {
							// receiver is Params[0] and Args[0]: indices agree
						}
						if pi >= len(cal.Params) {
							continue
						}
						par := cal.Params[pi]
						var asg *ssa.Store
						allInstrs(cal, func(in2 ssa.Instruction) {
							st, ok := in2.(*ssa.Store)
							if !ok {
								return
							}
							if fa, ok := st.Addr.(*ssa.FieldAddr); ok && fa.X == ssa.Value(par) {
								asg = st
							}
						})
						if asg == nil {
							continue
						}
						n++
						fv, _ := fieldOfAddr(asg.Addr)
						fname := "?"
						if fv != nil {
							fname = fv.Name()
						}
						r.Check("range-copy", fmt.Sprintf("%s:&%s->%s", shortName(topLevel(fn)), al.Comment, shortName(topLevel(cal))), c.Pos(), writtenBack,
							fmt.Sprintf("%s hands %s the address of its by-value range variable %s; %s assigns to field %s of it (at %s): the assignment changes the copy, not the element of the collection%s", shortName(topLevel(fn)), shortName(topLevel(cal)), al.Comment, shortName(topLevel(cal)), fname, p.pos(asg.Pos()), map[bool]string{true: " — the variable is written back afterwards", false: ", and the variable is never written back"}[writtenBack]))
					}
				}
			}
		})
	}
	r.Count("range_copies_handed_to_assigning_functions", n)
}

// ---------------------------------------------------------------------------
// R-REGISTRY-KEEPS (C13): numbering definitions and instances are referred to by id from
// paragraphs anywhere in the document (body, table cells, nested tables, content controls,
// headers).  The library has no way to know that an id is no longer used, so nothing may ever be
// taken out of the numbering registry: a definition that disappears leaves w:numId references
// that resolve to nothing.  (Notes are different: RemoveFootnote/RemoveEndnote delete the note the
// caller names.)
// ---------------------------------------------------------------------------

func ruleRegistryKeeps(r *Run) {
	p := r.P
	nm := p.Named(pkgDoc, "NumberingManager")
	if nm == nil {
		r.Unresolved("document.NumberingManager")
		return
	}
	adds := 0
	for _, fn := range p.ModFuncs() {
		if fn.Pkg == nil || fn.Pkg.Pkg.Path() != pkgDoc {
			continue
		}
		allInstrs(fn, func(in ssa.Instruction) {
			switch x := in.(type) {
			case *ssa.MapUpdate:
				if ch, _ := addrChain(x.Map); len(ch) > 0 && ch[len(ch)-1] != nil && fieldOwner(p, ch[len(ch)-1]) == nm {
					adds++
				}
			case *ssa.Call:
				b, ok := x.Call.Value.(*ssa.Builtin)
				if !ok || b.Name() != "delete" || len(x.Call.Args) < 1 {
					return
				}
				ch, _ := addrChain(x.Call.Args[0])
				if len(ch) == 0 || ch[len(ch)-1] == nil || fieldOwner(p, ch[len(ch)-1]) != nm {
					return
				}
				r.Check("registry-keeps", shortName(topLevel(fn))+":"+ch[len(ch)-1].Name(), x.Pos(), false,
					fmt.Sprintf("%s deletes an entry of NumberingManager.%s: list paragraphs anywhere in the document (nested tables, content controls, headers) may still carry its id, and numbering.xml is regenerated from the registry — the reference then resolves to nothing", shortName(topLevel(fn)), ch[len(ch)-1].Name()))
			case *ssa.Store:
				// a registry map replaced by a smaller one outside construction/cloning
				fv, _ := fieldOfAddr(x.Addr)
				if fv == nil || fieldOwner(p, fv) != nm {
					return
				}
				if _, isMap := fv.Type().Underlying().(*types.Map); !isMap {
					return
				}
				fa, _ := x.Addr.(*ssa.FieldAddr)
				if fa != nil {
					if _, fresh := stripLoads(fa.X).(*ssa.Alloc); fresh {
						return // the registry object is being built here
					}
				}
				if mk, ok := x.Val.(*ssa.MakeMap); ok && mk != nil {
					// lazily created when nil is fine; anything else replaces the registry
					// created lazily: the store is control dependent on a test of the same field against nil
					nilGuarded := false
					for _, c := range controlConds(x) {
						if bo, ok := c.(*ssa.BinOp); ok && (bo.Op == token.EQL || bo.Op == token.NEQ) && (isNilConst(bo.X) || isNilConst(bo.Y)) {
							side := bo.X
							if isNilConst(side) {
								side = bo.Y
							}
							if ld, ok := side.(*ssa.UnOp); ok && ld.Op == token.MUL {
								if f2, _ := fieldOfAddr(ld.X); f2 == fv {
									nilGuarded = true
								}
							}
						}
					}
					if nilGuarded {
						return
					}
				}
				r.Check("registry-keeps", shortName(topLevel(fn))+":"+fv.Name()+":replaced", x.Pos(), false,
					fmt.Sprintf("%s replaces the registry map NumberingManager.%s of an existing manager: definitions registered before are dropped while paragraphs still refer to them", shortName(topLevel(fn)), fv.Name()))
			}
		})
	}
	r.Trivial("registry-keeps", "NumberingManager", nm.Obj().Pos(), true, "no function deletes from, or replaces, the numbering registry maps")
	r.Min("numbering_registry_insertions", adds, 2)
}

// ---------------------------------------------------------------------------
// R-SINGLE-LINE (C20): a table cell and an ATX/Setext heading are one-line constructs of Markdown.
// (a) the text of a cell must have its line breaks removed on EVERY path that produces it (a fast
//     path that skips the clean-up splits the row);
// (b) the text of a heading must not pass through a function that inserts line breaks (line
//     wrapping): the tail of a wrapped heading becomes a paragraph of its own.
// ---------------------------------------------------------------------------

var nlPatternFuncs = map[string]bool{
	"strings.Split": true, "strings.SplitN": true, "strings.ReplaceAll": true, "strings.Replace": true, "strings.Contains": true,
	"strings.Index": true, "strings.TrimRight": true, "strings.TrimSuffix": true, "strings.Trim": true, "strings.HasSuffix": true,
	"strings.Count": true, "strings.TrimLeft": true, "strings.TrimPrefix": true, "strings.HasPrefix": true, "strings.ContainsAny": true,
	"strings.IndexByte": true, "strings.LastIndex": true, "strings.NewReplacer": true, "strings.SplitAfter": true, "strings.ContainsRune": true,
}

// insertsNewlines: f returns a string and puts a constant containing a line break into what it
// builds (as opposed to using "\n" as a pattern to search, split or replace).
func insertsNewlines(p *Program, f *ssa.Function) bool {
	if f == nil || !p.inModule(f) || len(f.Blocks) == 0 || f.Signature.Results().Len() == 0 || !isStringType(f.Signature.Results().At(0).Type()) {
		return false
	}
	found := false
	for _, g := range withClosures(f) {
		allInstrs(g, func(in ssa.Instruction) {
			has := false
			for _, op := range in.Operands(nil) {
				if *op == nil {
					continue
				}
				if s, ok := constString(*op); ok && strings.Contains(s, "\n") {
					has = true
				}
			}
			if !has {
				return
			}
			if c, ok := in.(ssa.CallInstruction); ok && nlPatternFuncs[calleeName(c)] {
				return
			}
			found = true
		})
	}
	return found
}

// noNewlineFoundOn: the control-flow edge pred→succ is only taken when a search for "\n" in v
// came back empty.
func noNewlineFoundOn(v ssa.Value, pred, succ *ssa.BasicBlock) bool {
	fn := pred.Parent()
	isNL := func(a ssa.Value) bool {
		if s, ok := constString(a); ok {
			return s == "\n"
		}
		if c, ok := constInt(a); ok {
			return c == '\n'
		}
		return false
	}
	for _, b := range fn.Blocks {
		if len(b.Instrs) == 0 || len(b.Succs) != 2 {
			continue
		}
		iff, ok := b.Instrs[len(b.Instrs)-1].(*ssa.If)
		if !ok {
			continue
		}
		var absent *ssa.BasicBlock
		switch c := iff.Cond.(type) {
		case *ssa.Call:
			switch calleeName(c) {
			case "strings.Contains", "strings.ContainsRune", "strings.ContainsAny":
				if stripConv(c.Call.Args[0]) == stripConv(v) && isNL(c.Call.Args[1]) {
					absent = b.Succs[1]
				}
			}
		case *ssa.BinOp:
			call, ok := c.X.(*ssa.Call)
			if !ok {
				continue
			}
			switch calleeName(call) {
			case "strings.IndexByte", "strings.Index", "strings.IndexRune", "strings.IndexAny":
			default:
				continue
			}
			if stripConv(call.Call.Args[0]) != stripConv(v) || !isNL(call.Call.Args[1]) {
				continue
			}
			k, ok := constInt(c.Y)
			if !ok {
				continue
			}
			switch {
			case c.Op == token.GEQ && k == 0, c.Op == token.GTR && k == -1, c.Op == token.NEQ && k == -1:
				absent = b.Succs[1]
			case c.Op == token.LSS && k == 0, c.Op == token.EQL && k == -1, c.Op == token.LEQ && k == -1:
				absent = b.Succs[0]
			}
		}
		if absent == nil {
			continue
		}
		if b == pred && absent == succ {
			return true
		}
		if len(absent.Preds) == 1 && (absent == pred || absent.Dominates(pred)) {
			return true
		}
	}
	return false
}

func newlineFree(p *Program, v ssa.Value, depth int) bool {
	if depth > 8 || v == nil {
		return false
	}
	v = stripConv(v)
	switch x := v.(type) {
	case *ssa.Const:
		s, ok := constString(x)
		return ok && !strings.Contains(s, "\n")
	case *ssa.Phi:
		for i, e := range x.Edges {
			if newlineFree(p, e, depth+1) {
				continue
			}
			// the unreplaced text on the edge where a search for a line break found none
			// (if strings.IndexByte(s, '\n') >= 0 { s = strings.ReplaceAll(s, "\n", " ") })
			if i < len(x.Block().Preds) && noNewlineFoundOn(e, x.Block().Preds[i], x.Block()) {
				continue
			}
			return false
		}
		return true
	case *ssa.UnOp:
		if x.Op == token.MUL {
			if al, ok := x.X.(*ssa.Alloc); ok && al.Referrers() != nil {
				n, okAll := 0, true
				for _, u := range *al.Referrers() {
					if st, ok := u.(*ssa.Store); ok && st.Addr == ssa.Value(al) {
						n++
						if !newlineFree(p, st.Val, depth+1) {
							okAll = false
						}
					}
				}
				return n > 0 && okAll
			}
		}
	case *ssa.Call:
		switch calleeName(x) {
		case "strings.TrimSpace", "strings.Trim", "strings.TrimLeft", "strings.TrimRight", "strings.TrimPrefix", "strings.TrimSuffix", "strings.ToLower", "strings.ToUpper":
			return newlineFree(p, x.Call.Args[0], depth+1)
		case "strings.ReplaceAll":
			if old, ok := constString(x.Call.Args[1]); ok && old == "\n" {
				if nw, ok := constString(x.Call.Args[2]); ok && !strings.Contains(nw, "\n") {
					return true
				}
			}
			return newlineFree(p, x.Call.Args[0], depth+1)
		case "strings.Replace":
			if old, ok := constString(x.Call.Args[1]); ok && old == "\n" {
				if nw, ok := constString(x.Call.Args[2]); ok && !strings.Contains(nw, "\n") {
					if k, ok := constInt(x.Call.Args[3]); ok && k < 0 {
						return true
					}
				}
			}
			return newlineFree(p, x.Call.Args[0], depth+1)
		case "strings.Join":
			// Join(Fields(x), " "): Fields splits on every white space, line breaks included
			if sep, ok := constString(x.Call.Args[1]); ok && !strings.Contains(sep, "\n") {
				if fc, ok := stripConv(x.Call.Args[0]).(*ssa.Call); ok && calleeName(fc) == "strings.Fields" {
					return true
				}
			}
			return false
		case "(*strings.Replacer).Replace":
			return false
		}
		if cal := staticCallee(x); cal != nil && p.inModule(cal) && len(cal.Blocks) > 0 {
			rets := returnsOf(cal)
			if len(rets) == 0 {
				return false
			}
			for _, ret := range rets {
				if len(ret.Results) == 0 || !newlineFree(p, ret.Results[0], depth+1) {
					return false
				}
			}
			return true
		}
	}
	return false
}

func ruleSingleLine(r *Run) {
	p := r.P
	docCell := p.Named(pkgDoc, "TableCell")
	if docCell == nil {
		r.Unresolved("document.TableCell")
		return
	}
	reach := p.staticReach(p.exportedAPI(pkgMd)...)
	nCell := 0
	for _, f := range p.ModFuncs() {
		if f.Pkg == nil || f.Pkg.Pkg.Path() != pkgMd || f.Parent() != nil || !reach[f] {
			continue
		}
		if f.Signature.Results().Len() != 1 || !isStringType(f.Signature.Results().At(0).Type()) {
			continue
		}
		takesCell := false
		for _, par := range f.Params {
			if isModStruct(p, par.Type()) == docCell {
				takesCell = true
			}
		}
		if !takesCell {
			continue
		}
		nCell++
		bad := ""
		for _, ret := range returnsOf(f) {
			if !newlineFree(p, retResult(ret, 0), 0) {
				bad = p.pos(ret.Pos())
			}
		}
		if bad != "" {
			// the clean-up may be the caller's: every call site must then clean the result
			sites := staticCallSites(p, f)
			cleaned := len(sites) > 0
			for _, cs := range sites {
				cv, ok := cs.(*ssa.Call)
				if !ok || cv.Referrers() == nil {
					cleaned = false
					continue
				}
				okSite := false
				for _, u := range *cv.Referrers() {
					if uc, ok := u.(*ssa.Call); ok && newlineFree(p, uc, 0) {
						okSite = true
					}
				}
				if !okSite {
					cleaned = false
				}
			}
			if cleaned {
				bad = ""
			}
		}
		r.Check("single-line", shortName(f)+":cell", f.Pos(), bad == "",
			fmt.Sprintf("%s produces the text of a table cell; a Markdown table row is one line, so every path must remove the line breaks of the cell's text: %s", shortName(f), map[bool]string{true: "they all do", false: "the value returned at " + bad + " has not passed a line-break removal (strings.ReplaceAll(s, \"\\n\", …) or equivalent) — a cell whose text contains a line break splits the row"}[bad == ""]))
	}
	r.Min("cell_text_functions", nCell, 1)
	// (b) headings
	nHead := 0
	sl := newSlicer(p)
	sl.dataOnly = true
	for _, f := range p.ModFuncs() {
		if f.Pkg == nil || f.Pkg.Pkg.Path() != pkgMd || f.Parent() != nil || !reach[f] {
			continue
		}
		isHeading := false
		allInstrs(f, func(in ssa.Instruction) {
			if c, ok := in.(*ssa.Call); ok && calleeName(c) == "strings.Repeat" && len(c.Call.Args) == 2 {
				if s, ok := constString(c.Call.Args[0]); ok && s == "#" {
					isHeading = true
				}
			}
		})
		if !isHeading {
			continue
		}
		nHead++
		bad := ""
		allInstrs(f, func(in ssa.Instruction) {
			c, ok := in.(*ssa.Call)
			if !ok || !isStringType(c.Type()) {
				return
			}
			cal := staticCallee(c)
			if cal == nil || !p.inModule(cal) {
				return
			}
			if insertsNewlines(p, cal) {
				bad = shortName(cal)
				return
			}
			for v := range sl.Slice(c).Vals {
				if ic, ok := v.(*ssa.Call); ok && insertsNewlines(p, staticCallee(ic)) {
					bad = shortName(staticCallee(ic)) + " (through " + shortName(cal) + ")"
				}
			}
		})
		r.Check("single-line", shortName(f)+":heading", f.Pos(), bad == "",
			fmt.Sprintf("%s writes a heading, a one-line construct; its text %s", shortName(f), map[bool]string{true: "does not pass through anything that inserts line breaks", false: "passes through " + bad + ", which inserts line breaks: the part after the first break becomes a paragraph of its own when the Markdown is read back"}[bad == ""]))
	}
	r.Min("heading_writers", nHead, 1)
}

// ---------------------------------------------------------------------------
// R-FORMAT-PARAM (C19): inline formatting nests (`*a **b** c*`).  The formatting in force for a
// span is handed down to the spans nested in it; a nested span that changes the object it was
// handed changes the formatting of everything that follows it in the enclosing span.  Structural
// condition: no function of the Markdown renderer stores through a *document.TextFormat parameter
// (it must work on a copy).
// ---------------------------------------------------------------------------

func ruleFormatParam(r *Run) {
	p := r.P
	n := 0
	for _, fn := range p.ModFuncs() {
		if fn.Pkg == nil || fn.Pkg.Pkg.Path() != pkgMd {
			continue
		}
		for _, par := range fn.Params {
			if !typeIs(par.Type(), pkgDoc, "TextFormat") {
				continue
			}
			if _, isPtr := par.Type().Underlying().(*types.Pointer); !isPtr {
				continue
			}
			n++
			var bad *ssa.Store
			// the parameter itself, and the loads of a local it is spilled to (captured by a closure)
			vals := []ssa.Value{par}
			if par.Referrers() != nil {
				for _, u := range *par.Referrers() {
					if st, ok := u.(*ssa.Store); ok && st.Val == ssa.Value(par) {
						if al, ok := st.Addr.(*ssa.Alloc); ok && al.Referrers() != nil {
							for _, g := range withClosures(fn) {
								allInstrs(g, func(in ssa.Instruction) {
									ld, ok := in.(*ssa.UnOp)
									if !ok || ld.Op != token.MUL {
										return
									}
									if ld.X == ssa.Value(al) {
										vals = append(vals, ld)
									}
									if fv, ok := ld.X.(*ssa.FreeVar); ok && fv.Name() == par.Name() {
										vals = append(vals, ld)
									}
								})
							}
						}
					}
				}
			}
			for _, v := range vals {
				if v == ssa.Value(par) || v.Referrers() == nil {
					continue
				}
				for _, u := range *v.Referrers() {
					if fa, ok := u.(*ssa.FieldAddr); ok && fa.Referrers() != nil {
						for _, u2 := range *fa.Referrers() {
							if st, ok := u2.(*ssa.Store); ok && st.Addr == ssa.Value(fa) {
								bad = st
							}
						}
					}
				}
			}
			if par.Referrers() != nil {
				for _, u := range *par.Referrers() {
					if fa, ok := u.(*ssa.FieldAddr); ok && fa.Referrers() != nil {
						for _, u2 := range *fa.Referrers() {
							if st, ok := u2.(*ssa.Store); ok && st.Addr == ssa.Value(fa) {
								bad = st
							}
						}
					}
				}
			}
			pos := fn.Pos()
			if bad != nil {
				pos = bad.Pos()
			}
			r.Check("format-param", shortName(topLevel(fn))+":"+par.Name(), pos, bad == nil,
				fmt.Sprintf("%s is handed the formatting of the enclosing span (%s): %s", shortName(topLevel(fn)), par.Name(), map[bool]string{true: "it does not modify it", false: "it stores into it — the text that follows the nested span inside the enclosing span is rendered with the nested span's formatting as well"}[bad == nil]))
		}
	}
	r.Count("renderer_functions_handed_a_text_format", n)
}

// ---------------------------------------------------------------------------
// R-READER-KEEPS-ALL (C03, C04): what a reader has collected into a list of the object it builds
// stays in that list.  In every reader function a store to a slice-typed field of a model struct
// is one of: an append to that same field, a fresh list (make / literal / nil), a list built by
// another reader, or — when the new value is computed by a module function FROM the field's
// current value (a post-processing pass such as merging or normalising what was read) — the
// result of a function that keeps every element of its argument on every path (collects-all).
// A pass that can drop or fuse elements changes what the file said: run boundaries, formatting of
// the fused element, and with it what the next save writes.
// ---------------------------------------------------------------------------

func ruleReaderKeepsAll(r *Run) {
	p := r.P
	m := buildReaderModel(p)
	n := 0
	for _, f := range m.Funcs {
		idx := 0
		allInstrs(f, func(in ssa.Instruction) {
			st, ok := in.(*ssa.Store)
			if !ok {
				return
			}
			fv, _ := fieldOfAddr(st.Addr)
			if fv == nil || fv.Pkg() == nil || !strings.HasPrefix(fv.Pkg().Path(), "github.com/zerx-lab/wordZero/pkg/") {
				return
			}
			if _, isSlice := fv.Type().Underlying().(*types.Slice); !isSlice {
				return
			}
			n++
			call, ok := stripConv(st.Val).(*ssa.Call)
			if !ok {
				return
			}
			if _, isB := call.Call.Value.(*ssa.Builtin); isB {
				return
			}
			cal := staticCallee(call)
			if cal == nil || !p.inModule(cal) || len(cal.Blocks) == 0 || m.IsReader[cal] {
				return
			}
			// which argument is the field's current value?
			for ai, a := range call.Call.Args {
				ld, ok := a.(*ssa.UnOp)
				if !ok || ld.Op != token.MUL {
					continue
				}
				if f2, _ := fieldOfAddr(ld.X); f2 != fv || pathString(ld.X) != pathString(st.Addr) {
					continue
				}
				if ai >= len(cal.Params) {
					continue
				}
				idx++
				c := &collector{p: p, paramComplete: true}
				okAll, why := true, ""
				for _, ret := range returnsOf(cal) {
					if len(ret.Results) == 0 {
						continue
					}
					if o, w := c.containsAll(ret.Results[0]); !o {
						okAll, why = false, w
					}
				}
				r.Check("reader-keeps-all", fmt.Sprintf("%s:%s.%s#%d", shortName(f), ownerNameOf(p, fv), fv.Name(), idx), st.Pos(), okAll,
					fmt.Sprintf("%s replaces the list %s it has read by the result of %s: %s", shortName(f), fv.Name(), shortName(cal),
						map[bool]string{true: "every element is kept", false: "not every element of the list is kept (" + why + ") — elements of the file are dropped or fused while reading, so save-then-open does not return what was saved"}[okAll]))
			}
		})
	}
	r.Min("reader_list_stores", n, 10)
}

func ownerNameOf(p *Program, fv *types.Var) string {
	if o := fieldOwner(p, fv); o != nil {
		return o.Obj().Name()
	}
	return "?"
}

// ---------------------------------------------------------------------------
// R-LOOKUP-GUARDED (C13): where the library looks a style id up in the document's registry and
// tests the answer, the id may be written as a style reference only where the style was found.
// On the not-found edge of `s := registry.GetStyle(id); if s == nil` no store of that same id
// into a *Style.Val reference field (w:pStyle, w:rStyle, w:tblStyle) is reachable: the registry
// can shrink (RemoveStyle), and the styles part is generated from it, so the reference would name
// a style the saved package does not define.
// ---------------------------------------------------------------------------

func ruleLookupGuarded(r *Run) {
	p := r.P
	n := 0
	isRefField := func(fv *types.Var) bool {
		if fv == nil || fv.Name() != "Val" {
			return false
		}
		o := fieldOwner(p, fv)
		if o == nil {
			return false
		}
		switch o.Obj().Name() {
		case "ParagraphStyle", "RunStyle", "TableStyle":
			return true
		}
		return false
	}
	for _, fn := range p.ModFuncs() {
		if fn.Pkg == nil || (fn.Pkg.Pkg.Path() != pkgDoc && fn.Pkg.Pkg.Path() != pkgMd) {
			continue
		}
		allInstrs(fn, func(in ssa.Instruction) {
			c, ok := in.(*ssa.Call)
			if !ok {
				return
			}
			cn := calleeName(c)
			if !strings.Contains(cn, "StyleManager).GetStyle") || len(c.Call.Args) < 2 || c.Referrers() == nil {
				return
			}
			id := c.Call.Args[1]
			// the looked-up style and the id handed together to a helper: the helper may write the
			// id as a reference only where it has found the style parameter non-nil
			for _, u := range *c.Referrers() {
				hc, ok := u.(*ssa.Call)
				if !ok {
					continue
				}
				h := staticCallee(hc)
				if h == nil || !p.inModule(h) || len(h.Blocks) == 0 {
					continue
				}
				var ps, pid *ssa.Parameter
				for k, a := range hc.Call.Args {
					if k >= len(h.Params) {
						break
					}
					if a == ssa.Value(c) {
						ps = h.Params[k]
					} else if stripConv(a) == stripConv(id) {
						pid = h.Params[k]
					}
				}
				if ps == nil || pid == nil {
					continue
				}
				n++
				var bad *ssa.Store
				allInstrs(h, func(in2 ssa.Instruction) {
					st, ok := in2.(*ssa.Store)
					if !ok {
						return
					}
					fv, _ := fieldOfAddr(st.Addr)
					if !isRefField(fv) || stripConv(st.Val) != ssa.Value(pid) {
						return
					}
					if !inNonNilBranchOf(h, ps, st.Block()) {
						bad = st
					}
				})
				pos := hc.Pos()
				if bad != nil {
					pos = bad.Pos()
				}
				r.Check("lookup-guarded", shortName(topLevel(fn))+"→"+shortName(h), pos, bad == nil,
					fmt.Sprintf("%s looks a style id up in the registry and hands id and result to %s: %s", shortName(topLevel(fn)), shortName(h),
						map[bool]string{true: "the helper references the id only where the style is non-nil", false: "the helper writes the id as a style reference without having found the style non-nil — after RemoveStyle the saved body names a style that word/styles.xml (generated from the registry) does not define"}[bad == nil]))
			}
			for _, u := range *c.Referrers() {
				cmp, ok := u.(*ssa.BinOp)
				if !ok || (cmp.Op != token.EQL && cmp.Op != token.NEQ) || !(isNilConst(cmp.X) || isNilConst(cmp.Y)) || cmp.Referrers() == nil {
					continue
				}
				for _, u2 := range *cmp.Referrers() {
					iff, ok := u2.(*ssa.If)
					if !ok {
						continue
					}
					nilSucc := iff.Block().Succs[0]
					if cmp.Op == token.NEQ {
						nilSucc = iff.Block().Succs[1]
					}
					n++
					var bad *ssa.Store
					for b := range reachableBlocks(nilSucc, nil) {
						// a block the found-edge dominates is not "reached without the style"
						for _, in2 := range b.Instrs {
							st, ok := in2.(*ssa.Store)
							if !ok {
								continue
							}
							fv, _ := fieldOfAddr(st.Addr)
							if !isRefField(fv) {
								continue
							}
							if stripConv(st.Val) == stripConv(id) || (symOf(st.Val).String() == symOf(id).String() && len(symOf(id)) > 0 && !(len(symOf(id)) == 1 && symOf(id)[0].Sym != nil && st.Val != id)) {
								bad = st
							}
						}
					}
					// the found-successor may lead to the same store; what matters is that the not-found one does
					pos := c.Pos()
					if bad != nil {
						pos = bad.Pos()
					}
					r.Check("lookup-guarded", shortName(topLevel(fn)), pos, bad == nil,
						fmt.Sprintf("%s looks a style id up in the registry and tests the result: %s", shortName(topLevel(fn)),
							map[bool]string{true: "the id is referenced only where the style was found", false: "the id is still written as a style reference when the style was NOT found — after RemoveStyle the saved body names a style that word/styles.xml (generated from the registry) does not define"}[bad == nil]))
				}
			}
		})
	}
	r.Min("tested_registry_lookups", n, 1)
}

// ---------------------------------------------------------------------------
// R-TOC-ENTRY-PER-HEADING (C15): the table of contents lists EXACTLY the headings collected.  A
// loop over the collected []TOCEntry whose body adds an entry to the TOC content control (a call
// that reaches an append to SDTContent.Elements) must do so on every iteration: an iteration that
// can return to the loop header without the call leaves a heading out (a de-duplication by anchor
// or text, a level filter applied a second time, …).
// ---------------------------------------------------------------------------

func ruleTOCEntryPerHeading(r *Run) {
	p := r.P
	n := 0
	appendsToSDT := map[*ssa.Function]bool{}
	for _, fn := range p.ModFuncs() {
		allInstrs(fn, func(in ssa.Instruction) {
			st, ok := in.(*ssa.Store)
			if !ok {
				return
			}
			if fv, _ := fieldOfAddr(st.Addr); fieldIs(p, fv, pkgDoc, "SDTContent", "Elements") {
				appendsToSDT[topLevel(fn)] = true
			}
		})
	}
	reachesAppend := func(fn *ssa.Function) bool {
		if appendsToSDT[fn] {
			return true
		}
		for g := range p.staticReach(fn) {
			if appendsToSDT[g] {
				return true
			}
		}
		return false
	}
	for _, fn := range p.ModFuncs() {
		if fn.Pkg == nil || fn.Pkg.Pkg.Path() != pkgDoc {
			continue
		}
		for _, l := range naturalLoops(fn) {
			ri := rangeOf(l)
			if ri == nil {
				continue
			}
			st, ok := ri.X.Type().Underlying().(*types.Slice)
			if !ok || !typeIs(st.Elem(), pkgDoc, "TOCEntry") {
				continue
			}
			cut := map[*ssa.BasicBlock]bool{}
			var first *ssa.Call
			for b := range l.Body {
				for _, in := range b.Instrs {
					c, ok := in.(*ssa.Call)
					if !ok {
						continue
					}
					cal := staticCallee(c)
					if cal == nil || !p.inModule(cal) || !reachesAppend(cal) {
						continue
					}
					cut[b] = true
					if first == nil || c.Pos() < first.Pos() {
						first = c
					}
				}
			}
			if len(cut) == 0 {
				continue
			}
			n++
			iff, ok := l.Header.Instrs[len(l.Header.Instrs)-1].(*ssa.If)
			if !ok {
				continue
			}
			body := iff.Block().Succs[0]
			if !l.Body[body] {
				body = iff.Block().Succs[1]
			}
			okAll := cut[body] || !reachableBlocks(body, cut)[l.Header]
			r.Check("toc-entry-per-heading", shortName(topLevel(fn)), first.Pos(), okAll,
				fmt.Sprintf("%s adds the collected headings to the table of contents in a loop: %s", shortName(topLevel(fn)),
					map[bool]string{true: "every iteration adds its entry", false: "some iterations skip the entry — a collected heading (one that ListHeadings still reports) is missing from the generated table of contents"}[okAll]))
		}
	}
	r.Min("toc_entry_loops", n, 1)
}

// ---------------------------------------------------------------------------
// R-SCOPE-PRECEDENCE (C16, C18): inside a loop the item's own fields take precedence over the
// variables of the enclosing data.  Where a fresh map is filled both from some other map (the
// item) and, in a range loop, from TemplateData.Variables, the copy from Variables must not be
// able to overwrite what the item wrote: it comes first, or each of its writes is guarded by a
// look-up in the map being filled.
// ---------------------------------------------------------------------------

func ruleScopePrecedence(r *Run) {
	p := r.P
	n := 0
	for _, fn := range p.ModFuncs() {
		if fn.Pkg == nil || fn.Pkg.Pkg.Path() != pkgDoc {
			continue
		}
		type fill struct {
			mu      *ssa.MapUpdate
			fromVar bool
			guarded bool
		}
		byMap := map[ssa.Value][]fill{}
		loops := naturalLoops(fn)
		for _, l := range loops {
			ri := rangeOf(l)
			if ri == nil {
				continue
			}
			if _, isMap := ri.X.Type().Underlying().(*types.Map); !isMap {
				continue
			}
			fromVar := false
			if ch, _ := addrChain(stripLoadsAddr(ri.X)); len(ch) > 0 && fieldIs(p, ch[len(ch)-1], pkgDoc, "TemplateData", "Variables") {
				fromVar = true
			}
			for b := range l.Body {
				for _, in := range b.Instrs {
					mu, ok := in.(*ssa.MapUpdate)
					if !ok {
						continue
					}
					if _, fresh := stripConv(mu.Map).(*ssa.MakeMap); !fresh {
						continue
					}
					// guarded: some block of the loop that dominates the update tests a look-up in the same map
					guarded := false
					for b2 := range l.Body {
						if b2 == l.Header || !b2.Dominates(b) || len(b2.Instrs) == 0 {
							continue
						}
						iff, ok := b2.Instrs[len(b2.Instrs)-1].(*ssa.If)
						if !ok {
							continue
						}
						var walk func(v ssa.Value, d int) bool
						walk = func(v ssa.Value, d int) bool {
							if d > 4 {
								return false
							}
							switch x := v.(type) {
							case *ssa.Extract:
								return walk(x.Tuple, d+1)
							case *ssa.Lookup:
								return x.X == mu.Map
							case *ssa.UnOp:
								return walk(x.X, d+1)
							case *ssa.BinOp:
								return walk(x.X, d+1) || walk(x.Y, d+1)
							}
							return false
						}
						if walk(iff.Cond, 0) {
							guarded = true
						}
					}
					byMap[mu.Map] = append(byMap[mu.Map], fill{mu, fromVar, guarded})
				}
			}
		}
		for m, fills := range byMap {
			var vars, items []fill
			for _, f := range fills {
				if f.fromVar {
					vars = append(vars, f)
				} else {
					items = append(items, f)
				}
			}
			if len(vars) == 0 || len(items) == 0 {
				continue
			}
			n++
			okAll := true
			var bad *ssa.MapUpdate
			for _, v := range vars {
				if v.guarded {
					continue
				}
				for _, it := range items {
					// the item's write can be followed by the variables' write
					if it.mu.Block() != v.mu.Block() && reachableBlocks(it.mu.Block(), nil)[v.mu.Block()] && !reachableBlocks(v.mu.Block(), nil)[it.mu.Block()] {
						okAll, bad = false, v.mu
					}
				}
			}
			pos := m.Pos()
			if bad != nil {
				pos = bad.Pos()
			}
			r.Check("scope-precedence", shortName(topLevel(fn)), pos, okAll,
				fmt.Sprintf("%s fills one scope map from a loop item and from TemplateData.Variables: %s", shortName(topLevel(fn)),
					map[bool]string{true: "the item's fields are written last or the outer variables only fill gaps", false: "the outer variables are written after the item's fields and overwrite them — a placeholder named like a document-level variable shows that variable in every expanded row instead of the item's value"}[okAll]))
		}
	}
	// the same through an overwriting merge: a fresh *TemplateData that has received a loop item's
	// fields (stores into its Variables inside a range over some other map) and is THEN handed to a
	// method that copies another data set's Variables over the receiver's without looking
	overwriting := map[*ssa.Function]bool{}
	for _, fn := range p.ModFuncs() {
		if fn.Signature.Recv() == nil || !typeIs(fn.Signature.Recv().Type(), pkgDoc, "TemplateData") || len(fn.Params) < 2 || !typeIs(fn.Params[1].Type(), pkgDoc, "TemplateData") {
			continue
		}
		for _, l := range naturalLoops(fn) {
			ri := rangeOf(l)
			if ri == nil {
				continue
			}
			ch, root := addrChain(stripLoadsAddr(ri.X))
			if len(ch) == 0 || !fieldIs(p, ch[len(ch)-1], pkgDoc, "TemplateData", "Variables") || stripLoads(root) != ssa.Value(fn.Params[1]) {
				continue
			}
			for b := range l.Body {
				for _, in := range b.Instrs {
					mu, ok := in.(*ssa.MapUpdate)
					if !ok {
						continue
					}
					ch2, root2 := addrChain(stripLoadsAddr(mu.Map))
					if len(ch2) > 0 && fieldIs(p, ch2[len(ch2)-1], pkgDoc, "TemplateData", "Variables") && stripLoads(root2) == ssa.Value(fn.Params[0]) {
						// unguarded?
						guarded := false
						for b2 := range l.Body {
							if b2 != l.Header && b2.Dominates(b) && len(b2.Instrs) > 0 {
								if iff, ok := b2.Instrs[len(b2.Instrs)-1].(*ssa.If); ok {
									if ex, ok := iff.Cond.(*ssa.Extract); ok {
										if _, ok := ex.Tuple.(*ssa.Lookup); ok {
											guarded = true
										}
									}
								}
							}
						}
						if !guarded {
							overwriting[fn] = true
						}
					}
				}
			}
		}
	}
	for _, fn := range p.ModFuncs() {
		if fn.Pkg == nil || fn.Pkg.Pkg.Path() != pkgDoc {
			continue
		}
		allInstrs(fn, func(in ssa.Instruction) {
			c, ok := in.(*ssa.Call)
			if !ok {
				return
			}
			cal := staticCallee(c)
			if cal == nil || !overwriting[cal] || len(c.Call.Args) < 2 {
				return
			}
			recv := c.Call.Args[0]
			// item fields written into recv.Variables before the call, inside a range over a map
			var itemFill *ssa.MapUpdate
			for _, l := range naturalLoops(fn) {
				ri := rangeOf(l)
				if ri == nil {
					continue
				}
				if _, isMap := ri.X.Type().Underlying().(*types.Map); !isMap {
					continue
				}
				for b := range l.Body {
					for _, in2 := range b.Instrs {
						mu, ok := in2.(*ssa.MapUpdate)
						if !ok {
							continue
						}
						ch, root := addrChain(stripLoadsAddr(mu.Map))
						if len(ch) == 0 || !fieldIs(p, ch[len(ch)-1], pkgDoc, "TemplateData", "Variables") || stripLoads(root) != stripLoads(recv) {
							continue
						}
						if b != c.Block() && reachableBlocks(b, nil)[c.Block()] && !l.Body[c.Block()] {
							itemFill = mu
						}
					}
				}
			}
			// …or through a method of the data set that copies a map argument into its Variables
			// (nestedData.SetVariables(itemMap)) before the overwriting call
			var itemFillCall *ssa.Call
			if itemFill == nil {
				allInstrs(fn, func(in2 ssa.Instruction) {
					c2, ok := in2.(*ssa.Call)
					if !ok || c2 == c || len(c2.Call.Args) < 2 || stripLoads(c2.Call.Args[0]) != stripLoads(recv) {
						return
					}
					cal2 := staticCallee(c2)
					if cal2 == nil || !p.inModule(cal2) || cal2.Signature.Recv() == nil || !typeIs(cal2.Signature.Recv().Type(), pkgDoc, "TemplateData") {
						return
					}
					if _, isMap := c2.Call.Args[1].Type().Underlying().(*types.Map); !isMap {
						return
					}
					// the argument is not the outer data's own Variables
					if ch, _ := addrChain(stripLoadsAddr(c2.Call.Args[1])); len(ch) > 0 && fieldIs(p, ch[len(ch)-1], pkgDoc, "TemplateData", "Variables") {
						return
					}
					fills := false
					allInstrs(cal2, func(in3 ssa.Instruction) {
						if mu, ok := in3.(*ssa.MapUpdate); ok {
							if ch, root := addrChain(stripLoadsAddr(mu.Map)); len(ch) > 0 && fieldIs(p, ch[len(ch)-1], pkgDoc, "TemplateData", "Variables") && stripLoads(root) == ssa.Value(cal2.Params[0]) {
								fills = true
							}
						}
					})
					if !fills {
						return
					}
					if c2.Block() == c.Block() && instrIndex(c2) < instrIndex(c) || c2.Block() != c.Block() && reachableBlocks(c2.Block(), nil)[c.Block()] {
						itemFillCall = c2
					}
				})
			}
			if itemFill == nil && itemFillCall == nil {
				return
			}
			n++
			r.Check("scope-precedence", shortName(topLevel(fn))+":"+shortName(cal), c.Pos(), false,
				fmt.Sprintf("%s fills a data set with a loop item's fields and then calls %s on it, which copies the outer data's variables over whatever is there: an item field named like a document-level variable is replaced by that variable in every expanded row", shortName(topLevel(fn)), shortName(cal)))
		})
	}
	r.Count("scope_maps_filled_from_item_and_variables", n)
}

// ---------------------------------------------------------------------------
// R-PARSE-CONTEXT-FRESH (C19): goldmark keeps link reference definitions and heading ids in the
// parser.Context of a Parse call.  A context handed to Parse (parser.WithContext) must be created
// for that call; one that is loaded from a field or a package-level variable carries the
// definitions of earlier conversions into later ones ("[label]" then turns into a link and its
// brackets disappear from the text).
// ---------------------------------------------------------------------------

func ruleParseContextFresh(r *Run) {
	p := r.P
	n := 0
	for _, fn := range p.ModFuncs() {
		if fn.Pkg == nil || fn.Pkg.Pkg.Path() != pkgMd {
			continue
		}
		allInstrs(fn, func(in ssa.Instruction) {
			c, ok := in.(*ssa.Call)
			if !ok || !strings.HasSuffix(calleeName(c), "goldmark/parser.WithContext") || len(c.Call.Args) != 1 {
				return
			}
			n++
			fresh := false
			v := c.Call.Args[0]
			for i := 0; i < 4; i++ {
				if mi, ok := v.(*ssa.MakeInterface); ok {
					v = mi.X
					continue
				}
				if ci, ok := v.(*ssa.ChangeInterface); ok {
					v = ci.X
					continue
				}
				break
			}
			if c2, ok := v.(*ssa.Call); ok && strings.HasSuffix(calleeName(c2), "goldmark/parser.NewContext") && c2.Parent() == fn {
				// created in this call — and not inside an initialise-once branch
				fresh = true
			}
			r.Check("parse-context-fresh", shortName(topLevel(fn)), c.Pos(), fresh,
				fmt.Sprintf("%s hands a parser.Context to goldmark's Parse: %s", shortName(topLevel(fn)),
					map[bool]string{true: "it is created by parser.NewContext() in the same call", false: "it is not created for this call (loaded from a field, a variable or a parameter) — link reference definitions of an earlier conversion stay alive and change how the next text is parsed"}[fresh]))
		})
	}
	r.Count("parse_contexts_handed_to_goldmark", n)
}

// ---------------------------------------------------------------------------
// R-INDEX-RANGE-EXACT (C08): removal by element index succeeds for EVERY in-range index.  In an
// exported Document method that splices Body.Elements at its integer parameter, each comparison
// of that parameter that can lead to the failure return compares it with the constant 0 or with
// len(Body.Elements) itself — not with an adjusted count (len-1 when some element kind is present,
// a cached length, …): an adjusted bound rejects an existing element or admits a missing one.
// ---------------------------------------------------------------------------

func ruleIndexRangeExact(r *Run) {
	p := r.P
	n := 0
	for _, fn := range p.exportedAPI(pkgDoc) {
		if fn.Signature.Recv() == nil || !typeIs(fn.Signature.Recv().Type(), pkgDoc, "Document") {
			continue
		}
		pi := removesAtParam(p, fn, 0)
		if pi < 0 || pi >= len(fn.Params) {
			continue
		}
		par := fn.Params[pi]
		n++
		bad := ""
		var badPos token.Pos
		allInstrs(fn, func(in ssa.Instruction) {
			cmp, ok := in.(*ssa.BinOp)
			if !ok {
				return
			}
			switch cmp.Op {
			case token.LSS, token.LEQ, token.GTR, token.GEQ:
			default:
				return
			}
			var other ssa.Value
			if cmp.X == ssa.Value(par) {
				other = cmp.Y
			} else if cmp.Y == ssa.Value(par) {
				other = cmp.X
			} else {
				return
			}
			if _, isC := other.(*ssa.Const); isC {
				return
			}
			if c, ok := other.(*ssa.Call); ok {
				if b, ok := c.Call.Value.(*ssa.Builtin); ok && b.Name() == "len" && isBodyElements(p, c.Call.Args[0]) {
					return
				}
			}
			bad = fmt.Sprintf("the index is compared with %s at %s", describeVal(other), p.pos(cmp.Pos()))
			badPos = cmp.Pos()
		})
		pos := fn.Pos()
		if bad != "" {
			pos = badPos
		}
		r.Check("index-range-exact", shortName(fn), pos, bad == "",
			fmt.Sprintf("%s removes the body element at its index argument: %s", shortName(fn),
				map[bool]string{true: "the range test compares the index with 0 and len(Body.Elements) only", false: bad + ", not with len(Body.Elements) itself — for some history an existing element's index is rejected (nothing is removed although the target exists) or a non-existent one is admitted"}[bad == ""]))
	}
	// the entry point for removal by element index splices AT its argument: a position computed from
	// it (content elements counted, section settings skipped, …) is some other element's index
	if anchor := r.mustFunc(pkgDoc, "(*Document).RemoveElementAt"); anchor != nil {
		direct := removesAtParam(p, anchor, 0) >= 0
		if !direct {
			n++
		}
		r.Check("index-range-exact", shortName(anchor)+":position", anchor.Pos(), direct,
			fmt.Sprintf("%s removes the element of Body.Elements whose index it is given: %s", shortName(anchor),
				map[bool]string{true: "the splice position is the argument itself", false: "the splice position is not the argument (it is computed from it) — for some body the element removed is not the one at the index given, or an in-range index is rejected"}[direct]))
	}
	r.Min("remove_by_element_index_entry_points", n, 1)
}

func describeVal(v ssa.Value) string {
	switch x := v.(type) {
	case *ssa.Phi:
		return "a value that differs between paths (" + x.Comment + ")"
	case *ssa.BinOp:
		return "a computed value (" + x.Op.String() + ")"
	case *ssa.Call:
		return "the result of " + calleeName(x)
	}
	return v.Name()
}

// ---------------------------------------------------------------------------
// R-DELETE-CONTENT-PURE (C09): deleting rows or columns never rewrites the content of a cell that
// stays.  In the exported Delete* operations of Table (with the unexported helpers they reach) no
// store goes to TableCell.Paragraphs / TableCell.Tables of a cell reached from the receiver; only
// the row list and the rows' cell lists change.
// ---------------------------------------------------------------------------

func ruleDeleteContentPure(r *Run) {
	p := r.P
	n := 0
	for _, fn := range p.exportedAPI(pkgDoc) {
		if fn.Signature.Recv() == nil || !typeIs(fn.Signature.Recv().Type(), pkgDoc, "Table") || !strings.HasPrefix(fn.Name(), "Delete") {
			continue
		}
		n++
		group := []*ssa.Function{fn}
		for _, g := range sortedFuncs(p.staticReach(fn)) {
			if g != fn && g.Pkg != nil && g.Pkg.Pkg.Path() == pkgDoc && (g.Object() == nil || !g.Object().Exported()) {
				group = append(group, g)
			}
		}
		var bad *ssa.Store
		badFn := ""
		for _, g := range group {
			allInstrs(g, func(in ssa.Instruction) {
				st, ok := in.(*ssa.Store)
				if !ok {
					return
				}
				fv, _ := fieldOfAddr(st.Addr)
				if !fieldIs(p, fv, pkgDoc, "TableCell", "Paragraphs") && !fieldIs(p, fv, pkgDoc, "TableCell", "Tables") {
					return
				}
				_, root := addrChain(st.Addr)
				if _, fresh := stripLoads(root).(*ssa.Alloc); fresh {
					if al := stripLoads(root).(*ssa.Alloc); al.Heap || true {
						// a cell being built locally (not one of the table's)
						if !allocHoldsReceiverCell(al) {
							return
						}
					}
				}
				bad, badFn = st, shortName(g)
			})
		}
		pos := fn.Pos()
		if bad != nil {
			pos = bad.Pos()
		}
		r.Check("delete-content-pure", shortName(fn), pos, bad == nil,
			fmt.Sprintf("%s removes rows/columns: %s", shortName(fn),
				map[bool]string{true: "it never stores into the content of a remaining cell", false: "it stores into the paragraphs/nested tables of a cell that remains (in " + badFn + ") — content that was not the target of the edit is replaced"}[bad == nil]))
	}
	r.Min("table_delete_operations", n, 3)
}

// allocHoldsReceiverCell: a local variable that only ever holds a pointer INTO the table
// (cell := &t.Rows[i].Cells[j]) is not a fresh cell.
func allocHoldsReceiverCell(al *ssa.Alloc) bool {
	if al.Referrers() == nil {
		return false
	}
	for _, u := range *al.Referrers() {
		if st, ok := u.(*ssa.Store); ok && st.Addr == ssa.Value(al) {
			switch st.Val.(type) {
			case *ssa.IndexAddr, *ssa.FieldAddr:
				return true
			}
		}
	}
	return false
}

// ---------------------------------------------------------------------------
// R-EXISTS-BY-ID (C13): a predicate that wraps the registry's id look-up and is used to decide
// whether a caller-supplied string may be written as a style reference answers true only where the
// look-up BY ID succeeded.  In a bool-valued module function that calls StyleExists(p)/GetStyle(p)
// on one of its string parameters, every `true` result lies on the found-edge of such a look-up of
// that parameter; a second way to say yes (a match by display name, a prefix match) lets a string
// through that is not the id of any style, and it is then written into w:pStyle as it is.
// ---------------------------------------------------------------------------

func ruleExistsByID(r *Run) {
	p := r.P
	n := 0
	for _, fn := range p.ModFuncs() {
		if fn.Pkg == nil || (fn.Pkg.Pkg.Path() != pkgDoc && fn.Pkg.Pkg.Path() != pkgMd) || fn.Parent() != nil {
			continue
		}
		res := fn.Signature.Results()
		if res.Len() != 1 {
			continue
		}
		if b, ok := res.At(0).Type().Underlying().(*types.Basic); !ok || b.Kind() != types.Bool {
			continue
		}
		// found-edges of id look-ups on a string parameter
		var found []*ssa.BasicBlock
		allInstrs(fn, func(in ssa.Instruction) {
			c, ok := in.(*ssa.Call)
			if !ok || len(c.Call.Args) < 2 || c.Referrers() == nil {
				return
			}
			cn := calleeName(c)
			isExists := strings.HasSuffix(cn, "StyleManager).StyleExists")
			isGet := strings.HasSuffix(cn, "StyleManager).GetStyle")
			if !isExists && !isGet {
				return
			}
			if _, isPar := c.Call.Args[1].(*ssa.Parameter); !isPar {
				return
			}
			for _, u := range *c.Referrers() {
				switch y := u.(type) {
				case *ssa.If:
					if isExists {
						found = append(found, y.Block().Succs[0])
					}
				case *ssa.BinOp:
					if isGet && (y.Op == token.NEQ || y.Op == token.EQL) && y.Referrers() != nil {
						for _, u2 := range *y.Referrers() {
							if iff, ok := u2.(*ssa.If); ok {
								if y.Op == token.NEQ {
									found = append(found, iff.Block().Succs[0])
								} else {
									found = append(found, iff.Block().Succs[1])
								}
							}
						}
					}
				case *ssa.Return:
					if isExists {
						found = append(found, nil) // returned directly: the answer IS the look-up
					}
				}
			}
		})
		if len(found) == 0 {
			continue
		}
		// used on the way to an emission? (the predicate's callers, two levels up, set a paragraph style)
		emits := false
		seen := map[*ssa.Function]bool{}
		var up func(g *ssa.Function, d int)
		up = func(g *ssa.Function, d int) {
			if seen[g] || d > 2 {
				return
			}
			seen[g] = true
			allInstrs(g, func(in ssa.Instruction) {
				if c, ok := in.(*ssa.Call); ok && strings.HasSuffix(calleeName(c), "Paragraph).SetStyle") {
					emits = true
				}
				if st, ok := in.(*ssa.Store); ok {
					if fv, _ := fieldOfAddr(st.Addr); fv != nil && fv.Name() == "Val" {
						if o := fieldOwner(p, fv); o != nil && (o.Obj().Name() == "ParagraphStyle" || o.Obj().Name() == "TableStyle") {
							emits = true
						}
					}
				}
			})
			for caller := range p.callersIndex()[g] {
				up(topLevel(caller), d+1)
			}
		}
		up(fn, 0)
		if !emits {
			continue
		}
		n++
		bad := ""
		var badPos token.Pos
		for _, ret := range returnsOf(fn) {
			if len(ret.Results) != 1 {
				continue
			}
			check := func(v ssa.Value, from *ssa.BasicBlock) {
				c, ok := v.(*ssa.Const)
				if !ok || c.Value == nil || c.Value.String() != "true" {
					return
				}
				okEdge := false
				for _, f := range found {
					if f != nil && (f == from || f.Dominates(from)) {
						okEdge = true
					}
				}
				if !okEdge {
					bad = "it can answer true at " + p.pos(ret.Pos()) + " without the look-up by id having succeeded"
					badPos = ret.Pos()
				}
			}
			if ph, ok := ret.Results[0].(*ssa.Phi); ok {
				for i, e := range ph.Edges {
					check(e, ph.Block().Preds[i])
				}
			} else {
				check(ret.Results[0], ret.Block())
			}
		}
		pos := fn.Pos()
		if bad != "" && badPos.IsValid() {
			pos = badPos
		}
		r.Check("exists-by-id", shortName(fn), pos, bad == "",
			fmt.Sprintf("%s decides whether a string names a registered style: %s", shortName(fn),
				map[bool]string{true: "it says yes only where the registry's look-up by id found it", false: bad + " — a string that is not a style id (a display name, a near match) is accepted and then written into w:pStyle unchanged, naming a style word/styles.xml does not define"}[bad == ""]))
	}
	r.Count("style_existence_predicates_guarding_emission", n)
}

// ---------------------------------------------------------------------------
// R-PASS-UNCONDITIONAL (C16): every directive pass runs over the text that is actually rendered.
// In renderTemplate a call of a pass (a TemplateEngine method from text to text) may be skipped
// only under a condition computed from the text being rendered; a condition that reads the
// Template object (its recorded blocks, its variables, its name) describes the template's OWN
// source, which for a derived template is not the text that is rendered (the parent's text with
// the overrides applied) — the parent's directives then reach the output unrendered.
// ---------------------------------------------------------------------------

func rulePassUnconditional(r *Run) {
	p := r.P
	anchor := r.mustFunc(pkgDoc, "(*TemplateEngine).renderTemplate")
	if anchor == nil {
		return
	}
	sl := newSlicer(p)
	n := 0
	for _, fn := range helperGroup(p, anchor) {
		allInstrs(fn, func(in ssa.Instruction) {
			c, ok := in.(*ssa.Call)
			if !ok {
				return
			}
			cal := staticCallee(c)
			if cal == nil || !p.inModule(cal) || cal.Signature.Recv() == nil || !typeIs(cal.Signature.Recv().Type(), pkgDoc, "TemplateEngine") {
				return
			}
			if cal.Signature.Results().Len() != 1 || !isStringType(cal.Signature.Results().At(0).Type()) || len(c.Call.Args) < 2 || !isStringType(c.Call.Args[1].Type()) {
				return
			}
			// a step that is handed the template object itself (block definitions, inheritance) is about
			// the template by construction; the directive passes get text and data only
			for _, a := range c.Call.Args[1:] {
				if typeIs(a.Type(), pkgDoc, "Template") {
					return
				}
			}
			n++
			bad := ""
			B := c.Block()
			for _, A := range fn.Blocks {
				if A == B || !A.Dominates(B) || len(A.Instrs) == 0 || len(A.Succs) != 2 {
					continue
				}
				iff, ok := A.Instrs[len(A.Instrs)-1].(*ssa.If)
				if !ok {
					continue
				}
				// a way round the call that still ends in a successful return (an error exit is not a
				// skipped pass)
				bypass := false
				ei := errorResultIndex(fn.Signature)
				for _, s := range A.Succs {
					if s == B {
						continue
					}
					rs := reachableBlocks(s, nil)
					if rs[B] {
						continue
					}
					for _, ret := range returnsOf(fn) {
						if !rs[ret.Block()] {
							continue
						}
						if ei < 0 || ei >= len(ret.Results) || isNilConst(retResult(ret, ei)) {
							bypass = true
						}
					}
				}
				if !bypass {
					continue
				}
				res := sl.Slice(iff.Cond)
				for f := range res.fieldsReadOf(p, map[string]bool{"Template": true}) {
					if f != "Template.Content" {
						bad = f
					}
				}
				if bad == "" {
					for v := range res.Vals {
						if par, ok := v.(*ssa.Parameter); ok && typeIs(par.Type(), pkgDoc, "Template") {
							if cc, isCall := iff.Cond.(*ssa.Call); isCall {
								for _, a := range cc.Call.Args {
									if a == ssa.Value(par) {
										bad = "the template object (through " + calleeName(cc) + ")"
									}
								}
							}
						}
					}
				}
			}
			r.Check("pass-unconditional", shortName(fn)+":"+shortName(cal), c.Pos(), bad == "",
				fmt.Sprintf("%s runs the pass %s: %s", shortName(fn), shortName(cal),
					map[bool]string{true: "unconditionally, or under a condition on the rendered text only", false: "whether it runs depends on " + bad + " — what was recorded about the template's own source, not the text being rendered; for a template that extends another the parent's directives of that kind are copied to the output unrendered"}[bad == ""]))
		})
	}
	r.Min("render_passes_in_renderTemplate", n, 4)
}

// ---------------------------------------------------------------------------
// R-FENCE-VERBATIM (C20): between code fences every character is literal, so the text of a code
// block must not pass a Markdown escaper.  A function that writes a ``` fence never reaches
// (statically) a function that backslash-escapes text (strings.ReplaceAll / a strings.Replacer
// with replacements beginning with a backslash): the backslashes would become part of the code,
// and every export/import round would add more.
// ---------------------------------------------------------------------------

func ruleFenceVerbatim(r *Run) {
	p := r.P
	hasBackslashRepl := func(c *ssa.Call) bool {
		for _, a := range c.Call.Args {
			for _, e := range append(varargElems(a), a) {
				if e == nil {
					continue
				}
				if s, ok := constString(e); ok && len(s) >= 2 && s[0] == '\\' {
					return true
				}
			}
		}
		return false
	}
	// does the package build a backslash-escaping Replacer anywhere (package initialiser included)?
	replacerEscapes := false
	if pkg := p.SSAPkg[pkgMd]; pkg != nil {
		for _, m := range pkg.Members {
			if f, ok := m.(*ssa.Function); ok {
				for _, g := range withClosures(f) {
					allInstrs(g, func(in ssa.Instruction) {
						if c, ok := in.(*ssa.Call); ok && calleeName(c) == "strings.NewReplacer" && hasBackslashRepl(c) {
							replacerEscapes = true
						}
					})
				}
			}
		}
	}
	escapers := map[*ssa.Function]bool{}
	for _, fn := range p.ModFuncs() {
		if fn.Pkg == nil || fn.Pkg.Pkg.Path() != pkgMd {
			continue
		}
		allInstrs(fn, func(in ssa.Instruction) {
			c, ok := in.(*ssa.Call)
			if !ok {
				return
			}
			switch calleeName(c) {
			case "strings.ReplaceAll", "strings.Replace":
				if hasBackslashRepl(c) {
					escapers[topLevel(fn)] = true
				}
			case "(*strings.Replacer).Replace", "(*strings.Replacer).WriteString":
				if replacerEscapes {
					escapers[topLevel(fn)] = true
				}
			}
		})
	}
	n := 0
	for _, fn := range p.ModFuncs() {
		if fn.Pkg == nil || fn.Pkg.Pkg.Path() != pkgMd || fn.Parent() != nil {
			continue
		}
		fence := false
		allInstrs(fn, func(in ssa.Instruction) {
			c, ok := in.(*ssa.Call)
			if !ok {
				return
			}
			for _, a := range c.Call.Args {
				if s, ok := constString(a); ok && strings.Contains(s, "```") {
					fence = true
				}
			}
		})
		if !fence {
			continue
		}
		n++
		bad := ""
		if escapers[fn] {
			bad = shortName(fn) + " itself"
		}
		for _, g := range sortedFuncs(p.staticReach(fn)) {
			if g != fn && escapers[g] {
				bad = shortName(g)
			}
		}
		r.Check("fence-verbatim", shortName(fn), fn.Pos(), bad == "",
			fmt.Sprintf("%s writes a fenced code block: %s", shortName(fn),
				map[bool]string{true: "nothing it calls backslash-escapes text", false: "the text it writes can pass through " + bad + ", which backslash-escapes Markdown metacharacters — inside a fence the backslashes are literal, so the exported code differs from the run text and each round trip adds more"}[bad == ""]))
	}
	r.Min("fence_writing_functions", n, 1)
	r.Count("markdown_escapers", len(escapers))
}

// ---------------------------------------------------------------------------
// R-DIV-GUARD (C06): nothing on the Open path divides by a number taken from the file.  Every
// integer division or remainder in a function reachable from openFromZipReader has a constant
// non-zero divisor, or a divisor that the dominating comparisons (or the construction of the
// value: a constant-or-guarded phi, len()+k, max(…, k)) keep away from zero.
// ---------------------------------------------------------------------------

func ruleDivGuard(r *Run) {
	p := r.P
	root := r.mustFunc(pkgDoc, "openFromZipReader")
	if root == nil {
		return
	}
	n, nFuncs := 0, 0
	for _, fn := range sortedFuncs(p.cgReach(root)) {
		if !p.inModule(fn) {
			continue
		}
		nFuncs++
		idx := 0
		allInstrs(fn, func(in ssa.Instruction) {
			bo, ok := in.(*ssa.BinOp)
			if !ok || (bo.Op != token.QUO && bo.Op != token.REM) {
				return
			}
			b, ok := bo.Type().Underlying().(*types.Basic)
			if !ok || b.Info()&types.IsInteger == 0 {
				return
			}
			n++
			idx++
			okc := nonZeroAt(bo.Y, bo.Block(), 0)
			r.Check("div-guard", fmt.Sprintf("%s#%d", shortName(topLevel(fn)), idx), bo.Pos(), okc,
				fmt.Sprintf("integer %s in %s on the Open path: %s", map[token.Token]string{token.QUO: "division", token.REM: "remainder"}[bo.Op], shortName(topLevel(fn)),
					map[bool]string{true: "the divisor cannot be zero here", false: "nothing keeps the divisor away from zero (it can come out of the file: an attribute value of 0) — Open panics with a division by zero instead of returning an error or a document"}[okc]))
		})
	}
	r.Count("integer_divisions_on_open_path", n)
	r.Min("module_functions_on_open_path", nFuncs, 30)
}

// nonZeroAt: v is known to be non-zero in block at.
func nonZeroAt(v ssa.Value, at *ssa.BasicBlock, depth int) bool {
	if depth > 4 {
		return false
	}
	switch x := v.(type) {
	case *ssa.Const:
		c, ok := constInt(x)
		return ok && c != 0
	case *ssa.Convert:
		if nonZeroAt(x.X, at, depth+1) {
			return true
		}
	case *ssa.ChangeType:
		if nonZeroAt(x.X, at, depth+1) {
			return true
		}
	case *ssa.Phi:
		all := len(x.Edges) > 0
		for i, e := range x.Edges {
			if !nonZeroAt(e, x.Block().Preds[i], depth+1) {
				all = false
			}
		}
		if all {
			return true
		}
	case *ssa.BinOp:
		// len(x)+k, n+k with k>0 and n>=0 is not decidable here except for len
		if x.Op == token.ADD {
			if c, ok := constInt(x.Y); ok && c > 0 {
				if call, ok := x.X.(*ssa.Call); ok {
					if bi, ok := call.Call.Value.(*ssa.Builtin); ok && (bi.Name() == "len" || bi.Name() == "cap") {
						return true
					}
				}
			}
		}
	case *ssa.Call:
		if bi, ok := x.Call.Value.(*ssa.Builtin); ok && bi.Name() == "max" {
			for _, a := range x.Call.Args {
				if c, ok := constInt(a); ok && c > 0 {
					return true
				}
			}
		}
	}
	// dominating comparisons of v itself
	fn := at.Parent()
	for _, b := range fn.Blocks {
		if len(b.Instrs) == 0 || len(b.Succs) != 2 || b.Succs[0] == b.Succs[1] {
			continue
		}
		iff, ok := b.Instrs[len(b.Instrs)-1].(*ssa.If)
		if !ok {
			continue
		}
		cmp, ok := iff.Cond.(*ssa.BinOp)
		if !ok {
			continue
		}
		// go/ssa does not merge two len(x) of the same x: a test of one speaks for the other
		sameAs := func(a ssa.Value) bool {
			if a == v {
				return true
			}
			c1, ok1 := a.(*ssa.Call)
			c2, ok2 := v.(*ssa.Call)
			if !ok1 || !ok2 {
				return false
			}
			b1, ok1 := c1.Call.Value.(*ssa.Builtin)
			b2, ok2 := c2.Call.Value.(*ssa.Builtin)
			if !ok1 || !ok2 || b1.Name() != "len" || b2.Name() != "len" {
				return false
			}
			p1, p2 := pathString(stripLoadsAddr(c1.Call.Args[0])), pathString(stripLoadsAddr(c2.Call.Args[0]))
			return p1 != "" && p1 == p2
		}
		var c int64
		var op token.Token
		if sameAs(cmp.X) {
			k, ok := constInt(cmp.Y)
			if !ok {
				continue
			}
			c, op = k, cmp.Op
		} else if sameAs(cmp.Y) {
			k, ok := constInt(cmp.X)
			if !ok {
				continue
			}
			c = k
			switch cmp.Op { // k op v  ⇒  v op' k
			case token.LSS:
				op = token.GTR
			case token.LEQ:
				op = token.GEQ
			case token.GTR:
				op = token.LSS
			case token.GEQ:
				op = token.LEQ
			default:
				op = cmp.Op
			}
		} else {
			continue
		}
		// on which successor is v != 0 implied?
		var good *ssa.BasicBlock
		switch op {
		case token.EQL:
			if c == 0 {
				good = b.Succs[1]
			} else {
				good = b.Succs[0]
			}
		case token.NEQ:
			if c == 0 {
				good = b.Succs[0]
			}
		case token.GTR:
			if c >= 0 {
				good = b.Succs[0]
			}
			if c < 0 { // v <= c < 0 on the false edge
				good = b.Succs[1]
			}
		case token.GEQ:
			if c >= 1 {
				good = b.Succs[0]
			}
			if c <= 0 { // v < c <= 0
				good = b.Succs[1]
			}
		case token.LSS:
			if c <= 0 {
				good = b.Succs[0]
			}
			if c >= 1 { // v >= c >= 1
				good = b.Succs[1]
			}
		case token.LEQ:
			if c < 0 {
				good = b.Succs[0]
			}
			if c >= 0 { // v > c >= 0
				good = b.Succs[1]
			}
		}
		if good != nil && len(good.Preds) == 1 && (good == at || good.Dominates(at)) {
			return true
		}
	}
	return false
}

// ---------------------------------------------------------------------------
// R-SHARED-WRITER-SYNC (C07): the process-wide logger is used by every document.  A struct type
// of which a package-level instance exists and which holds an io.Writer must not write to that
// writer directly from its methods (w.Write, fmt.Fprint*, io.WriteString) unless the method holds a
// mutex of the same object around the write; handing the line to a *log.Logger (which serialises
// its writes) is the accepted form.  Otherwise goroutines working on DIFFERENT documents race
// inside the writer the application installed.
// ---------------------------------------------------------------------------

func ruleSharedWriterSync(r *Run) {
	p := r.P
	// struct types with a package-level instance
	shared := map[*types.Named]string{}
	for _, pk := range []string{pkgDoc, pkgMd, "github.com/zerx-lab/wordZero/pkg/style"} {
		sp := p.SSAPkg[pk]
		if sp == nil {
			continue
		}
		for name, m := range sp.Members {
			g, ok := m.(*ssa.Global)
			if !ok {
				continue
			}
			t := g.Type().(*types.Pointer).Elem()
			if pt, ok := t.(*types.Pointer); ok {
				t = pt.Elem()
			}
			if nt, ok := t.(*types.Named); ok {
				if _, isStruct := nt.Underlying().(*types.Struct); isStruct && nt.Obj().Pkg() != nil && nt.Obj().Pkg().Path() == pk {
					shared[nt] = name
				}
			}
		}
	}
	isWriter := func(t types.Type) bool {
		nt, ok := t.(*types.Named)
		return ok && nt.Obj().Pkg() != nil && nt.Obj().Pkg().Path() == "io" && nt.Obj().Name() == "Writer"
	}
	n := 0
	for _, fn := range p.ModFuncs() {
		recv := fn.Signature.Recv()
		if recv == nil || fn.Parent() != nil {
			continue
		}
		rt := recv.Type()
		if pt, ok := rt.(*types.Pointer); ok {
			rt = pt.Elem()
		}
		nt, ok := rt.(*types.Named)
		if !ok || shared[nt] == "" {
			continue
		}
		allInstrs(fn, func(in ssa.Instruction) {
			c, ok := in.(*ssa.Call)
			if !ok {
				return
			}
			var w ssa.Value
			switch {
			case c.Call.IsInvoke() && c.Call.Method.Name() == "Write" && isWriter(c.Call.Value.Type()):
				w = c.Call.Value
			case calleeName(c) == "fmt.Fprintf" || calleeName(c) == "fmt.Fprintln" || calleeName(c) == "fmt.Fprint" || calleeName(c) == "io.WriteString":
				w = c.Call.Args[0]
			default:
				return
			}
			// the writer is a field of the receiver
			ld, ok := stripConv(w).(*ssa.UnOp)
			if !ok || ld.Op != token.MUL {
				return
			}
			fv, base := fieldOfAddr(ld.X)
			if fv == nil || !isWriter(fv.Type()) || stripLoads(base) != ssa.Value(fn.Params[0]) {
				return
			}
			n++
			// a Lock()/RLock() on a field of the receiver dominates the write
			locked := false
			allInstrs(fn, func(in2 ssa.Instruction) {
				c2, ok := in2.(*ssa.Call)
				if !ok {
					return
				}
				cn := calleeName(c2)
				if cn != "(*sync.Mutex).Lock" && cn != "(*sync.RWMutex).Lock" {
					return
				}
				_, b2 := fieldOfAddr(c2.Call.Args[0])
				if b2 == nil || stripLoads(b2) != ssa.Value(fn.Params[0]) {
					return
				}
				if c2.Block() == c.Block() && instrIndex(c2) < instrIndex(c) || c2.Block() != c.Block() && c2.Block().Dominates(c.Block()) {
					locked = true
				}
			})
			r.Check("shared-writer-sync", shortName(fn)+":"+fv.Name(), c.Pos(), locked,
				fmt.Sprintf("%s writes to the writer held in %s.%s, and a process-wide instance of %s exists (%s): %s", shortName(fn), nt.Obj().Name(), fv.Name(), nt.Obj().Name(), shared[nt],
					map[bool]string{true: "the write is made under the object's mutex", false: "nothing serialises the write — goroutines that work on different documents write to the installed writer at the same time (a data race inside it; lines are lost or interleaved)"}[locked]))
		})
	}
	r.Count("direct_writes_to_a_shared_writer", n)
	r.Min("struct_types_with_a_process_wide_instance", len(shared), 1)
}

// ---------------------------------------------------------------------------
// R-AXIS-DIM (C10): the displayed extent follows the sizing rules.  A dimensional analysis over the
// two picture axes: every value computed from widths carries the unit w, from heights the unit h;
// products add exponents, quotients subtract them, sums and alternatives (phi, several stores to
// one variable) need equal units, constants and conversions are neutral.  What is stored as a
// horizontal extent (a field Cx) must have unit w¹h⁰ and a vertical extent (Cy) unit w⁰h¹ on every
// path where the unit is determined.  "height × (h/w)" for a derived width has unit w⁻¹h² — the
// swapped-ratio mistake — and is reported; values whose unit is not determined are not.
// ---------------------------------------------------------------------------

type axisDim struct {
	w, h    int
	known   bool // a definite unit (including the neutral w⁰h⁰ of a pure number when neutral is set)
	neutral bool // a constant: combines with anything
	clash   string
}

func (d axisDim) String() string {
	if d.clash != "" {
		return "inconsistent (" + d.clash + ")"
	}
	if !d.known {
		return "undetermined"
	}
	return fmt.Sprintf("w^%d·h^%d", d.w, d.h)
}

type axisEval struct {
	p     *Program
	env   map[*ssa.Parameter]axisDim
	depth int
	up    int // how many times a free parameter has been resolved at call sites
	seen  map[ssa.Value]bool
}

func axisMeet(a, b axisDim, what string) axisDim {
	if a.clash != "" {
		return a
	}
	if b.clash != "" {
		return b
	}
	if a.neutral || !a.known {
		if a.neutral && !b.known {
			return a
		}
		return b
	}
	if b.neutral || !b.known {
		return a
	}
	if a.w != b.w || a.h != b.h {
		return axisDim{clash: fmt.Sprintf("%s of %s and %s", what, a, b)}
	}
	return a
}

func (e *axisEval) eval(v ssa.Value) axisDim {
	if e.depth > 40 || e.seen[v] {
		return axisDim{}
	}
	e.seen[v] = true
	defer delete(e.seen, v)
	e.depth++
	defer func() { e.depth-- }()
	fieldDim := func(fv *types.Var) axisDim {
		if fv == nil {
			return axisDim{}
		}
		o := fieldOwner(e.p, fv)
		if o == nil {
			return axisDim{}
		}
		switch o.Obj().Name() {
		case "ImageInfo", "ImageSize", "CellImageConfig":
			switch fv.Name() {
			case "Width":
				return axisDim{w: 1, known: true}
			case "Height":
				return axisDim{h: 1, known: true}
			}
		}
		return axisDim{}
	}
	switch x := v.(type) {
	case *ssa.Const:
		return axisDim{known: true, neutral: true}
	case *ssa.Convert:
		return e.eval(x.X)
	case *ssa.ChangeType:
		return e.eval(x.X)
	case *ssa.Parameter:
		if d, ok := e.env[x]; ok {
			return d
		}
		// a free parameter of an unexported function: what do the call sites hand in?
		if fn := x.Parent(); fn != nil && e.up < 3 && (fn.Object() == nil || !fn.Object().Exported()) {
			pi := paramIndex(fn, x)
			out := axisDim{}
			first := true
			for _, cs := range staticCallSites(e.p, fn) {
				if pi < 0 || pi >= len(cs.Common().Args) {
					continue
				}
				sub := &axisEval{p: e.p, env: map[*ssa.Parameter]axisDim{}, seen: map[ssa.Value]bool{}, up: e.up + 1}
				d := sub.eval(cs.Common().Args[pi])
				if first {
					out, first = d, false
				} else {
					out = axisMeet(out, d, "alternatives")
				}
			}
			return out
		}
		return axisDim{}
	case *ssa.MakeInterface:
		return e.eval(x.X)
	case *ssa.BinOp:
		a, b := e.eval(x.X), e.eval(x.Y)
		if a.clash != "" {
			return a
		}
		if b.clash != "" {
			return b
		}
		switch x.Op {
		case token.MUL, token.QUO:
			if !a.known || !b.known {
				// a number of unknown unit times a constant keeps being unknown; unknown × known is unknown
				if a.known && a.neutral {
					return b
				}
				if b.known && b.neutral {
					return a
				}
				return axisDim{}
			}
			if x.Op == token.MUL {
				return axisDim{w: a.w + b.w, h: a.h + b.h, known: true, neutral: a.neutral && b.neutral}
			}
			return axisDim{w: a.w - b.w, h: a.h - b.h, known: true, neutral: a.neutral && b.neutral}
		case token.ADD, token.SUB:
			return axisMeet(a, b, "sum")
		}
		return axisDim{}
	case *ssa.Phi:
		out := axisDim{}
		first := true
		for _, ed := range x.Edges {
			d := e.eval(ed)
			if first {
				out, first = d, false
				continue
			}
			out = axisMeet(out, d, "alternatives")
		}
		return out
	case *ssa.Field:
		fv, _ := fieldOfVal(x)
		if d := fieldDim(fv); d.known {
			return d
		}
		if d, ok := e.carried(v); ok {
			return d
		}
		return axisDim{}
	case *ssa.UnOp:
		if x.Op == token.SUB {
			return e.eval(x.X)
		}
		if x.Op != token.MUL {
			return axisDim{}
		}
		if fa, ok := x.X.(*ssa.FieldAddr); ok {
			fv, _ := fieldOfAddr(fa)
			if d := fieldDim(fv); d.known {
				return d
			}
			// a value carried in a struct built by a helper (attrs := newDrawingAttrs(…, w, h); attrs.cx)
			if d, ok := e.carried(v); ok {
				return d
			}
			return axisDim{}
		}
		if al, ok := x.X.(*ssa.Alloc); ok && al.Referrers() != nil {
			out := axisDim{}
			first := true
			for _, u := range *al.Referrers() {
				if st, ok := u.(*ssa.Store); ok && st.Addr == ssa.Value(al) {
					d := e.eval(st.Val)
					if first {
						out, first = d, false
						continue
					}
					out = axisMeet(out, d, "alternatives")
				}
			}
			return out
		}
	case *ssa.Extract:
		if c, ok := x.Tuple.(*ssa.Call); ok {
			return e.call(c, x.Index)
		}
	case *ssa.Call:
		if bi, ok := x.Call.Value.(*ssa.Builtin); ok && (bi.Name() == "min" || bi.Name() == "max") {
			out := axisDim{}
			for i, a := range x.Call.Args {
				d := e.eval(a)
				if i == 0 {
					out = d
				} else {
					out = axisMeet(out, d, "alternatives")
				}
			}
			return out
		}
		switch calleeName(x) {
		case "math.Round", "math.Floor", "math.Ceil", "math.Trunc", "math.Abs", "strconv.Itoa", "strconv.FormatInt":
			return e.eval(x.Call.Args[0])
		case "fmt.Sprintf", "fmt.Sprint":
			// a number printed as the attribute text: exactly one operand
			args := varargElems(x.Call.Args[len(x.Call.Args)-1])
			if len(args) == 1 {
				return e.eval(args[0])
			}
			return axisDim{}
		}
		return e.call(x, 0)
	}
	return axisDim{}
}

// carried: v reads a field of a struct value built by a module helper's composite literal, or a
// field of a struct parameter (resolved at the call sites of an unexported function).
func (e *axisEval) carried(v ssa.Value) (axisDim, bool) {
	if rep, call := structFieldRep(v); rep != nil && call != nil {
		return e.inCallee(rep, call), true
	}
	// through a POINTER to the struct: p.f with p a local literal, a constructor's result, or a
	// pointer parameter of an unexported function (resolved at its call sites)
	if ld, ok := v.(*ssa.UnOp); ok && ld.Op == token.MUL {
		if fa, ok := ld.X.(*ssa.FieldAddr); ok {
			if _, isPtr := fa.X.Type().Underlying().(*types.Pointer); isPtr {
				if d, ok := e.ptrField(fa.X, fa.Field); ok {
					return d, true
				}
			}
		}
	}
	if prm, fi := paramFieldRead(v); prm != nil && fi >= 0 {
		fn := prm.Parent()
		if fn == nil || e.up >= 3 || (fn.Object() != nil && fn.Object().Exported()) {
			return axisDim{}, false
		}
		pi := paramIndex(fn, prm)
		out := axisDim{}
		first := true
		for _, cs := range staticCallSites(e.p, fn) {
			if pi < 0 || pi >= len(cs.Common().Args) {
				continue
			}
			rep, call := structFieldOf(cs.Common().Args[pi], fi, 0)
			if rep == nil || call == nil {
				return axisDim{}, false
			}
			sub := &axisEval{p: e.p, env: map[*ssa.Parameter]axisDim{}, seen: map[ssa.Value]bool{}, up: e.up + 1}
			d := sub.inCallee(rep, call)
			if first {
				out, first = d, false
			} else {
				out = axisMeet(out, d, "alternatives")
			}
		}
		return out, !first
	}
	return axisDim{}, false
}

// ptrField: the unit of field fi of the struct base points to.
func (e *axisEval) ptrField(base ssa.Value, fi int) (axisDim, bool) {
	fieldStore := func(al *ssa.Alloc) ssa.Value {
		if al.Referrers() == nil {
			return nil
		}
		var val ssa.Value
		n := 0
		for _, u := range *al.Referrers() {
			if fa, ok := u.(*ssa.FieldAddr); ok && fa.Field == fi && fa.Referrers() != nil {
				for _, u2 := range *fa.Referrers() {
					if st, ok := u2.(*ssa.Store); ok && st.Addr == ssa.Value(fa) {
						val = st.Val
						n++
					}
				}
			}
		}
		if n == 1 {
			return val
		}
		return nil
	}
	switch b := base.(type) {
	case *ssa.Alloc:
		if val := fieldStore(b); val != nil {
			return e.eval(val), true
		}
	case *ssa.Call:
		cal := staticCallee(b)
		if cal == nil || !e.p.inModule(cal) || len(cal.Blocks) == 0 {
			return axisDim{}, false
		}
		rets := returnsOf(cal)
		if len(rets) != 1 || len(rets[0].Results) != 1 {
			return axisDim{}, false
		}
		if al, ok := rets[0].Results[0].(*ssa.Alloc); ok {
			if val := fieldStore(al); val != nil {
				return e.inCallee(val, b), true
			}
		}
	case *ssa.Parameter:
		fn := b.Parent()
		if fn == nil || e.up >= 3 || (fn.Object() != nil && fn.Object().Exported()) {
			return axisDim{}, false
		}
		pi := paramIndex(fn, b)
		out := axisDim{}
		first := true
		for _, cs := range staticCallSites(e.p, fn) {
			if pi < 0 || pi >= len(cs.Common().Args) {
				continue
			}
			sub := &axisEval{p: e.p, env: map[*ssa.Parameter]axisDim{}, seen: map[ssa.Value]bool{}, up: e.up + 1}
			d, ok := sub.ptrField(cs.Common().Args[pi], fi)
			if !ok {
				return axisDim{}, false
			}
			if first {
				out, first = d, false
			} else {
				out = axisMeet(out, d, "alternatives")
			}
		}
		return out, !first
	}
	return axisDim{}, false
}

// inCallee: evaluate rep, a value of call's callee, with the callee's parameters bound to the
// units of the call's arguments.
func (e *axisEval) inCallee(rep ssa.Value, call *ssa.Call) axisDim {
	cal := staticCallee(call)
	if cal == nil {
		return axisDim{}
	}
	env := map[*ssa.Parameter]axisDim{}
	for i, par := range cal.Params {
		if i < len(call.Call.Args) {
			env[par] = e.eval(call.Call.Args[i])
		}
	}
	sub := &axisEval{p: e.p, env: env, depth: e.depth + 1, seen: map[ssa.Value]bool{}, up: e.up}
	return sub.eval(rep)
}

func (e *axisEval) call(c *ssa.Call, idx int) axisDim {
	cal := staticCallee(c)
	if cal == nil || !e.p.inModule(cal) || len(cal.Blocks) == 0 || e.depth > 30 {
		return axisDim{}
	}
	env := map[*ssa.Parameter]axisDim{}
	for i, par := range cal.Params {
		if i < len(c.Call.Args) {
			env[par] = e.eval(c.Call.Args[i])
		}
	}
	sub := &axisEval{p: e.p, env: env, depth: e.depth + 1, seen: map[ssa.Value]bool{}}
	out := axisDim{}
	first := true
	for _, ret := range returnsOf(cal) {
		if idx >= len(ret.Results) {
			continue
		}
		d := sub.eval(ret.Results[idx])
		if first {
			out, first = d, false
			continue
		}
		out = axisMeet(out, d, "alternatives")
	}
	return out
}

func ruleAxisDim(r *Run) {
	p := r.P
	n, determined := 0, 0
	for _, fn := range p.ModFuncs() {
		if fn.Pkg == nil || fn.Pkg.Pkg.Path() != pkgDoc {
			continue
		}
		idx := map[string]int{}
		allInstrs(fn, func(in ssa.Instruction) {
			st, ok := in.(*ssa.Store)
			if !ok {
				return
			}
			fv, _ := fieldOfAddr(st.Addr)
			if fv == nil || (fv.Name() != "Cx" && fv.Name() != "Cy") {
				return
			}
			if _, isC := st.Val.(*ssa.Const); isC {
				return
			}
			n++
			ev := &axisEval{p: p, env: map[*ssa.Parameter]axisDim{}, seen: map[ssa.Value]bool{}}
			d := ev.eval(st.Val)
			want := axisDim{w: 1, known: true}
			if fv.Name() == "Cy" {
				want = axisDim{h: 1, known: true}
			}
			okc := true
			if d.clash != "" {
				okc = false
			} else if d.known && !d.neutral {
				determined++
				okc = d.w == want.w && d.h == want.h
			}
			o := fieldOwner(p, fv)
			on := "?"
			if o != nil {
				on = o.Obj().Name()
			}
			idx[on+"."+fv.Name()]++
			r.Check("axis-dim", fmt.Sprintf("%s:%s.%s#%d", shortName(topLevel(fn)), on, fv.Name(), idx[on+"."+fv.Name()]), st.Pos(), okc,
				fmt.Sprintf("%s stores a %s extent (%s.%s); in picture-axis units the stored value is %s, expected %s%s", shortName(topLevel(fn)),
					map[string]string{"Cx": "horizontal", "Cy": "vertical"}[fv.Name()], on, fv.Name(), d, want,
					map[bool]string{true: "", false: " — a derived dimension is computed with the aspect ratio the wrong way round (or from the wrong axis): for a non-square picture the displayed extent does not follow the pixel aspect ratio"}[okc]))
		})
	}
	r.Min("extent_stores", n, 2)
	r.Min("extent_stores_with_determined_unit", determined, 2)
}

// ---------------------------------------------------------------------------
// R-CHILD-FILTER (C19): a block renderer that takes over the children of a node (it returns
// WalkSkipChildren, so the walker will not visit them) must pass EVERY child on.  goldmark fixes
// the child kind only for a few containers (List → ListItem, Table → header/rows, row → cells);
// the children of a list item, a block quote or the document are arbitrary blocks.  In a loop over
// the children of such a node that hands children to module functions only behind a type test,
// an iteration whose child fails the test reaches the next child without anything having looked at
// it: a paragraph after a nested list, the second paragraph of a loose item, … is lost.
// ---------------------------------------------------------------------------

// siblingLoops: the loops of fn that walk a goldmark child list (child = child.NextSibling()), with
// the loop variable and the node whose children are walked.
type sibLoop struct {
	l     *natLoop
	child *ssa.Phi
	base  ssa.Value
}

func siblingLoops(fn *ssa.Function) []sibLoop {
	var out []sibLoop
	for _, l := range naturalLoops(fn) {
		// the loop variable: a phi in the header fed by x.NextSibling() from inside the loop
		var child *ssa.Phi
		for _, in := range l.Header.Instrs {
			ph, ok := in.(*ssa.Phi)
			if !ok {
				continue
			}
			for _, e := range ph.Edges {
				if c, ok := e.(*ssa.Call); ok && c.Call.IsInvoke() && c.Call.Method.Name() == "NextSibling" && l.Body[c.Block()] {
					child = ph
				}
			}
		}
		if child == nil {
			continue
		}
		// the node whose children are walked
		var base ssa.Value
		for _, e := range child.Edges {
			c, ok := e.(*ssa.Call)
			if !ok || l.Body[c.Block()] {
				continue
			}
			v := ssa.Value(c)
			for i := 0; i < 6; i++ {
				cc, ok := v.(*ssa.Call)
				if !ok {
					break
				}
				if cc.Call.IsInvoke() {
					if cc.Call.Method.Name() != "FirstChild" && cc.Call.Method.Name() != "NextSibling" {
						break
					}
					v = cc.Call.Value
					continue
				}
				// node.FirstChild() on a concrete node type: a static call of the embedded
				// BaseNode's method with the address of the embedded field
				cn := calleeName(cc)
				if (strings.HasSuffix(cn, ").FirstChild") || strings.HasSuffix(cn, ").NextSibling")) && len(cc.Call.Args) > 0 {
					if _, root := addrChain(cc.Call.Args[0]); root != nil {
						v = stripLoads(root)
						continue
					}
				}
				break
			}
			base = v
		}
		if base == nil {
			continue
		}
		for i := 0; i < 4; i++ {
			switch x := base.(type) {
			case *ssa.MakeInterface:
				base = x.X
				continue
			case *ssa.ChangeInterface:
				base = x.X
				continue
			}
			break
		}
		out = append(out, sibLoop{l, child, base})
	}
	return out
}

func ruleChildFilter(r *Run) {
	p := r.P
	hetero := map[string]bool{"ListItem": true, "Blockquote": true, "Document": true}
	n := 0
	for _, fn := range p.ModFuncs() {
		if fn.Pkg == nil || fn.Pkg.Pkg.Path() != pkgMd {
			continue
		}
		for _, sbl := range siblingLoops(fn) {
			l, child, base := sbl.l, sbl.child, sbl.base
			bt := base.Type()
			if pt, ok := bt.(*types.Pointer); ok {
				bt = pt.Elem()
			}
			nt, ok := bt.(*types.Named)
			if !ok || nt.Obj().Pkg() == nil || !strings.Contains(nt.Obj().Pkg().Path(), "goldmark") || !hetero[nt.Obj().Name()] {
				continue
			}
			// values derived from the child: the child itself and its type assertions
			derived := map[ssa.Value]bool{child: true}
			filtered := false
			changed := true
			for changed {
				changed = false
				for b := range l.Body {
					for _, in := range b.Instrs {
						switch x := in.(type) {
						case *ssa.TypeAssert:
							if derived[x.X] && !derived[x] {
								derived[x], changed = true, true
							}
						case *ssa.Extract:
							if derived[x.Tuple] && x.Index == 0 && !derived[x] {
								derived[x], changed = true, true
							}
						case *ssa.MakeInterface:
							if derived[x.X] && !derived[x] {
								derived[x], changed = true, true
							}
						case *ssa.ChangeInterface:
							if derived[x.X] && !derived[x] {
								derived[x], changed = true, true
							}
						}
					}
				}
			}
			cut := map[*ssa.BasicBlock]bool{}
			var first *ssa.Call
			for b := range l.Body {
				for _, in := range b.Instrs {
					c, ok := in.(*ssa.Call)
					if !ok || c.Call.IsInvoke() {
						continue
					}
					cal := staticCallee(c)
					if cal == nil || !p.inModule(cal) {
						continue
					}
					for _, a := range c.Call.Args {
						if derived[a] {
							cut[b] = true
							if first == nil || c.Pos() < first.Pos() {
								first = c
							}
							if a != ssa.Value(child) {
								if _, isIface := a.Type().Underlying().(*types.Interface); !isIface {
									filtered = true
								}
							}
						}
					}
				}
			}
			if len(cut) == 0 || !filtered {
				continue
			}
			n++
			iff, ok := l.Header.Instrs[len(l.Header.Instrs)-1].(*ssa.If)
			if !ok {
				continue
			}
			body := iff.Block().Succs[0]
			if !l.Body[body] {
				body = iff.Block().Succs[1]
			}
			okAll := cut[body] || !reachableBlocks(body, cut)[l.Header]
			r.Check("child-filter", shortName(topLevel(fn))+":"+nt.Obj().Name(), first.Pos(), okAll,
				fmt.Sprintf("%s walks the children of a %s (arbitrary blocks) and hands them on after a type test: %s", shortName(topLevel(fn)), nt.Obj().Name(),
					map[bool]string{true: "every child is handed to some function", false: "a child of any other kind is passed to nothing — its text is neither extracted nor rendered, and since the renderer takes over the children the walker never visits it either"}[okAll]))
		}
	}
	r.Count("filtered_child_loops_over_heterogeneous_containers", n)
}

// ---------------------------------------------------------------------------
// R-SIZED-BY-ROW (C06, C09): a scratch slice sized by the cell count of ONE row is not indexed by
// a counter that runs over the cells of ANOTHER row (or of every row): rows of an opened table,
// and of a table with horizontal merges, differ in length.  For `cols := make([]T, len(t.Rows[0].Cells))`
// an access cols[j] with j bounded by len(t.Rows[i].Cells) needs a dominating j < len(cols).
// ---------------------------------------------------------------------------

func ruleSizedByRow(r *Run) {
	p := r.P
	n := 0
	for _, fn := range p.ModFuncs() {
		if fn.Pkg == nil || fn.Pkg.Pkg.Path() != pkgDoc || fn.Parent() != nil {
			continue
		}
		loops := naturalLoops(fn)
		allInstrs(fn, func(in ssa.Instruction) {
			mk, ok := in.(*ssa.MakeSlice)
			if !ok {
				return
			}
			lc, ok := baseVar(mk.Len).(*ssa.Call)
			if !ok {
				return
			}
			if bi, ok := lc.Call.Value.(*ssa.Builtin); !ok || bi.Name() != "len" {
				return
			}
			da, ok := rowDesignator(p, lc.Call.Args[0], loops)
			if !ok {
				return
			}
			n++
			bad := ""
			var badPos token.Pos
			allInstrs(fn, func(in2 ssa.Instruction) {
				ia, ok := in2.(*ssa.IndexAddr)
				if !ok || stripConv(ia.X) != ssa.Value(mk) {
					return
				}
				ph, ok := baseVar(ia.Index).(*ssa.Phi)
				if !ok {
					return
				}
				// the loop that counts ph: its header compares ph with len(cells of row B)
				if len(ph.Block().Instrs) == 0 {
					return
				}
				iff, ok := ph.Block().Instrs[len(ph.Block().Instrs)-1].(*ssa.If)
				if !ok {
					return
				}
				cmp, ok := iff.Cond.(*ssa.BinOp)
				if !ok || cmp.Op != token.LSS || baseVar(cmp.X) != ssa.Value(ph) {
					return
				}
				lc2, ok := baseVar(cmp.Y).(*ssa.Call)
				if !ok {
					return
				}
				if bi, ok := lc2.Call.Value.(*ssa.Builtin); !ok || bi.Name() != "len" {
					return
				}
				if stripConv(lc2.Call.Args[0]) == ssa.Value(mk) {
					return // counts the scratch slice itself
				}
				db, ok := rowDesignator(p, lc2.Call.Args[0], loops)
				if !ok || db == da {
					return
				}
				// a dominating guard  idx < len(scratch)
				guarded := false
				for _, b := range fn.Blocks {
					if len(b.Instrs) == 0 || len(b.Succs) != 2 || !b.Dominates(ia.Block()) || b == ph.Block() {
						continue
					}
					i2, ok := b.Instrs[len(b.Instrs)-1].(*ssa.If)
					if !ok {
						continue
					}
					c2, ok := i2.Cond.(*ssa.BinOp)
					if !ok {
						continue
					}
					for _, pair := range [][2]ssa.Value{{c2.X, c2.Y}, {c2.Y, c2.X}} {
						if baseVar(pair[0]) != ssa.Value(ph) {
							continue
						}
						if l3, ok := baseVar(pair[1]).(*ssa.Call); ok {
							if bi, ok := l3.Call.Value.(*ssa.Builtin); ok && (bi.Name() == "len" || bi.Name() == "cap") && stripConv(l3.Call.Args[0]) == ssa.Value(mk) {
								guarded = true
							}
						}
					}
				}
				if !guarded {
					bad = fmt.Sprintf("it is indexed at %s by a counter bounded by the cell count of row %s", p.pos(ia.Pos()), stableDesignator(db))
					badPos = ia.Pos()
				}
			})
			pos := mk.Pos()
			if bad != "" {
				pos = badPos
			}
			r.Check("sized-by-row", fmt.Sprintf("%s:make[%s]", shortName(fn), stableDesignator(da)), pos, bad == "",
				fmt.Sprintf("%s allocates a slice with one element per cell of row %s: %s", shortName(fn), stableDesignator(da),
					map[bool]string{true: "it is not indexed by a counter over another row's cells", false: bad + " — rows differ in length (opened tables, horizontal merges), so the access can be out of range: a panic instead of an error"}[bad == ""]))
		})
	}
	r.Count("slices_sized_by_a_row", n)
}

// ---------------------------------------------------------------------------
// R-ROW-FOREIGN-COUNTER (C06): the mirror image of sized-by-row on the Open path.  The cells of one
// designated row (t.Rows[0].Cells) indexed by a loop counter that is bounded by something other than
// that row's own cell count (another row's, the widest row's, a grid built from either) needs a
// dominating comparison of the counter with len(that row's cells): rows of an opened table differ in
// length, and an out-of-range index is a panic inside Open instead of an error.
// ---------------------------------------------------------------------------

func ruleRowForeignCounter(r *Run) {
	p := r.P
	root := r.mustFunc(pkgDoc, "openFromZipReader")
	if root == nil {
		return
	}
	n := 0
	lenArg := func(v ssa.Value) (ssa.Value, bool) {
		lc, ok := baseVar(v).(*ssa.Call)
		if !ok {
			return nil, false
		}
		if bi, ok := lc.Call.Value.(*ssa.Builtin); !ok || bi.Name() != "len" {
			return nil, false
		}
		return lc.Call.Args[0], true
	}
	for _, fn := range sortedFuncs(p.cgReach(root)) {
		if !p.inModule(fn) || len(fn.Blocks) == 0 {
			continue
		}
		loops := naturalLoops(fn)
		idx := 0
		allInstrs(fn, func(in ssa.Instruction) {
			ia, ok := in.(*ssa.IndexAddr)
			if !ok {
				return
			}
			da, ok := rowDesignator(p, ia.X, loops)
			if !ok {
				return
			}
			ph, ok := baseVar(ia.Index).(*ssa.Phi)
			if !ok || len(ph.Block().Instrs) == 0 {
				return
			}
			isHeader := false
			for _, l := range loops {
				if l.Header == ph.Block() {
					isHeader = true
				}
			}
			iff, ok := ph.Block().Instrs[len(ph.Block().Instrs)-1].(*ssa.If)
			if !isHeader || !ok {
				return
			}
			cmp, ok := iff.Cond.(*ssa.BinOp)
			if !ok || cmp.Op != token.LSS || baseVar(cmp.X) != ssa.Value(ph) {
				return
			}
			n++
			idx++
			own := false
			if a, ok := lenArg(cmp.Y); ok {
				if db, ok := rowDesignator(p, a, loops); ok && db == da {
					own = true
				}
			}
			guarded := own
			if !guarded {
				for _, b := range fn.Blocks {
					if len(b.Instrs) == 0 || len(b.Succs) != 2 || !b.Dominates(ia.Block()) || b == ph.Block() {
						continue
					}
					i2, ok := b.Instrs[len(b.Instrs)-1].(*ssa.If)
					if !ok {
						continue
					}
					c2, ok := i2.Cond.(*ssa.BinOp)
					if !ok {
						continue
					}
					for _, pair := range [][2]ssa.Value{{c2.X, c2.Y}, {c2.Y, c2.X}} {
						if baseVar(pair[0]) != ssa.Value(ph) {
							continue
						}
						if a, ok := lenArg(pair[1]); ok {
							if db, ok := rowDesignator(p, a, loops); ok && db == da {
								guarded = true
							}
						}
					}
				}
			}
			r.Check("row-foreign-counter", fmt.Sprintf("%s:cells[%s]#%d", shortName(topLevel(fn)), stableDesignator(da), idx), ia.Pos(), guarded,
				fmt.Sprintf("%s (on the Open path) indexes the cells of row %s with a loop counter: %s", shortName(topLevel(fn)), stableDesignator(da),
					map[bool]string{true: "the counter is bounded by that row's own cell count", false: "the counter is bounded by something other than that row's cell count and no dominating comparison with it exists — rows of an opened table differ in length (merged cells), so the access can be out of range: Open panics instead of returning an error or a document"}[guarded]))
		})
	}
	r.Count("row_cells_indexed_by_loop_counter_on_open_path", n)
}

// ---------------------------------------------------------------------------
// R-STALE-PART (C05): one save pass regenerates the derived parts one after the other from the model.
// A step that runs AFTER the step which serialised model field X must not write X: the part written
// by this pass would be the stale one, the next pass writes a different one — Save followed by
// ToBytes (or two saves) disagree about the same document.  Steps: the calls of Save/ToBytes on the
// document receiver, in source order; X: first-level fields of Document (the part map excluded).
// ---------------------------------------------------------------------------

func ruleStalePart(r *Run) {
	p := r.P
	nPairs := 0
	docField := func(chain []*types.Var) *types.Var {
		if len(chain) == 0 || chain[0] == nil {
			return nil
		}
		for _, nm := range []string{"parts"} {
			if fieldIs(p, chain[0], pkgDoc, "Document", nm) {
				return nil
			}
		}
		if ownerNameOf(p, chain[0]) != "Document" {
			return nil
		}
		return chain[0]
	}
	type rw struct {
		reads, writes map[*types.Var]token.Pos
	}
	cache := map[*ssa.Function]*rw{}
	summary := func(cal *ssa.Function) *rw {
		if s, ok := cache[cal]; ok {
			return s
		}
		s := &rw{map[*types.Var]token.Pos{}, map[*types.Var]token.Pos{}}
		cache[cal] = s
		for _, g := range sortedFuncs(p.staticReach(cal)) {
			if !p.inModule(g) {
				continue
			}
			allInstrs(g, func(in ssa.Instruction) {
				switch x := in.(type) {
				case *ssa.Store:
					ch, _ := addrChain(x.Addr)
					if f := docField(ch); f != nil {
						if _, ok := s.writes[f]; !ok {
							s.writes[f] = x.Pos()
						}
					}
				case *ssa.MapUpdate:
					ch, _ := addrChain(x.Map)
					if f := docField(ch); f != nil {
						if _, ok := s.writes[f]; !ok {
							s.writes[f] = x.Pos()
						}
					}
				case *ssa.UnOp:
					if x.Op != token.MUL {
						return
					}
					ch, _ := addrChain(x.X)
					if f := docField(ch); f != nil {
						if _, ok := s.reads[f]; !ok {
							s.reads[f] = x.Pos()
						}
					}
				}
			})
		}
		return s
	}
	partProducing := map[*ssa.Function]bool{}
	producesPart := func(cal *ssa.Function) bool {
		if v, ok := partProducing[cal]; ok {
			return v
		}
		res := false
		fs := p.staticReach(cal)
		fs[cal] = true
		for g := range fs {
			if !p.inModule(g) || res {
				continue
			}
			allInstrs(g, func(in ssa.Instruction) {
				if mu, ok := in.(*ssa.MapUpdate); ok {
					if ch, _ := addrChain(mu.Map); len(ch) > 0 && fieldIs(p, ch[len(ch)-1], pkgDoc, "Document", "parts") {
						res = true
					}
				}
			})
		}
		partProducing[cal] = res
		return res
	}
	// the functions in which steps are sequenced: the two entry points and every *Document method
	// they reach (a refactoring may move the sequence into a shared helper)
	hosts := map[*ssa.Function]bool{}
	for _, rootName := range []string{"(*Document).Save", "(*Document).ToBytes"} {
		root := r.mustFunc(pkgDoc, rootName)
		if root == nil {
			continue
		}
		hosts[root] = true
		for g := range p.staticReach(root) {
			if p.inModule(g) && len(g.Blocks) > 0 && g.Signature.Recv() != nil && len(g.Params) > 0 {
				if pt, ok := g.Params[0].Type().Underlying().(*types.Pointer); ok && typeIs(pt.Elem(), pkgDoc, "Document") {
					hosts[g] = true
				}
			}
		}
	}
	for _, root := range sortedFuncs(hosts) {
		type step struct {
			pos token.Pos
			cal *ssa.Function
		}
		var steps []step
		allInstrs(root, func(in ssa.Instruction) {
			c, ok := in.(*ssa.Call)
			if !ok {
				return
			}
			cal := staticCallee(c)
			if cal == nil || !p.inModule(cal) || len(c.Call.Args) == 0 || len(root.Params) == 0 || stripLoads(c.Call.Args[0]) != ssa.Value(root.Params[0]) {
				return
			}
			steps = append(steps, step{c.Pos(), cal})
		})
		sort.Slice(steps, func(i, j int) bool { return steps[i].pos < steps[j].pos })
		for i, a := range steps {
			if !producesPart(a.cal) {
				continue
			}
			ra := summary(a.cal)
			for _, b := range steps[i+1:] {
				if b.cal == a.cal {
					continue
				}
				wb := summary(b.cal)
				nPairs++
				bad, badPos := "", token.NoPos
				var names []string
				for f := range wb.writes {
					if _, ok := ra.reads[f]; ok {
						// a field the earlier step also writes itself (lazily created registries) is
						// brought up to date by that step: only fields it merely reads can be stale
						if _, own := ra.writes[f]; own {
							continue
						}
						names = append(names, f.Name())
						badPos = wb.writes[f]
					}
				}
				sort.Strings(names)
				if len(names) > 0 {
					bad = strings.Join(names, ", ")
				}
				pos := b.pos
				if bad != "" {
					pos = badPos
				}
				r.Check("stale-part", fmt.Sprintf("%s:%s→%s", shortName(root), shortName(a.cal), shortName(b.cal)), pos, bad == "",
					fmt.Sprintf("in %s, %s runs after %s has serialised its part: %s", shortName(root), shortName(b.cal), shortName(a.cal),
						map[bool]string{true: "it writes no model field that step reads", false: "it writes Document." + bad + " (" + p.pos(badPos) + "), which " + shortName(a.cal) + " had already read — the part written by this pass is stale and the next pass writes a different one: two serialisations of the same document disagree"}[bad == ""]))
			}
		}
	}
	r.Min("ordered_serialise_step_pairs", nPairs, 3)
}

// ---------------------------------------------------------------------------
// R-SOURCE-WHOLE (C19): the Markdown parser is handed the caller's text.  Walking back from the
// argument of text.NewReader in the converter: the content parameter, possibly through library
// calls and module helpers — but never through a sub-slice that starts at a COMPUTED position
// (content[n:] with n found by searching the text).  What lies before such a position is dropped
// before the parser sees it; a first line that looks like a delimiter is ordinary Markdown too.
// A constant offset (a byte-order mark) is accepted.
// ---------------------------------------------------------------------------

func ruleSourceWhole(r *Run) {
	p := r.P
	n := 0
	for _, fn := range p.ModFuncs() {
		if fn.Pkg == nil || fn.Pkg.Pkg.Path() != pkgMd || len(fn.Blocks) == 0 {
			continue
		}
		allInstrs(fn, func(in ssa.Instruction) {
			c, ok := in.(*ssa.Call)
			if !ok || calleeName(c) != "github.com/yuin/goldmark/text.NewReader" {
				return
			}
			n++
			seen := map[ssa.Value]bool{}
			bad := token.NoPos
			var badFn *ssa.Function
			var visit func(v ssa.Value, depth int)
			visit = func(v ssa.Value, depth int) {
				if v == nil || seen[v] || depth > 12 || bad != token.NoPos {
					return
				}
				seen[v] = true
				switch x := v.(type) {
				case *ssa.Phi:
					for _, e := range x.Edges {
						visit(e, depth+1)
					}
				case *ssa.Slice:
					if x.Low != nil {
						if _, isConst := constInt(x.Low); !isConst {
							bad, badFn = x.Pos(), x.Parent()
							return
						}
					}
					visit(x.X, depth+1)
				case *ssa.ChangeType:
					visit(x.X, depth+1)
				case *ssa.Convert:
					visit(x.X, depth+1)
				case *ssa.Extract:
					if cc, ok := x.Tuple.(*ssa.Call); ok {
						if cal := staticCallee(cc); cal != nil && p.inModule(cal) && len(cal.Blocks) > 0 {
							for _, ret := range returnsOf(cal) {
								if x.Index < len(ret.Results) {
									visit(retResult(ret, x.Index), depth+1)
								}
							}
						}
						for _, a := range cc.Call.Args {
							visit(a, depth+1)
						}
					}
				case *ssa.Call:
					if cal := staticCallee(x); cal != nil && p.inModule(cal) && len(cal.Blocks) > 0 {
						for _, ret := range returnsOf(cal) {
							if len(ret.Results) > 0 {
								visit(retResult(ret, 0), depth+1)
							}
						}
					}
					for _, a := range x.Call.Args {
						if _, isSlice := a.Type().Underlying().(*types.Slice); isSlice {
							visit(a, depth+1)
						}
					}
				}
			}
			visit(c.Call.Args[0], 0)
			okc := bad == token.NoPos
			pos := c.Pos()
			where := ""
			if !okc {
				pos = bad
				where = fmt.Sprintf("%s (%s)", p.pos(bad), shortName(badFn))
			}
			r.Check("source-whole", shortName(topLevel(fn))+":text.NewReader", pos, okc,
				fmt.Sprintf("the text %s hands the Markdown parser: %s", shortName(topLevel(fn)), map[bool]string{true: "the caller's bytes, never cut at a computed position", false: "comes through a sub-slice starting at a computed position at " + where + " — whatever precedes that position (headings, paragraphs, lists between two '---' lines…) is dropped before parsing: the document lacks text the source has"}[okc]))
		})
	}
	r.Min("parser_inputs", n, 1)
}

// ---------------------------------------------------------------------------
// R-SLAB-WINDOW (C09): a slice carved out of a slab that is consumed piecewise in a loop
// (w := slab[:n]; slab = slab[n:]) and kept in the model must be cut with its capacity
// (slab[:n:n]).  Without it every window's spare capacity is the next window's storage: an append
// to one row of a copied table (InsertColumn, AppendColumn) overwrites the first cell of the next
// row instead of reallocating.
// ---------------------------------------------------------------------------

func ruleSlabWindow(r *Run) {
	p := r.P
	n, nSlices := 0, 0
	for _, fn := range p.ModFuncs() {
		if fn.Pkg == nil || fn.Pkg.Pkg.Path() != pkgDoc || len(fn.Blocks) == 0 {
			continue
		}
		loops := naturalLoops(fn)
		inLoopHeader := func(b *ssa.BasicBlock) bool {
			for _, l := range loops {
				if l.Header == b {
					return true
				}
			}
			return false
		}
		allInstrs(fn, func(in ssa.Instruction) {
			sl, ok := in.(*ssa.Slice)
			if !ok {
				return
			}
			if _, isSlice := sl.X.Type().Underlying().(*types.Slice); !isSlice {
				return
			}
			nSlices++
			if sl.High == nil || sl.Max != nil {
				return
			}
			// the operand is a loop-carried remainder of a slab made in this function
			ph, ok := sl.X.(*ssa.Phi)
			if !ok || !inLoopHeader(ph.Block()) {
				return
			}
			fromMake, advanced := false, false
			for _, e := range ph.Edges {
				switch x := e.(type) {
				case *ssa.MakeSlice:
					fromMake = true
				case *ssa.Slice:
					if x.X == ssa.Value(ph) && x.Low != nil {
						advanced = true
					}
				}
			}
			if !fromMake || !advanced {
				return
			}
			// kept in the model: stored into a struct field (directly or as part of a composite)
			kept := false
			if refs := sl.Referrers(); refs != nil {
				for _, u := range *refs {
					if st, ok := u.(*ssa.Store); ok && st.Val == ssa.Value(sl) {
						if _, isFA := st.Addr.(*ssa.FieldAddr); isFA {
							kept = true
						}
					}
				}
			}
			if !kept {
				return
			}
			n++
			r.Check("slab-window", fmt.Sprintf("%s:window#%d", shortName(fn), n), sl.Pos(), false,
				fmt.Sprintf("%s keeps slab[:n] windows of one allocation in the model without limiting their capacity (slab[:n:n]): growing one window in place (append to a row's cells) overwrites the beginning of the next — cells the caller did not touch change", shortName(fn)))
		})
	}
	r.Count("uncapped_slab_windows", n)
	r.Min("slice_expressions_examined", nSlices, 10)
}

// ---------------------------------------------------------------------------
// R-SINGLE-PASS (C18): on the document-template path a model object (table, row, cell, paragraph —
// not the whole document or body, whose steps work on different sub-objects) is handed together with the template data to ONE substituting step per path.  Two such calls in
// sequence on the same object mean the second scans text the first has already produced: a
// supplied value that itself contains {{…}} is substituted again, so the output no longer shows
// the value that was supplied.
// ---------------------------------------------------------------------------

func ruleSinglePass(r *Run) {
	p := r.P
	n := 0
	isModelPtr := func(t types.Type) bool {
		pt, ok := t.Underlying().(*types.Pointer)
		if !ok {
			return false
		}
		for _, nm := range []string{"Table", "Paragraph", "TableCell", "TableRow"} {
			if typeIs(pt.Elem(), pkgDoc, nm) {
				return true
			}
		}
		return false
	}
	isData := func(t types.Type) bool {
		pt, ok := t.Underlying().(*types.Pointer)
		return ok && typeIs(pt.Elem(), pkgDoc, "TemplateData")
	}
	for _, fn := range p.ModFuncs() {
		if fn.Pkg == nil || fn.Pkg.Pkg.Path() != pkgDoc || len(fn.Blocks) == 0 {
			continue
		}
		type site struct {
			c    *ssa.Call
			obj  ssa.Value
			data ssa.Value
		}
		var sites []site
		allInstrs(fn, func(in ssa.Instruction) {
			c, ok := in.(*ssa.Call)
			if !ok {
				return
			}
			cal := staticCallee(c)
			if cal == nil || !p.inModule(cal) {
				return
			}
			var obj, data ssa.Value
			for _, a := range c.Call.Args {
				if isData(a.Type()) {
					data = a
				} else if isModelPtr(a.Type()) && obj == nil {
					if _, isRecv := a.Type().Underlying().(*types.Pointer); isRecv && cal.Signature.Recv() != nil && len(c.Call.Args) > 0 && a == c.Call.Args[0] {
						continue
					}
					obj = a
				}
			}
			if obj != nil && data != nil {
				sites = append(sites, site{c, obj, data})
			}
		})
		if len(sites) > 0 {
			n++
		}
		for i, a := range sites {
			for j, b := range sites {
				if i == j || a.obj != b.obj || a.data != b.data {
					continue
				}
				// a strictly before b on some path
				before := false
				if a.c.Block() == b.c.Block() {
					before = instrIndex(a.c) < instrIndex(b.c)
				} else {
					before = reachableBlocks(a.c.Block(), nil)[b.c.Block()] && !(naturalLoopContains(fn, a.c.Block(), b.c.Block()))
				}
				if !before {
					continue
				}
				r.Check("single-pass", fmt.Sprintf("%s:%s→%s", shortName(fn), shortName(staticCallee(a.c)), shortName(staticCallee(b.c))), b.c.Pos(), false,
					fmt.Sprintf("%s hands the same object and the same template data first to %s and then to %s: the second step scans what the first has produced — a supplied value containing {{…}} (or {{#if}}) is substituted a second time", shortName(fn), shortName(staticCallee(a.c)), shortName(staticCallee(b.c))))
			}
		}
	}
	r.Min("functions_passing_model_object_with_data", n, 2)
}

// naturalLoopContains: a and b lie in one natural loop of fn (then "a reaches b" holds trivially
// through the back edge and says nothing about one pass).
func naturalLoopContains(fn *ssa.Function, a, b *ssa.BasicBlock) bool {
	for _, l := range naturalLoops(fn) {
		if l.Body[a] && l.Body[b] {
			return true
		}
	}
	return false
}

// ---------------------------------------------------------------------------
// R-LOAD-PARSES (C16, C17): what a template renders is a function of the templates loaded, in the
// order they were loaded.  Every successful return of LoadTemplate passes through the parse step
// (the function that links a template to its parent): a cached object handed back without it keeps
// the parent link of an earlier load — a base template replaced since, or loaded after the child,
// is not seen.
// ---------------------------------------------------------------------------

func ruleLoadParses(r *Run) {
	p := r.P
	n := 0
	for _, name := range []string{"(*TemplateEngine).LoadTemplate", "(*TemplateEngine).LoadTemplateFromDocument"} {
		fn := r.mustFunc(pkgDoc, name)
		if fn == nil {
			continue
		}
		// the parse step: a module callee (directly or through helpers, on every path) that can store Template.Parent
		linksParent := func(g *ssa.Function) bool {
			found := false
			for h := range p.staticReach(g) {
				allInstrs(h, func(in ssa.Instruction) {
					if st, ok := in.(*ssa.Store); ok {
						if fv, _ := fieldOfAddr(st.Addr); fieldIs(p, fv, pkgDoc, "Template", "Parent") {
							found = true
						}
					}
				})
			}
			return found
		}
		var parses []ssa.Instruction
		allInstrs(fn, func(in ssa.Instruction) {
			if c, ok := in.(*ssa.Call); ok {
				if cal := staticCallee(c); cal != nil && p.inModule(cal) && linksParent(cal) {
					parses = append(parses, c)
				}
			}
		})
		n++
		okAll := len(parses) > 0
		var badPos token.Pos = fn.Pos()
		ei := errorResultIndex(fn.Signature)
		for _, ret := range returnsOf(fn) {
			if ei >= 0 && ei < len(ret.Results) && !isNilConst(retResult(ret, ei)) {
				continue
			}
			if !mustPassThrough(fn, ret, parses) {
				okAll = false
				badPos = ret.Pos()
			}
		}
		r.Check("load-parses", shortName(fn), badPos, okAll,
			fmt.Sprintf("%s: %s", shortName(fn), map[bool]string{true: "every successful return has parsed the template (and resolved its parent against the templates loaded now)", false: "a successful return does not pass the parse step — a template object from an earlier load is handed back with the parent link it had then; a base template loaded or replaced since is ignored, so the rendering depends on more than the templates as loaded"}[okAll]))
	}
	r.Min("template_load_entry_points", n, 2)
}

// ---------------------------------------------------------------------------
// R-LINE-VERBATIM (C16): text outside directives is copied unchanged.  The run text created for a
// rendered line is the line: no trimming function lies on the data path from the rendered content
// to a Text.Content store in the function that turns rendered text into paragraphs (a trim used
// only to TEST for a blank line is a condition, not data).
// ---------------------------------------------------------------------------

func ruleLineVerbatim(r *Run) {
	p := r.P
	anchor := r.mustFunc(pkgDoc, "(*TemplateEngine).applyRenderedContentToDocument")
	if anchor == nil {
		return
	}
	sl := newSlicer(p)
	sl.dataOnly = true
	n := 0
	for _, fn := range helperGroup(p, anchor) {
		allInstrs(fn, func(in ssa.Instruction) {
			st, ok := in.(*ssa.Store)
			if !ok {
				return
			}
			fv, _ := fieldOfAddr(st.Addr)
			if !fieldIs(p, fv, pkgDoc, "Text", "Content") {
				return
			}
			if _, isC := st.Val.(*ssa.Const); isC {
				return
			}
			n++
			bad := ""
			var scan func(v ssa.Value, depth int)
			scan = func(v ssa.Value, depth int) {
				for x := range sl.Slice(v).Vals {
					if c, ok := x.(*ssa.Call); ok {
						switch cn := calleeName(c); cn {
						case "strings.TrimSpace", "strings.TrimRight", "strings.TrimLeft", "strings.Trim", "strings.TrimSuffix", "strings.TrimPrefix", "strings.TrimFunc", "strings.TrimRightFunc", "strings.TrimLeftFunc", "strings.Fields", "strings.ToLower", "strings.ToUpper", "strings.ReplaceAll", "strings.Replace":
							bad = cn + " at " + p.pos(c.Pos())
						}
					}
					// the text comes in as a parameter of a helper: what the callers hand over
					if par, ok := x.(*ssa.Parameter); ok && depth < 2 && isStringType(par.Type()) {
						h := par.Parent()
						if h != nil && h != anchor && (h.Object() == nil || !h.Object().Exported()) {
							pi := paramIndex(h, par)
							for _, cs := range staticCallSites(p, h) {
								if pi >= 0 && pi < len(cs.Common().Args) {
									scan(cs.Common().Args[pi], depth+1)
								}
							}
						}
					}
				}
			}
			scan(st.Val, 0)
			r.Check("line-verbatim", fmt.Sprintf("%s#%d", shortName(topLevel(fn)), n), st.Pos(), bad == "",
				fmt.Sprintf("%s stores the text of a rendered line into a run: %s", shortName(topLevel(fn)), map[bool]string{true: "the line as rendered", false: "after " + bad + " — trailing or leading blanks that were literal template text or part of a value are dropped, so the paragraph text is not the rendered line"}[bad == ""]))
		})
	}
	r.Min("rendered_line_text_stores", n, 1)
}

// ---------------------------------------------------------------------------
// R-REGISTRY-ENTRY-IMMUTABLE (C13, C15): an abstract numbering definition that is in the registry
// is shared by every list item that was given it (and by every later request with the same memo
// key).  Nothing stores through an object reached from an entry of NumberingManager.abstractNums
// — directly, or through the pointers inside a by-value copy of an entry (`c := *entry` shares its
// *Level values).  A new definition is built from fresh objects.
// ---------------------------------------------------------------------------

func ruleRegistryEntryImmutable(r *Run) {
	p := r.P
	n := 0
	isRegistry := func(v ssa.Value) bool {
		fv, _ := fieldOfAddr(stripLoadsAddr(v))
		return fieldIs(p, fv, pkgDoc, "NumberingManager", "abstractNums")
	}
	for _, fn := range p.ModFuncs() {
		if fn.Pkg == nil || fn.Pkg.Pkg.Path() != pkgDoc {
			continue
		}
		derived := map[ssa.Value]bool{}
		allInstrs(fn, func(in ssa.Instruction) {
			switch x := in.(type) {
			case *ssa.Lookup:
				if isRegistry(x.X) {
					derived[x] = true
				}
			case *ssa.Range:
				if isRegistry(x.X) {
					derived[x] = true
				}
			}
		})
		if len(derived) == 0 {
			continue
		}
		n++
		localCopies := map[*ssa.Alloc]bool{}
		for changed := true; changed; {
			changed = false
			allInstrs(fn, func(in ssa.Instruction) {
				if st, ok := in.(*ssa.Store); ok && derived[st.Val] {
					if al, ok := st.Addr.(*ssa.Alloc); ok && !derived[al] {
						// a by-value copy (or the pointer itself) kept in a local variable
						derived[al], localCopies[al] = true, true
						changed = true
					}
				}
				v, ok := in.(ssa.Value)
				if !ok || derived[v] {
					return
				}
				switch x := in.(type) {
				case *ssa.Next, *ssa.Extract, *ssa.UnOp, *ssa.FieldAddr, *ssa.Field, *ssa.IndexAddr, *ssa.Index, *ssa.Phi, *ssa.Slice:
					for _, op := range x.Operands(nil) {
						if *op != nil && derived[*op] {
							derived[v] = true
							changed = true
							return
						}
					}
				}
			})
		}
		var bad *ssa.Store
		allInstrs(fn, func(in ssa.Instruction) {
			st, ok := in.(*ssa.Store)
			if !ok || !derived[st.Addr] {
				return
			}
			// a store into the local variable itself (its own struct fields) changes the copy only;
			// a store through a pointer that came out of the entry changes the entry
			a := st.Addr
			through := false
			for i := 0; i < 12; i++ {
				switch x := a.(type) {
				case *ssa.FieldAddr:
					a = x.X
					continue
				case *ssa.IndexAddr:
					a = x.X
					continue
				case *ssa.UnOp:
					if x.Op == token.MUL {
						through = true // a loaded pointer / slice on the way
						a = x.X
						continue
					}
				case *ssa.Extract, *ssa.Lookup, *ssa.Next, *ssa.Phi:
					through = true
				}
				break
			}
			if al, ok := a.(*ssa.Alloc); ok && localCopies[al] && !through {
				return
			}
			if _, isAlloc := st.Addr.(*ssa.Alloc); isAlloc {
				return
			}
			bad = st
		})
		pos := fn.Pos()
		if bad != nil {
			pos = bad.Pos()
		}
		r.Check("registry-entry-immutable", shortName(topLevel(fn)), pos, bad == nil,
			fmt.Sprintf("%s reads definitions out of the numbering registry: %s", shortName(topLevel(fn)),
				map[bool]string{true: "it stores through none of them", false: "it stores through an object reached from a registered definition (a struct copy shares the *Level values) — every list that was given this definition, and every later request with the same key, changes with it"}[bad == nil]))
	}
	r.Min("functions_reading_the_numbering_registry", n, 2)
}

// ---------------------------------------------------------------------------
// R-AUTOLINK-LABEL (C19): the visible text of an auto-link is its label — the characters that
// stand in the source.  (*ast.AutoLink).URL synthesises a scheme for bare www./e-mail addresses
// ("www.example.net" → "http://www.example.net"); its result must not become run text, extracted
// text, or the result of a text helper.
// ---------------------------------------------------------------------------

func ruleAutoLinkLabel(r *Run) {
	p := r.P
	n, labels := 0, 0
	for _, fn := range p.ModFuncs() {
		if fn.Pkg == nil || fn.Pkg.Pkg.Path() != pkgMd {
			continue
		}
		allInstrs(fn, func(in ssa.Instruction) {
			c, ok := in.(*ssa.Call)
			if !ok {
				return
			}
			cn := calleeName(c)
			if strings.HasSuffix(cn, "goldmark/ast.AutoLink).Label") {
				labels++
			}
			if !strings.HasSuffix(cn, "goldmark/ast.AutoLink).URL") {
				return
			}
			n++
			bad := ""
			for use := range forwardFlow(c, nil) {
				switch u := use.(type) {
				case *ssa.Return:
					if len(u.Results) > 0 && (isStringType(u.Results[0].Type()) || u.Results[0].Type().String() == "[]byte") {
						bad = "it is returned as text at " + p.pos(u.Pos())
					}
				case *ssa.Call:
					ucn := calleeName(u)
					switch {
					case strings.Contains(ucn, ").AddFormattedText") || strings.Contains(ucn, ").AddParagraph") || strings.Contains(ucn, ").AddText"):
						bad = "it becomes run text at " + p.pos(u.Pos())
					case strings.HasSuffix(ucn, ").Write") || strings.HasSuffix(ucn, ").WriteString"):
						bad = "it is written into extracted text at " + p.pos(u.Pos())
					}
				}
			}
			r.Check("autolink-label", fmt.Sprintf("%s#%d", shortName(topLevel(fn)), n), c.Pos(), bad == "",
				fmt.Sprintf("%s calls AutoLink.URL: %s", shortName(topLevel(fn)), map[bool]string{true: "the result is used as a link target only", false: bad + " — for a bare www. or e-mail address the URL carries a scheme that is not in the source, so the document shows text the Markdown does not contain"}[bad == ""]))
		})
	}
	r.Count("autolink_url_calls", n)
	r.Count("autolink_label_uses", labels)
}

// ---------------------------------------------------------------------------
// R-INLINE-LEAVES (C19, C20): an inline walker — a loop over the children of a node that can hold
// arbitrary inline content, with a case for *ast.Text — also has cases for the two other inline
// kinds whose text sits in the node itself: *ast.AutoLink and *ast.String.  Delegating such a
// child to a function that only looks at the child's CHILDREN yields nothing for them: a bare URL
// or an e-mail address inside the span disappears.  Containers whose children are text only by
// goldmark's construction (code spans, math nodes, tables/lists handled elsewhere) are not inline
// containers.  One named exemption: renderTaskItemContent, which goldmark never reaches (it puts
// the TaskCheckBox inside the item's TextBlock, while renderListItem looks for it among the direct
// children) — confirmed by reading and by an independent reviewer; it is dead code, not a walker.
// ---------------------------------------------------------------------------

var inlineContainers = map[string]bool{"Node": true, "Emphasis": true, "Link": true, "Paragraph": true, "TextBlock": true, "Heading": true, "Strikethrough": true, "TableCell": true, "Image": true}

var inlineLeavesExempt = map[string]string{
	"(*WordRenderer).renderTaskItemContent": "unreachable: goldmark never makes renderListItem's TaskCheckBox test true",
}

func ruleInlineLeaves(r *Run) {
	p := r.P
	n := 0
	for _, fn := range p.ModFuncs() {
		if fn.Pkg == nil || fn.Pkg.Pkg.Path() != pkgMd {
			continue
		}
		top := topLevel(fn)
		exempt := false
		for k := range inlineLeavesExempt {
			if strings.HasSuffix(fullName(top), strings.TrimPrefix(k, "(*WordRenderer)")) && strings.Contains(fullName(top), "WordRenderer") {
				exempt = true
			}
		}
		if exempt {
			continue
		}
		for _, sbl := range siblingLoops(fn) {
			base := sbl.base
			for i := 0; i < 4; i++ {
				switch x := base.(type) {
				case *ssa.MakeInterface:
					base = x.X
					continue
				case *ssa.ChangeInterface:
					base = x.X
					continue
				}
				break
			}
			bt := base.Type()
			if pt, ok := bt.(*types.Pointer); ok {
				bt = pt.Elem()
			}
			nt, ok := bt.(*types.Named)
			if !ok || nt.Obj().Pkg() == nil || !strings.Contains(nt.Obj().Pkg().Path(), "goldmark") || !inlineContainers[nt.Obj().Name()] {
				continue
			}
			kinds := map[string]bool{}
			textUsed := false
			// the per-kind code may live in helpers the loop hands the child to
			// (renderCommonInline(child, …) with the type switch inside): their type tests on the
			// parameter that receives the child count as the loop's
			var helperKinds func(h *ssa.Function, par ssa.Value, depth int)
			helperKinds = func(h *ssa.Function, par ssa.Value, depth int) {
				if depth > 2 || len(h.Blocks) == 0 {
					return
				}
				allInstrs(h, func(in ssa.Instruction) {
					switch x := in.(type) {
					case *ssa.TypeAssert:
						if x.X != par {
							return
						}
						at := x.AssertedType
						if pt, ok := at.(*types.Pointer); ok {
							at = pt.Elem()
						}
						if an, ok := at.(*types.Named); ok && an.Obj().Pkg() != nil && strings.Contains(an.Obj().Pkg().Path(), "goldmark") {
							kinds[an.Obj().Name()] = true
							if an.Obj().Name() == "Text" {
								textUsed = true
							}
						}
					case *ssa.Call:
						if cal := staticCallee(x); cal != nil && p.inModule(cal) && cal != h {
							for ai, a := range x.Call.Args {
								if a == par && ai < len(cal.Params) {
									helperKinds(cal, cal.Params[ai], depth+1)
								}
							}
						}
					}
				})
			}
			for b := range sbl.l.Body {
				for _, in := range b.Instrs {
					if c, ok := in.(*ssa.Call); ok {
						if cal := staticCallee(c); cal != nil && p.inModule(cal) {
							for ai, a := range c.Call.Args {
								if a == ssa.Value(sbl.child) && ai < len(cal.Params) {
									helperKinds(cal, cal.Params[ai], 0)
								}
							}
						}
					}
					ta, ok := in.(*ssa.TypeAssert)
					if !ok {
						continue
					}
					at := ta.AssertedType
					if pt, ok := at.(*types.Pointer); ok {
						at = pt.Elem()
					}
					if an, ok := at.(*types.Named); ok && an.Obj().Pkg() != nil && strings.Contains(an.Obj().Pkg().Path(), "goldmark") {
						kinds[an.Obj().Name()] = true
						if an.Obj().Name() == "Text" && ta.Referrers() != nil && len(*ta.Referrers()) > 0 {
							textUsed = true
						}
					}
				}
			}
			if !kinds["Text"] || !textUsed {
				continue
			}
			// a walker over a node of unknown kind is an inline walker only if it evidently deals with
			// general inline content (it has a case for emphasis or links); a loop that picks the raw
			// text segments out of a special node (math, code) is not
			if nt.Obj().Name() == "Node" && !kinds["Emphasis"] && !kinds["Link"] {
				continue
			}
			n++
			var missing []string
			for _, k := range []string{"AutoLink", "String"} {
				if !kinds[k] {
					missing = append(missing, "*ast."+k)
				}
			}
			r.Check("inline-leaves", fmt.Sprintf("%s:%s", shortName(top), nt.Obj().Name()), sbl.child.Pos(), len(missing) == 0,
				fmt.Sprintf("%s walks the inline children of a %s and handles *ast.Text: %s", shortName(top), nt.Obj().Name(),
					map[bool]string{true: "it also handles the other kinds whose text is in the node itself", false: "it has no case for " + strings.Join(missing, ", ") + " — such a child has no children to descend into, so its text (a bare URL, an e-mail address, a typographic replacement) is lost"}[len(missing) == 0]))
		}
	}
	r.Count("inline_walkers", n)
}

// ---------------------------------------------------------------------------
// R-STYLE-REGISTRY-KEEPS (C13): registering a style never removes another one.  A delete on
// StyleManager.styles is an explicit removal asked for by the caller: the key deleted is a
// parameter of an exported removal function (RemoveStyle(id)).  A delete whose key is computed
// (another entry found by name, by type, …) inside a function that also ADDS to the registry takes
// away a definition the body may already refer to.
// ---------------------------------------------------------------------------

func ruleStyleRegistryKeeps(r *Run) {
	p := r.P
	n := 0
	for _, fn := range p.ModFuncs() {
		if fn.Pkg == nil || fn.Pkg.Pkg.Path() != pkgSty {
			continue
		}
		top := topLevel(fn)
		allInstrs(fn, func(in ssa.Instruction) {
			c, ok := in.(*ssa.Call)
			if !ok {
				return
			}
			b, ok := c.Call.Value.(*ssa.Builtin)
			if !ok || b.Name() != "delete" || len(c.Call.Args) < 2 {
				return
			}
			ch, _ := addrChain(c.Call.Args[0])
			if len(ch) == 0 || ch[len(ch)-1] == nil || !fieldIs(p, ch[len(ch)-1], pkgSty, "StyleManager", "styles") {
				return
			}
			n++
			_, keyIsParam := stripConv(c.Call.Args[1]).(*ssa.Parameter)
			adds := false
			for g := range p.staticReach(top) {
				allInstrs(g, func(in2 ssa.Instruction) {
					if mu, ok := in2.(*ssa.MapUpdate); ok {
						if ch2, _ := addrChain(mu.Map); len(ch2) > 0 && ch2[len(ch2)-1] != nil && fieldIs(p, ch2[len(ch2)-1], pkgSty, "StyleManager", "styles") {
							adds = true
						}
					}
				})
			}
			okc := keyIsParam && !adds
			r.Check("style-registry-keeps", shortName(top), c.Pos(), okc,
				fmt.Sprintf("%s deletes from the style registry: %s", shortName(top), map[bool]string{true: "the entry named by its caller, and nothing else", false: "an entry its caller did not name (the key is computed, or the function also registers styles) — paragraphs written earlier keep referring to the deleted id, and word/styles.xml, generated from the registry, no longer defines it"}[okc]))
		})
	}
	r.Min("style_registry_deletions", n, 1)
}
