package main

import (
	"fmt"
	"go/token"
	"go/types"
	"regexp/syntax"
	"sort"
	"strings"

	"golang.org/x/tools/go/ssa"
)

// ---------------------------------------------------------------------------
// R-REGEX-LAZY (C16)
// ---------------------------------------------------------------------------

// emptyOnlyGroups: capture groups that can only ever capture the empty string under RE2
// leftmost-first semantics: the group's body is a lazily quantified expression that may match
// empty, and everything that follows the group in the pattern may match empty too (so nothing
// ever forces the lazy quantifier to take a character).
func emptyOnlyGroups(pattern string) (map[int]bool, int, error) {
	re, err := syntax.Parse(pattern, syntax.Perl)
	if err != nil {
		return nil, 0, err
	}
	out := map[int]bool{}
	var canEmpty func(r *syntax.Regexp) bool
	canEmpty = func(r *syntax.Regexp) bool {
		switch r.Op {
		case syntax.OpEmptyMatch, syntax.OpStar, syntax.OpQuest:
			return true
		case syntax.OpBeginLine, syntax.OpBeginText, syntax.OpWordBoundary, syntax.OpNoWordBoundary:
			return true
		case syntax.OpEndLine, syntax.OpEndText:
			return false // an end anchor forces the lazy part to extend
		case syntax.OpPlus:
			return canEmpty(r.Sub[0])
		case syntax.OpRepeat:
			return r.Min == 0 || canEmpty(r.Sub[0])
		case syntax.OpCapture:
			return canEmpty(r.Sub[0])
		case syntax.OpConcat:
			for _, s := range r.Sub {
				if !canEmpty(s) {
					return false
				}
			}
			return true
		case syntax.OpAlternate:
			for _, s := range r.Sub {
				if canEmpty(s) {
					return true
				}
			}
			return false
		case syntax.OpLiteral:
			return len(r.Rune) == 0
		}
		return false
	}
	lazyEmpty := func(r *syntax.Regexp) bool {
		// body prefers the empty match: lazy star/quest (or lazy repeat with min 0)
		if r.Flags&syntax.NonGreedy == 0 {
			return false
		}
		switch r.Op {
		case syntax.OpStar, syntax.OpQuest:
			return true
		case syntax.OpRepeat:
			return r.Min == 0
		}
		return false
	}
	// walk top-level concatenation; `tailEmpty` = everything after position i can match empty
	var walk func(r *syntax.Regexp, tailEmpty bool)
	walk = func(r *syntax.Regexp, tailEmpty bool) {
		switch r.Op {
		case syntax.OpConcat:
			for i, s := range r.Sub {
				te := tailEmpty
				for _, rest := range r.Sub[i+1:] {
					if !canEmpty(rest) {
						te = false
					}
				}
				walk(s, te)
			}
		case syntax.OpCapture:
			body := r.Sub[0]
			if tailEmpty && lazyEmpty(body) {
				out[r.Cap] = true
			}
			walk(body, tailEmpty)
		}
	}
	walk(re, true)
	return out, re.MaxCap(), nil
}

// resolveThroughClosure: if v is (a load of) a free variable, return the bound value in the parent.
func resolveFree(v ssa.Value) ssa.Value {
	v = stripLoads(v)
	fv, ok := v.(*ssa.FreeVar)
	if !ok {
		return v
	}
	fn := fv.Parent()
	par := fn.Parent()
	if par == nil {
		return v
	}
	idx := -1
	for i, f := range fn.FreeVars {
		if f == fv {
			idx = i
		}
	}
	var bound ssa.Value
	for _, pf := range withClosures(par) {
		allInstrs(pf, func(in ssa.Instruction) {
			if mc, ok := in.(*ssa.MakeClosure); ok && mc.Fn == ssa.Value(fn) && idx >= 0 && idx < len(mc.Bindings) {
				bound = mc.Bindings[idx]
			}
		})
	}
	if bound == nil {
		return v
	}
	return resolveFree(bound)
}

// regexOf: the constant pattern(s) a *regexp.Regexp value may hold.
func regexPatternsOf(v ssa.Value) []string {
	var out []string
	seen := map[ssa.Value]bool{}
	var walk func(v ssa.Value)
	walk = func(v ssa.Value) {
		v = resolveFree(v)
		if seen[v] {
			return
		}
		seen[v] = true
		switch x := v.(type) {
		case *ssa.Call:
			if cn := calleeName(x); cn == "regexp.MustCompile" || cn == "regexp.Compile" {
				if s, ok := constString(x.Call.Args[0]); ok {
					out = append(out, s)
				}
			}
		case *ssa.Alloc:
			if refs := x.Referrers(); refs != nil {
				for _, in := range *refs {
					if st, ok := in.(*ssa.Store); ok && st.Addr == ssa.Value(x) {
						walk(st.Val)
					}
				}
			}
		case *ssa.Phi:
			for _, e := range x.Edges {
				walk(e)
			}
		case *ssa.Global:
			// package-level compiled pattern: look at the initialiser
			if pk := x.Pkg; pk != nil {
				if init := pk.Func("init"); init != nil {
					allInstrs(init, func(in ssa.Instruction) {
						if st, ok := in.(*ssa.Store); ok && st.Addr == ssa.Value(x) {
							walk(st.Val)
						}
					})
				}
			}
		case *ssa.Extract:
			walk(x.Tuple)
		case *ssa.UnOp:
			if x.Op == token.MUL {
				walk(x.X)
			}
		}
	}
	walk(v)
	return out
}

// ---------------------------------------------------------------------------
// R-REGEX-DOTALL-NESTED (C16): a pattern that is applied to text CAPTURED by another pattern must
// be able to see everything that capture can hold.  The block pattern captures a conditional's
// body with (?s)(.*?) — any characters, newlines included; the pattern that then splits that body
// at {{else}} must be dot-all too.  If its `.` excludes newlines, `^(.*?)\{\{else\}\}(.*)$` simply
// fails on every multi-line body and the else branch is never separated.  Decided on the
// regexp/syntax trees of the two constant patterns and the data flow from the submatch to the
// second call.
// ---------------------------------------------------------------------------

func groupCanHoldNewline(re *syntax.Regexp, k int) (bool, bool) {
	var find func(r *syntax.Regexp) *syntax.Regexp
	find = func(r *syntax.Regexp) *syntax.Regexp {
		if r.Op == syntax.OpCapture && r.Cap == k {
			return r
		}
		for _, s := range r.Sub {
			if g := find(s); g != nil {
				return g
			}
		}
		return nil
	}
	g := find(re)
	if g == nil {
		return false, false
	}
	nl := false
	var walk func(r *syntax.Regexp)
	walk = func(r *syntax.Regexp) {
		switch r.Op {
		case syntax.OpAnyChar:
			nl = true
		case syntax.OpCharClass:
			for i := 0; i+1 < len(r.Rune); i += 2 {
				if r.Rune[i] <= '\n' && '\n' <= r.Rune[i+1] {
					nl = true
				}
			}
		case syntax.OpLiteral:
			for _, c := range r.Rune {
				if c == '\n' {
					nl = true
				}
			}
		}
		for _, s := range r.Sub {
			walk(s)
		}
	}
	walk(g)
	return nl, true
}

func hasRepeatedNoNLDot(re *syntax.Regexp) bool {
	found := false
	var walk func(r *syntax.Regexp, rep bool)
	walk = func(r *syntax.Regexp, rep bool) {
		switch r.Op {
		case syntax.OpStar, syntax.OpPlus, syntax.OpRepeat:
			rep = true
		case syntax.OpAnyCharNotNL:
			if rep {
				found = true
			}
		}
		for _, s := range r.Sub {
			walk(s, rep)
		}
	}
	walk(re, false)
	return found
}

func ruleRegexDotallNested(r *Run) {
	p := r.P
	n := 0
	for _, fn := range p.ModFuncs() {
		allInstrs(fn, func(in ssa.Instruction) {
			c2, ok := in.(*ssa.Call)
			if !ok || !strings.HasPrefix(calleeName(c2), "(*regexp.Regexp).") || len(c2.Call.Args) < 2 {
				return
			}
			// the subject string: element k of the submatch slice of another call
			subj := stripConv(c2.Call.Args[1])
			ld, ok := subj.(*ssa.UnOp)
			if !ok || ld.Op != token.MUL {
				return
			}
			ia, ok := ld.X.(*ssa.IndexAddr)
			if !ok {
				return
			}
			k, isC := constInt(ia.Index)
			if !isC {
				return
			}
			c1, ok := ia.X.(*ssa.Call)
			if !ok || !strings.Contains(calleeName(c1), "Submatch") {
				return
			}
			for _, p1 := range regexPatternsOf(c1.Call.Args[0]) {
				re1, err := syntax.Parse(p1, syntax.Perl)
				if err != nil {
					continue
				}
				nl, found := groupCanHoldNewline(re1, int(k))
				if !found || !nl {
					continue
				}
				for _, p2 := range regexPatternsOf(c2.Call.Args[0]) {
					re2, err := syntax.Parse(p2, syntax.Perl)
					if err != nil {
						continue
					}
					n++
					bad := hasRepeatedNoNLDot(re2)
					r.Check("regex-dotall-nested", fmt.Sprintf("%s:%s", shortName(topLevel(fn)), p2), c2.Pos(), !bad,
						fmt.Sprintf("%s applies `%s` to capture group %d of `%s`; that group can hold newlines, but `.` in the second pattern does not match a newline (no (?s)): on a multi-line body the pattern does not match at all and the body is not split (both branches of an if/else are emitted, or none)", shortName(topLevel(fn)), p2, k, p1))
				}
			}
		})
	}
	r.Count("patterns_applied_to_captures", n) // no minimum: splitting with strings.Index instead of a second pattern is just as good
	// a pattern that spans a whole block — it contains the literal of an opening directive "{{#" and
	// of a closing directive "{{/" with a repeated `.` in between — is applied to template text,
	// where blocks span lines: without (?s) it silently fails to match every multi-line block
	nb := 0
	seenPat := map[string]bool{}
	for _, fn := range p.ModFuncs() {
		if fn.Pkg == nil || fn.Pkg.Pkg.Path() != pkgDoc {
			continue
		}
		allInstrs(fn, func(in ssa.Instruction) {
			c, ok := in.(*ssa.Call)
			if !ok || (calleeName(c) != "regexp.MustCompile" && calleeName(c) != "regexp.Compile") || len(c.Call.Args) != 1 {
				return
			}
			pat, ok := constString(c.Call.Args[0])
			if !ok || seenPat[pat] {
				return
			}
			re, err := syntax.Parse(pat, syntax.Perl)
			if err != nil {
				return
			}
			lits := ""
			var walk func(x *syntax.Regexp)
			walk = func(x *syntax.Regexp) {
				if x.Op == syntax.OpLiteral {
					lits += string(x.Rune) + "\x00"
				}
				for _, s2 := range x.Sub {
					walk(s2)
				}
			}
			walk(re)
			if !strings.Contains(lits, "{{#") || !strings.Contains(lits, "{{/") {
				return
			}
			seenPat[pat] = true
			nb++
			bad := hasRepeatedNoNLDot(re)
			r.Check("regex-dotall-nested", "block-span:"+pat, c.Pos(), !bad,
				fmt.Sprintf("the pattern `%s` spans a block from its opening to its closing directive: %s", pat, map[bool]string{true: "its `.` matches line breaks ((?s)) or it uses no `.` repetition", false: "its repeated `.` does not match a line break (no (?s)) — a block that spans several lines is not matched at all, so whatever this pattern is meant to find or mask in it is missed"}[!bad]))
		})
	}
	r.Count("block_spanning_patterns", nb)
}

func ruleRegexLazy(r *Run) {
	p := r.P
	nPat, nUse := 0, 0
	for _, fn := range p.ModFuncs() {
		allInstrs(fn, func(in ssa.Instruction) {
			c, ok := in.(*ssa.Call)
			if !ok {
				return
			}
			cn := calleeName(c)
			if cn == "regexp.MustCompile" {
				if pat, ok := constString(c.Call.Args[0]); ok {
					nPat++
					if _, _, err := emptyOnlyGroups(pat); err != nil {
						r.Check("regex-lazy", shortName(topLevel(fn))+":parse:"+pat, c.Pos(), false, "pattern does not parse: "+err.Error())
					}
				}
				return
			}
			if cn != "(*regexp.Regexp).FindStringSubmatch" && cn != "(*regexp.Regexp).FindSubmatch" {
				return
			}
			pats := regexPatternsOf(c.Call.Args[0])
			if len(pats) == 0 {
				return
			}
			// which submatch indices are read?
			used := map[int64]token.Pos{}
			for use := range forwardFlow(c, nil) {
				switch x := use.(type) {
				case *ssa.IndexAddr:
					if k, ok := constInt(x.Index); ok {
						used[k] = x.Pos()
					}
				case *ssa.Index:
					if k, ok := constInt(x.Index); ok {
						used[k] = x.Pos()
					}
				}
			}
			for _, pat := range pats {
				empties, maxCap, err := emptyOnlyGroups(pat)
				if err != nil {
					continue
				}
				var ks []int64
				for k := range used {
					ks = append(ks, k)
				}
				sort.Slice(ks, func(i, j int) bool { return ks[i] < ks[j] })
				for _, k := range ks {
					if k == 0 || int(k) > maxCap {
						continue
					}
					nUse++
					r.Check("regex-lazy", fmt.Sprintf("%s:%s#%d", shortName(topLevel(fn)), pat, k), used[k], !empties[int(k)],
						fmt.Sprintf("%s reads capture group %d of `%s`; that group is a lazy quantifier with nothing after it that must match, so under leftmost-first matching it can only ever be empty — the text it is meant to capture (e.g. the else branch) is always lost", shortName(topLevel(fn)), k, pat))
				}
			}
		})
	}
	r.Min("compiled_constant_patterns", nPat, 40)
	r.Min("submatch_group_reads", nUse, 10)
}

// ---------------------------------------------------------------------------
// R-PASS-ORDER (C16)
// ---------------------------------------------------------------------------

// directive syntax recognised in constant patterns / needles
func isDirectiveConst(s string) bool {
	return strings.Contains(s, `{{`) || strings.Contains(s, `\{\{`)
}

func funcInterpretsDirectives(p *Program, fn *ssa.Function) bool {
	found := false
	for f := range p.staticReach(fn) {
		allInstrs(f, func(in ssa.Instruction) {
			c, ok := in.(*ssa.Call)
			if !ok {
				return
			}
			switch calleeName(c) {
			case "regexp.MustCompile":
				if s, ok := constString(c.Call.Args[0]); ok && isDirectiveConst(s) {
					found = true
				}
			case "strings.ReplaceAll", "strings.Contains", "strings.Index":
				if len(c.Call.Args) > 1 {
					if s, ok := constString(c.Call.Args[1]); ok && isDirectiveConst(s) {
						found = true
					}
				}
			}
		})
	}
	return found
}

// valueToStringFuncs: module functions (… , v interface{}) string that switch on the dynamic type —
// the conversion every inserted data value goes through.
func valueToStringFuncs(p *Program) map[*ssa.Function]bool {
	out := map[*ssa.Function]bool{}
	for _, fn := range p.ModFuncs() {
		if fn.Signature.Results().Len() != 1 || !isStringType(fn.Signature.Results().At(0).Type()) {
			continue
		}
		ps := fn.Signature.Params()
		if ps.Len() != 1 {
			continue
		}
		if _, ok := ps.At(0).Type().Underlying().(*types.Interface); !ok {
			continue
		}
		ta := false
		allInstrs(fn, func(in ssa.Instruction) {
			if _, ok := in.(*ssa.TypeAssert); ok {
				ta = true
			}
		})
		if ta {
			out[fn] = true
		}
	}
	return out
}

func funcInsertsValues(p *Program, fn *ssa.Function, conv map[*ssa.Function]bool) bool {
	for f := range p.staticReach(fn) {
		found := false
		allInstrs(f, func(in ssa.Instruction) {
			if c, ok := in.(*ssa.Call); ok && conv[staticCallee(c)] {
				found = true
			}
		})
		if found {
			return true
		}
	}
	return false
}

func rulePassOrder(r *Run) {
	p := r.P
	fn := r.mustFunc(pkgDoc, "(*TemplateEngine).renderTemplate")
	if fn == nil {
		return
	}
	conv := valueToStringFuncs(p)
	r.Min("value_to_string_functions", len(conv), 1)
	// the content chain: calls whose first string argument derives from the previous call's result
	type pass struct {
		call     *ssa.Call
		callee   *ssa.Function
		inserts  bool
		interp   bool
		position int
	}
	var passes []pass
	allInstrs(fn, func(in ssa.Instruction) {
		c, ok := in.(*ssa.Call)
		if !ok {
			return
		}
		cal := staticCallee(c)
		if cal == nil || !p.inModule(cal) || cal == fn {
			return
		}
		if cal.Signature.Results().Len() != 1 || !isStringType(cal.Signature.Results().At(0).Type()) {
			return
		}
		passes = append(passes, pass{call: c, callee: cal, inserts: funcInsertsValues(p, cal, conv), interp: funcInterpretsDirectives(p, cal)})
	})
	r.Min("render_passes", len(passes), 4)
	// dataflow order: pass j consumes (transitively) the result of pass i
	consumes := func(j, i int) bool {
		res := newSlicer(p).Slice(passes[j].call.Call.Args[1])
		return res.Vals[passes[i].call]
	}
	for i := range passes {
		if !passes[i].inserts {
			continue
		}
		clean := true
		for j := range passes {
			if i == j || !passes[j].interp {
				continue
			}
			if len(passes[j].call.Call.Args) > 1 && consumes(j, i) {
				clean = false
				// one obligation per (inserting pass, later interpreting pass) pair: a new pair — the
				// passes re-ordered — is a new violation even where other pairs are known findings
				r.Check("pass-order", passRole(p, passes[i].callee)+">"+passRole(p, passes[j].callee), passes[j].call.Pos(), false,
					fmt.Sprintf("%s inserts data values into the working text, which is then re-scanned by the directive-interpreting pass %s: a value that contains template syntax (e.g. \"{{#if x}}\" or \"{{name}}\") is interpreted instead of being inserted verbatim", passes[i].callee.Name(), passes[j].callee.Name()))
			}
		}
		if clean {
			r.Check("pass-order", passRole(p, passes[i].callee), passes[i].call.Pos(), true, passes[i].callee.Name()+" inserts data values; no directive-interpreting pass consumes its output")
		}
	}
}

// passRole names a render pass by the directive syntax it interprets (constant patterns / needles in
// its own body and the literals it creates), so that obligations do not depend on function names:
// loops ({{#each), images ({{#image), conditionals ({{#if), blocks ({{#block), variables ({{name}}).
func passRole(p *Program, fn *ssa.Function) string {
	has := map[string]bool{}
	fs := append([]*ssa.Function{}, withClosures(fn)...)
	for g := range p.staticReach(fn) {
		fs = append(fs, g)
	}
	for _, f := range fs {
		allInstrs(f, func(in ssa.Instruction) {
			c, ok := in.(*ssa.Call)
			if !ok {
				return
			}
			var lits []string
			for _, a := range c.Call.Args {
				if s, ok := constString(a); ok {
					lits = append(lits, s)
				}
			}
			for _, pat := range regexPatternsOf(c.Call.Value) {
				lits = append(lits, pat)
			}
			if len(c.Call.Args) > 0 {
				lits = append(lits, regexPatternsOf(c.Call.Args[0])...)
			}
			for _, s := range lits {
				for _, k := range []string{"#each", "#image", "#if", "#block"} {
					if strings.Contains(s, k) {
						has[k] = true
					}
				}
			}
		})
	}
	switch {
	case has["#each"]:
		return "loops"
	case has["#image"]:
		return "images"
	case has["#if"]:
		return "conditionals"
	case has["#block"]:
		return "blocks"
	}
	return "variables"
}

// ---------------------------------------------------------------------------
// R-CLOSURE-RET (C16, C18): unknown variables stay in place
// ---------------------------------------------------------------------------

func ruleClosureRet(r *Run) {
	p := r.P
	n := 0
	// Whether a name was supplied is a question about the KEY: `v := data[name]; if v != nil` also
	// treats a name supplied with a nil value as unknown (its placeholder then stays in the output
	// instead of rendering empty).  In the template engine a data table of interface values that is
	// read without the comma-ok form must not have its result tested against nil.
	for _, fn := range p.ModFuncs() {
		if fn.Pkg == nil || fn.Pkg.Pkg.Path() != pkgDoc {
			continue
		}
		top := topLevel(fn)
		if top.Signature.Recv() == nil || !typeIs(top.Signature.Recv().Type(), pkgDoc, "TemplateEngine") {
			continue
		}
		allInstrs(fn, func(in ssa.Instruction) {
			lk, ok := in.(*ssa.Lookup)
			if !ok || lk.CommaOk || lk.Referrers() == nil {
				return
			}
			mt, ok := lk.X.Type().Underlying().(*types.Map)
			if !ok {
				return
			}
			if _, isIface := mt.Elem().Underlying().(*types.Interface); !isIface {
				return
			}
			if kb, ok := mt.Key().Underlying().(*types.Basic); !ok || kb.Info()&types.IsString == 0 {
				return
			}
			for _, u := range *lk.Referrers() {
				bo, ok := u.(*ssa.BinOp)
				if !ok || (bo.Op != token.NEQ && bo.Op != token.EQL) || (!isNilConst(bo.X) && !isNilConst(bo.Y)) || bo.Referrers() == nil {
					continue
				}
				for _, u2 := range *bo.Referrers() {
					if _, isIf := u2.(*ssa.If); isIf {
						r.Check("closure-ret", shortName(top)+":presence-by-value", lk.Pos(), false,
							fmt.Sprintf("%s decides whether a data name was supplied by comparing the looked-up value with nil: a name supplied with a nil value counts as unknown, so its placeholder is left in the output instead of rendering empty (use the comma-ok form)", shortName(top)))
					}
				}
			}
		})
	}
	for _, fn := range p.ModFuncs() {
		if fn.Parent() == nil || fn.Pkg == nil || fn.Pkg.Pkg.Path() != pkgDoc {
			continue
		}
		// replacement closure: func(match string) string
		if len(fn.Params) != 1 || !isStringType(fn.Params[0].Type()) || fn.Signature.Results().Len() != 1 || !isStringType(fn.Signature.Results().At(0).Type()) {
			continue
		}
		match := ssa.Value(fn.Params[0])
		// lookups of data values: v, ok := m[name] with m map[string]interface{}
		allInstrs(fn, func(in ssa.Instruction) {
			lk, ok := in.(*ssa.Lookup)
			if !ok || !lk.CommaOk {
				return
			}
			mt, ok := lk.X.Type().Underlying().(*types.Map)
			if !ok {
				return
			}
			if _, isIface := mt.Elem().Underlying().(*types.Interface); !isIface {
				return
			}
			// find the ok flag and its branch
			var okv ssa.Value
			if refs := lk.Referrers(); refs != nil {
				for _, u := range *refs {
					if ex, ok := u.(*ssa.Extract); ok && ex.Index == 1 {
						okv = ex
					}
				}
			}
			if okv == nil {
				return
			}
			// only substitution closures: the looked-up value itself reaches a return value
			var val ssa.Value
			if refs := lk.Referrers(); refs != nil {
				for _, u := range *refs {
					if ex, ok := u.(*ssa.Extract); ok && ex.Index == 0 {
						val = ex
					}
				}
			}
			inserted := false
			if val != nil {
				for _, ret := range returnsOf(fn) {
					if newSlicer(p).Slice(retResult(ret, 0)).Vals[val] {
						inserted = true
					}
				}
			}
			if !inserted {
				return
			}
			var iff *ssa.If
			if refs := okv.Referrers(); refs != nil {
				for _, u := range *refs {
					if i, ok := u.(*ssa.If); ok {
						iff = i
					}
				}
			}
			if iff == nil {
				return
			}
			n++
			absent := edgeRegion(iff.Block(), iff.Block().Succs[1])
			good := len(absent) > 0
			sawRet := false
			for b := range absent {
				for _, x := range b.Instrs {
					if ret, ok := x.(*ssa.Return); ok {
						sawRet = true
						if retResult(ret, 0) != match {
							good = false
						}
					}
				}
			}
			if !sawRet {
				// falls through to a common return: it must return match
				for _, ret := range returnsOf(fn) {
					if blockReaches(iff.Block().Succs[1], ret.Block()) && !edgeRegion(iff.Block(), iff.Block().Succs[0])[ret.Block()] {
						if retResult(ret, 0) != match {
							good = false
						}
						sawRet = true
					}
				}
			}
			r.Check("closure-ret", shortName(topLevel(fn))+":"+fn.Name(), lk.Pos(), good && sawRet,
				fmt.Sprintf("replacement closure in %s: when the variable is absent from the data the closure must return the matched placeholder unchanged (unknown variables stay visible)", shortName(topLevel(fn))))
		})
	}
	r.Min("replacement_closures_with_data_lookup", n, 2)
}

// ---------------------------------------------------------------------------
// R-RAW-XML (C01, C18)
// ---------------------------------------------------------------------------

// isXMLSanitiser: a function that escapes its string argument with encoding/xml.
func isXMLSanitiser(p *Program, f *ssa.Function) bool {
	if f == nil {
		return false
	}
	if n := fullName(f); n == "encoding/xml.EscapeText" || n == "encoding/xml.Marshal" || n == "encoding/xml.MarshalIndent" {
		return true
	}
	if !p.inModule(f) {
		return false
	}
	esc := false
	replOnly := false
	allInstrs(f, func(in ssa.Instruction) {
		if c, ok := in.(*ssa.Call); ok {
			switch calleeName(c) {
			case "encoding/xml.EscapeText":
				esc = true
			case "strings.ReplaceAll":
				replOnly = true
			}
		}
	})
	_ = replOnly
	if !esc {
		return false
	}
	// total: every value the function returns is a constant or comes out of the buffer that
	// EscapeText filled — never (a transformation of) the raw argument.  A "fast path" that
	// returns the argument unchanged when it contains none of & < > " ' lets control characters,
	// which only EscapeText replaces, straight through.
	for _, ret := range returnsOf(f) {
		for _, rv := range ret.Results {
			if !isStringType(rv.Type()) {
				continue
			}
			if _, isConst := stripConv(rv).(*ssa.Const); isConst {
				continue
			}
			fromParam := false
			for rt := range rootsOf(stripConv(rv)) {
				if _, ok := rt.(*ssa.Parameter); ok {
					fromParam = true
				}
			}
			// rootsOf of `buf.String()` is the call itself; a returned parameter (or slice/concat of it) is not
			if par, ok := stripConv(rv).(*ssa.Parameter); ok && par != nil {
				fromParam = true
			}
			if ph, ok := stripConv(rv).(*ssa.Phi); ok {
				for _, e := range ph.Edges {
					if _, ok := stripConv(e).(*ssa.Parameter); ok {
						fromParam = true
					}
				}
			}
			if fromParam {
				// a fast path that hands the argument back unchanged is sound only under a guard that
				// has looked at every byte and found nothing the escaper would rewrite — control
				// characters and non-ASCII bytes included, not just the five markup characters
				if _, isPar := stripConv(rv).(*ssa.Parameter); isPar && guardedByFullScan(p, f, ret) {
					continue
				}
				return false
			}
			// …and what comes out of the escaper is returned AS IS: a replace / regexp / trim applied
			// to the escaped text can undo the escaping ("&amp;nbsp;" → "&nbsp;") or cut an entity in two
			if !escaperOutputAsIs(rv, 0) {
				return false
			}
		}
	}
	return true
}

// escaperOutputAsIs: v is a constant, the content of a buffer/builder (buf.String(), string(buf.Bytes()))
// or a phi of such values — not the result of any further string operation.
func escaperOutputAsIs(v ssa.Value, depth int) bool {
	v = stripConv(v)
	switch x := v.(type) {
	case *ssa.Const:
		return true
	case *ssa.Phi:
		if depth > 3 {
			return false
		}
		for _, e := range x.Edges {
			if !escaperOutputAsIs(e, depth+1) {
				return false
			}
		}
		return true
	case *ssa.Call:
		switch calleeName(x) {
		case "(*bytes.Buffer).String", "(*strings.Builder).String", "(*bytes.Buffer).Bytes":
			return true
		}
	}
	return false
}

func ruleRawXML(r *Run) { rawXML(r, true) }

// ruleRawXMLSplice: only the string-surgery sinks of the template code (C18: the property is about
// template values landing in raw header/footer XML, not about the formula API).
func ruleRawXMLSplice(r *Run) { rawXML(r, false) }

func rawXML(r *Run, innerToo bool) {
	p := r.P
	conv := valueToStringFuncs(p)
	n := 0
	// (1) string surgery on XML parts: func(xml []byte, …) []byte whose result is string(content) rebuilt by
	//     ReplaceAllStringFunc closures that insert data values
	for _, fn := range p.ModFuncs() {
		if fn.Parent() == nil || fn.Pkg == nil || fn.Pkg.Pkg.Path() != pkgDoc {
			continue
		}
		top := topLevel(fn)
		// the enclosing function handles raw XML bytes
		hasBytesParam, returnsBytes := false, false
		for _, par := range top.Params {
			if s, ok := par.Type().Underlying().(*types.Slice); ok {
				if b, ok := s.Elem().Underlying().(*types.Basic); ok && b.Kind() == types.Byte {
					hasBytesParam = true
				}
			}
		}
		for i := 0; i < top.Signature.Results().Len(); i++ {
			if s, ok := top.Signature.Results().At(i).Type().Underlying().(*types.Slice); ok {
				if b, ok := s.Elem().Underlying().(*types.Basic); ok && b.Kind() == types.Byte {
					returnsBytes = true
				}
			}
		}
		if !hasBytesParam || !returnsBytes {
			continue
		}
		if len(fn.Params) != 1 || !isStringType(fn.Params[0].Type()) {
			continue
		}
		for _, ret := range returnsOf(fn) {
			v := retResult(ret, 0)
			if v == ssa.Value(fn.Params[0]) {
				continue
			}
			if _, isConst := v.(*ssa.Const); isConst {
				continue
			}
			// does the returned text contain a data value?
			res := newSlicer(p).Slice(v)
			inserts := false
			for x := range res.Vals {
				if c, ok := x.(*ssa.Call); ok && conv[staticCallee(c)] {
					inserts = true
				}
			}
			if !inserts {
				continue
			}
			n++
			san := false
			if c, ok := stripConv(v).(*ssa.Call); ok {
				san = isXMLSanitiser(p, staticCallee(c))
			}
			name := "?"
			if c, ok := stripConv(v).(*ssa.Call); ok {
				name = calleeName(c)
			}
			r.Check("raw-xml", shortName(top)+":value", ret.Pos(), san,
				fmt.Sprintf("%s splices a data value into raw XML text; the value passes through %s, which is not an encoding/xml escaper: characters that are not legal in XML (e.g. U+0001) survive and make the part ill-formed", shortName(top), name))
		}
	}
	// (1a) the same surgery written with a builder instead of ReplaceAllStringFunc: inside a function
	//      that takes and returns raw XML bytes, every data value written into a string builder /
	//      buffer must be the result of an encoding/xml escaper
	for _, top := range p.ModFuncs() {
		if top.Parent() != nil || top.Pkg == nil || top.Pkg.Pkg.Path() != pkgDoc {
			continue
		}
		hasBytesParam, returnsBytes := false, false
		for _, par := range top.Params {
			if sl, ok := par.Type().Underlying().(*types.Slice); ok {
				if b, ok := sl.Elem().Underlying().(*types.Basic); ok && b.Kind() == types.Byte {
					hasBytesParam = true
				}
			}
		}
		for i := 0; i < top.Signature.Results().Len(); i++ {
			if sl, ok := top.Signature.Results().At(i).Type().Underlying().(*types.Slice); ok {
				if b, ok := sl.Elem().Underlying().(*types.Basic); ok && b.Kind() == types.Byte {
					returnsBytes = true
				}
			}
		}
		if !hasBytesParam || !returnsBytes {
			continue
		}
		// …and the text-to-text helpers it hands the part's text to (the scan-and-rebuild loop moved
		// into a function of its own)
		scan := []*ssa.Function{top}
		allInstrs(top, func(in ssa.Instruction) {
			if c, ok := in.(*ssa.Call); ok {
				if g := staticCallee(c); g != nil && g != top && p.inModule(g) && g.Parent() == nil && isStringType(c.Type()) && len(g.Blocks) > 0 {
					for _, a := range c.Call.Args {
						if isStringType(a.Type()) {
							scan = append(scan, g)
							break
						}
					}
				}
			}
		})
		idx := 0
		for _, sf := range scan {
			allInstrs(sf, func(in ssa.Instruction) {
				c, ok := in.(*ssa.Call)
				if !ok || len(c.Call.Args) < 2 {
					return
				}
				switch calleeName(c) {
				case "(*strings.Builder).WriteString", "(*bytes.Buffer).WriteString", "(*bytes.Buffer).Write", "(*strings.Builder).Write":
				case "encoding/xml.EscapeText":
					// the value is written through the escaper itself
					for x := range newSlicer(p).Slice(c.Call.Args[1]).Vals {
						if cc, ok := x.(*ssa.Call); ok && conv[staticCallee(cc)] {
							n++
							idx++
							r.Check("raw-xml", fmt.Sprintf("%s:value#%d", shortName(top), idx), c.Pos(), true,
								fmt.Sprintf("%s writes a data value into the raw XML text it rebuilds through encoding/xml.EscapeText", shortName(top)))
							break
						}
					}
					return
				default:
					// a module helper that is handed the builder and the value: an escaping writer?
					h := staticCallee(c)
					if h == nil || !p.inModule(h) || len(h.Blocks) == 0 {
						return
					}
					wi, vi := -1, -1
					for i, a := range c.Call.Args {
						t := a.Type()
						if pt, ok := t.(*types.Pointer); ok {
							if nt, ok := pt.Elem().(*types.Named); ok && nt.Obj().Pkg() != nil && (nt.Obj().Pkg().Path() == "strings" && nt.Obj().Name() == "Builder" || nt.Obj().Pkg().Path() == "bytes" && nt.Obj().Name() == "Buffer") {
								wi = i
							}
						}
						if isStringType(t) {
							vi = i
						}
					}
					if wi < 0 || vi < 0 {
						return
					}
					inserts := false
					for x := range newSlicer(p).Slice(c.Call.Args[vi]).Vals {
						if cc, ok := x.(*ssa.Call); ok && conv[staticCallee(cc)] {
							inserts = true
						}
					}
					if !inserts {
						return
					}
					// every write of h into its writer parameter goes through xml.EscapeText
					esc, raw := false, false
					allInstrs(h, func(in2 ssa.Instruction) {
						c2, ok := in2.(*ssa.Call)
						if !ok {
							return
						}
						switch calleeName(c2) {
						case "encoding/xml.EscapeText":
							esc = true
						case "(*strings.Builder).WriteString", "(*bytes.Buffer).WriteString", "(*bytes.Buffer).Write", "(*strings.Builder).Write", "(*strings.Builder).WriteByte", "(*strings.Builder).WriteRune":
							if len(c2.Call.Args) > 1 {
								if _, isC := c2.Call.Args[1].(*ssa.Const); !isC {
									raw = true
								}
							}
						}
					})
					n++
					idx++
					r.Check("raw-xml", fmt.Sprintf("%s:value#%d", shortName(top), idx), c.Pos(), esc && !raw,
						fmt.Sprintf("%s writes a data value into the raw XML text it rebuilds through %s: %s", shortName(top), shortName(h), map[bool]string{true: "which writes it through encoding/xml.EscapeText only", false: "which does not (only) write it through encoding/xml.EscapeText: characters that are not legal in XML survive and make the part ill-formed"}[esc && !raw]))
					return
				}
				v := c.Call.Args[1]
				inserts := false
				for x := range newSlicer(p).Slice(v).Vals {
					if cc, ok := x.(*ssa.Call); ok && conv[staticCallee(cc)] {
						inserts = true
					}
				}
				if !inserts {
					return
				}
				n++
				idx++
				san := false
				name := "?"
				if cc, ok := stripConv(v).(*ssa.Call); ok {
					san = isXMLSanitiser(p, staticCallee(cc))
					name = calleeName(cc)
				}
				if !san && sanitisedValue(p, v, map[ssa.Value]bool{}) {
					san = true // an escaper's result on every path, possibly through a cache of escaped values
				}
				r.Check("raw-xml", fmt.Sprintf("%s:value#%d", shortName(top), idx), c.Pos(), san,
					fmt.Sprintf("%s writes a data value into the raw XML text it rebuilds; the value passes through %s, which is not an encoding/xml escaper: characters that are not legal in XML survive and make the part ill-formed", shortName(top), name))
			})
		}
	}
	// (1b) the substitution may be delegated: a function that handles raw XML bytes hands the text to
	//      a module helper whose ReplaceAllStringFunc closure inserts data values without escaping.
	//      That is sound only if every value the helper can insert was escaped beforehand — i.e. the
	//      value table handed over is built by a function that stores an escaper's result on EVERY path.
	for _, top := range p.ModFuncs() {
		if top.Parent() != nil || top.Pkg == nil || top.Pkg.Pkg.Path() != pkgDoc {
			continue
		}
		hasBytesParam, returnsBytes := false, false
		for _, par := range top.Params {
			if sl, ok := par.Type().Underlying().(*types.Slice); ok {
				if b, ok := sl.Elem().Underlying().(*types.Basic); ok && b.Kind() == types.Byte {
					hasBytesParam = true
				}
			}
		}
		for i := 0; i < top.Signature.Results().Len(); i++ {
			if sl, ok := top.Signature.Results().At(i).Type().Underlying().(*types.Slice); ok {
				if b, ok := sl.Elem().Underlying().(*types.Basic); ok && b.Kind() == types.Byte {
					returnsBytes = true
				}
			}
		}
		if !hasBytesParam || !returnsBytes {
			continue
		}
		allInstrs(top, func(in ssa.Instruction) {
			c, ok := in.(*ssa.Call)
			if !ok {
				return
			}
			g := staticCallee(c)
			if g == nil || !p.inModule(g) || g == top || !isStringType(c.Type()) {
				return
			}
			// closures of g that return text containing a converted data value, unescaped
			unescaped := false
			for _, cl := range g.AnonFuncs {
				if len(cl.Params) != 1 || !isStringType(cl.Params[0].Type()) {
					continue
				}
				for _, ret := range returnsOf(cl) {
					v := retResult(ret, 0)
					if v == ssa.Value(cl.Params[0]) {
						continue
					}
					if _, isConst := v.(*ssa.Const); isConst {
						continue
					}
					inserts := false
					for x := range newSlicer(p).Slice(v).Vals {
						if cc, ok := x.(*ssa.Call); ok && conv[staticCallee(cc)] {
							inserts = true
						}
					}
					if !inserts {
						continue
					}
					if cc, ok := stripConv(v).(*ssa.Call); ok && isXMLSanitiser(p, staticCallee(cc)) {
						continue
					}
					unescaped = true
				}
			}
			if !unescaped {
				return
			}
			n++
			// the value tables handed to g at this call: each must come out of a builder that escapes
			// every entry
			okAll, why := false, "no pre-escaped value table is handed over"
			for _, a := range c.Call.Args {
				if _, isMap := a.Type().Underlying().(*types.Map); !isMap {
					continue
				}
				bc, isCall := a.(*ssa.Call)
				if !isCall {
					okAll, why = false, "the value table is the caller's own, unescaped"
					break
				}
				h := staticCallee(bc)
				if h == nil || !p.inModule(h) {
					okAll, why = false, "the value table is not built by a function of this module"
					break
				}
				okAll, why = true, shortName(h)+" escapes every entry"
				allInstrs(h, func(in2 ssa.Instruction) {
					mu, ok := in2.(*ssa.MapUpdate)
					if !ok {
						return
					}
					var leaves []ssa.Value
					var collect func(v ssa.Value, d int)
					seen := map[ssa.Value]bool{}
					collect = func(v ssa.Value, d int) {
						v = stripConv(v)
						if v == nil || seen[v] || d > 6 {
							return
						}
						seen[v] = true
						switch x := v.(type) {
						case *ssa.Phi:
							for _, e := range x.Edges {
								collect(e, d+1)
							}
						case *ssa.MakeInterface:
							collect(x.X, d+1)
						default:
							leaves = append(leaves, v)
						}
					}
					collect(mu.Value, 0)
					for _, lf := range leaves {
						if cc, ok := lf.(*ssa.Call); ok && isXMLSanitiser(p, staticCallee(cc)) {
							continue
						}
						if _, isConst := lf.(*ssa.Const); isConst {
							continue
						}
						okAll, why = false, fmt.Sprintf("%s stores a value into the table without escaping it on some path (at %s)", shortName(h), p.pos(mu.Pos()))
					}
				})
			}
			r.Check("raw-xml", shortName(top)+":delegated:"+shortName(g), c.Pos(), okAll,
				fmt.Sprintf("%s has the values substituted into raw XML text by %s, whose replacement function inserts them unescaped; every value must therefore be escaped before it is handed over: %s", shortName(top), shortName(g), why))
		})
	}
	if !innerToo {
		r.Min("raw_xml_splice_sinks", n, 1)
		return
	}
	// (2) innerxml fields: whatever is stored there is emitted verbatim
	for _, fn := range p.ModFuncs() {
		if fn.Pkg == nil {
			continue
		}
		allInstrs(fn, func(in ssa.Instruction) {
			st, ok := in.(*ssa.Store)
			if !ok {
				return
			}
			fv, _ := fieldOfAddr(st.Addr)
			if fv == nil {
				return
			}
			o := fieldOwner(p, fv)
			if o == nil {
				return
			}
			stt := o.Underlying().(*types.Struct)
			inner := false
			for i := 0; i < stt.NumFields(); i++ {
				if stt.Field(i) == fv && parseXMLTag(stt.Tag(i)).InnerXML {
					inner = true
				}
			}
			if !inner {
				return
			}
			// acceptable: constants, or output of the library's own OMML generator (marshalled / built from escaped parts)
			ok2 := false
			detail := ""
			// a verbatim copy of the same field of another object (clone functions): the obligation
			// lies with whoever filled the original
			if sf, _ := fieldOfVal(stripConv(st.Val)); sf == fv {
				return
			}
			if ld, isLoad := stripConv(st.Val).(*ssa.UnOp); isLoad && ld.Op == token.MUL {
				if sf, _ := fieldOfAddr(ld.X); sf == fv {
					return
				}
			}
			n++
			switch v := stripConv(st.Val).(type) {
			case *ssa.Const:
				ok2 = true
			case *ssa.Parameter:
				detail = fmt.Sprintf("parameter %s of exported %s is stored verbatim", v.Name(), shortName(fn))
			default:
				res := newSlicer(p).Slice(st.Val)
				for x := range res.Vals {
					if c, ok := x.(*ssa.Call); ok && isXMLSanitiser(p, staticCallee(c)) {
						ok2 = true
					}
				}
				detail = "value is not produced by an encoding/xml escaper"
			}
			r.Check("raw-xml", shortName(fn)+":"+o.Obj().Name()+"."+fv.Name(), st.Pos(), ok2,
				fmt.Sprintf("field %s.%s is tagged ,innerxml and is written to the part without escaping; %s, so caller text can make word/document.xml ill-formed", o.Obj().Name(), fv.Name(), detail))
		})
	}
	r.Min("raw_xml_sinks", n, 2)
}

// ---------------------------------------------------------------------------
// R-NESTED-MATCH (C16): "nested lists rendered recursively" needs the closing tag that MATCHES an
// opening tag.  A loop that walks from one closing tag to the next to skip nested blocks must look
// for opening tags in the same loop: openings that lie between two closing tags (a second sibling
// block inside the body) change which closing tag matches.  A loop that only searches closing
// tags — with the number of openings counted once, before the loop — ends the outer block inside
// its second inner block.  Decided on the CFG: every search for the closing tag that sits in a
// cycle shares that cycle with a search for the opening tag.  Matchers without such a loop
// (tokenisers, recursive descent) are not subject to the rule.
// ---------------------------------------------------------------------------

func ruleNestedMatch(r *Run) {
	p := r.P
	type search struct {
		in    ssa.Instruction
		open  bool
		close bool
	}
	classify := func(c *ssa.Call) (open, cl bool) {
		var texts []string
		cn := calleeName(c)
		switch {
		case strings.HasPrefix(cn, "(*regexp.Regexp).Find"):
			if len(c.Call.Args) > 0 {
				texts = regexPatternsOf(c.Call.Args[0])
			}
		case cn == "strings.Index" || cn == "strings.LastIndex" || cn == "strings.Contains" || cn == "strings.Cut" || cn == "strings.HasPrefix":
			if len(c.Call.Args) > 1 {
				if s, ok := constString(c.Call.Args[1]); ok {
					texts = []string{s}
				}
			}
		}
		for _, t := range texts {
			plain := strings.NewReplacer(`\`, "").Replace(t)
			if strings.Contains(plain, "{{/each") {
				cl = true
			}
			if strings.Contains(plain, "{{#each") {
				open = true
			}
		}
		return
	}
	n := 0
	for _, fn := range p.ModFuncs() {
		if fn.Pkg == nil || fn.Pkg.Pkg.Path() != pkgDoc {
			continue
		}
		var ss []search
		allInstrs(fn, func(in ssa.Instruction) {
			if c, ok := in.(*ssa.Call); ok {
				if o, cl := classify(c); o || cl {
					ss = append(ss, search{in, o, cl})
				}
			}
		})
		if len(ss) == 0 {
			continue
		}
		reach := map[*ssa.BasicBlock]map[*ssa.BasicBlock]bool{}
		reachFrom := func(b *ssa.BasicBlock) map[*ssa.BasicBlock]bool {
			if m, ok := reach[b]; ok {
				return m
			}
			m := map[*ssa.BasicBlock]bool{}
			for _, s := range b.Succs {
				for k := range reachableBlocks(s, nil) {
					m[k] = true
				}
			}
			reach[b] = m
			return m
		}
		for _, s := range ss {
			if !s.close || s.open {
				continue
			}
			b := s.in.Block()
			if !reachFrom(b)[b] {
				continue // not in a loop
			}
			n++
			ok := false
			for _, o := range ss {
				if !o.open {
					continue
				}
				ob := o.in.Block()
				if ob == b || (reachFrom(b)[ob] && reachFrom(ob)[b]) {
					ok = true
				}
			}
			r.Check("nested-match", shortName(fn), s.in.Pos(), ok,
				fmt.Sprintf("%s steps from one {{/each}} to the next in a loop (%s) without looking for {{#each}} in the same loop: openings between two closing tags (a second inner block in the body) are not counted and the outer block is ended at the wrong tag", shortName(fn), p.pos(s.in.Pos())))
		}
	}
	r.Count("closing_tag_searches_in_loops", n)
}

// guardedByFullScan: the return is control dependent on the (negated) result of a module
// predicate over the same string that loops over all its bytes and reports true for every byte
// below 0x20, every byte above 0x7E and each of & < > " ' (six tests, all present).
func guardedByFullScan(p *Program, f *ssa.Function, ret *ssa.Return) bool {
	for _, c := range controlConds(ret) {
		v := c
		if no, ok := v.(*ssa.UnOp); ok && no.Op == token.NOT {
			v = no.X
		}
		call, ok := v.(*ssa.Call)
		if !ok {
			continue
		}
		pred := staticCallee(call)
		if pred == nil || !p.inModule(pred) || len(pred.Blocks) == 0 || len(naturalLoops(pred)) == 0 {
			continue
		}
		lowCtl, highAscii := false, false
		chars := map[int64]bool{}
		allInstrs(pred, func(in ssa.Instruction) {
			bo, ok := in.(*ssa.BinOp)
			if !ok {
				return
			}
			k, isC := constInt(bo.Y)
			if !isC {
				return
			}
			switch bo.Op {
			case token.LSS:
				if k == 0x20 {
					lowCtl = true
				}
			case token.GTR:
				if k == 0x7E {
					highAscii = true
				}
			case token.GEQ:
				if k == 0x7F || k == 0x80 {
					highAscii = true
				}
			case token.EQL:
				chars[k] = true
			}
		})
		if lowCtl && highAscii && chars['&'] && chars['<'] && chars['>'] && chars['"'] && chars['\''] {
			return true
		}
	}
	return false
}


// sanitisedValue: v is the result of an encoding/xml escaper on every path — directly, as a phi of
// such values, or read out of a map (a per-render cache of escaped texts) into which only such
// values are ever put and which is created for the purpose (a fresh map here or at every caller).
func sanitisedValue(p *Program, v ssa.Value, visiting map[ssa.Value]bool) bool {
	v = stripConv(v)
	if visiting[v] {
		return true
	}
	visiting[v] = true
	switch x := v.(type) {
	case *ssa.Call:
		return isXMLSanitiser(p, staticCallee(x))
	case *ssa.Phi:
		for _, e := range x.Edges {
			if !sanitisedValue(p, e, visiting) {
				return false
			}
		}
		return len(x.Edges) > 0
	case *ssa.Extract:
		if lk, ok := x.Tuple.(*ssa.Lookup); ok && x.Index == 0 {
			return sanitisedMap(p, lk.X, visiting)
		}
	case *ssa.Lookup:
		return sanitisedMap(p, x.X, visiting)
	}
	return false
}

func sanitisedMap(p *Program, m ssa.Value, visiting map[ssa.Value]bool) bool {
	fn := m.Parent()
	if fn == nil {
		return false
	}
	okAll, n := true, 0
	allInstrs(fn, func(in ssa.Instruction) {
		if mu, ok := in.(*ssa.MapUpdate); ok && mu.Map == m {
			n++
			if !sanitisedValue(p, mu.Value, visiting) {
				okAll = false
			}
		}
	})
	if !okAll {
		return false
	}
	switch x := m.(type) {
	case *ssa.MakeMap:
		return n > 0
	case *ssa.Parameter:
		pi := paramIndex(fn, x)
		sites := staticCallSites(p, fn)
		if len(sites) == 0 || pi < 0 {
			return false
		}
		for _, cs := range sites {
			if pi >= len(cs.Common().Args) {
				return false
			}
			a := cs.Common().Args[pi]
			mk, isMk := a.(*ssa.MakeMap)
			if !isMk {
				// a local that holds a fresh map and is only handed on
				if ld, ok := a.(*ssa.UnOp); ok {
					if al, ok := ld.X.(*ssa.Alloc); ok && al.Referrers() != nil {
						for _, u := range *al.Referrers() {
							if st, ok := u.(*ssa.Store); ok && st.Addr == ssa.Value(al) {
								mk, isMk = st.Val.(*ssa.MakeMap)
							}
						}
					}
				}
			}
			if !isMk || mk == nil {
				return false
			}
			// the caller itself puts nothing into it
			bad := false
			allInstrs(cs.Parent(), func(in ssa.Instruction) {
				if mu, ok := in.(*ssa.MapUpdate); ok && mu.Map == ssa.Value(mk) {
					bad = true
				}
			})
			if bad {
				return false
			}
		}
		return n > 0
	}
	return false
}
