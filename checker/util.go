package main

import (
	"go/constant"
	"go/token"
	"go/types"
	"reflect"
	"sort"
	"strings"

	"golang.org/x/tools/go/ssa"
)

type ssaFunc = ssa.Function

// ---------- struct schema (A9) ----------

type XMLTag struct {
	Raw      string
	Name     string // full name as written, e.g. "w:val"
	Local    string // after the "prefix:" convention
	Attr     bool
	CharData bool
	InnerXML bool
	Omit     bool
	Skip     bool // "-" or no xml tag
	Any      bool
}

func parseXMLTag(tag string) XMLTag {
	st := reflect.StructTag(tag)
	v, ok := st.Lookup("xml")
	t := XMLTag{Raw: v}
	if !ok {
		t.Skip = true
		return t
	}
	if v == "-" {
		t.Skip = true
		return t
	}
	parts := strings.Split(v, ",")
	t.Name = parts[0]
	for _, f := range parts[1:] {
		switch f {
		case "attr":
			t.Attr = true
		case "chardata":
			t.CharData = true
		case "innerxml":
			t.InnerXML = true
		case "omitempty":
			t.Omit = true
		case "any":
			t.Any = true
		}
	}
	// encoding/xml: "space name" form
	if i := strings.LastIndex(t.Name, " "); i >= 0 {
		t.Name = t.Name[i+1:]
	}
	t.Local = t.Name
	if i := strings.LastIndex(t.Local, ":"); i >= 0 {
		t.Local = t.Local[i+1:]
	}
	// parent>child paths: use last
	if i := strings.LastIndex(t.Local, ">"); i >= 0 {
		t.Local = t.Local[i+1:]
	}
	return t
}

// structOf returns the struct underlying t (through pointers, slices, arrays) and its named type.
func structOf(t types.Type) (*types.Named, *types.Struct) {
	for {
		switch u := t.Underlying().(type) {
		case *types.Pointer:
			t = u.Elem()
			continue
		case *types.Slice:
			t = u.Elem()
			continue
		case *types.Array:
			t = u.Elem()
			continue
		}
		break
	}
	n, _ := t.(*types.Named)
	s, _ := t.Underlying().(*types.Struct)
	return n, s
}

// ---------- SSA helpers ----------

// fieldOfAddr: if v is &X.F returns the field var and base X.
func fieldOfAddr(v ssa.Value) (*types.Var, ssa.Value) {
	if fa, ok := v.(*ssa.FieldAddr); ok {
		st, _ := derefType(fa.X.Type()).Underlying().(*types.Struct)
		if st == nil {
			return nil, nil
		}
		return st.Field(fa.Field), fa.X
	}
	return nil, nil
}

// fieldOfVal: if v is X.F (value struct) returns the field var and base X.
func fieldOfVal(v ssa.Value) (*types.Var, ssa.Value) {
	if f, ok := v.(*ssa.Field); ok {
		st, _ := f.X.Type().Underlying().(*types.Struct)
		if st == nil {
			return nil, nil
		}
		return st.Field(f.Field), f.X
	}
	return nil, nil
}

// addrChain lists the fields along an address expression, innermost last:
// &a.B.C[i].D → [B, C, D]; also returns the root value.
func addrChain(v ssa.Value) (fields []*types.Var, root ssa.Value) {
	for depth := 0; depth < 32; depth++ {
		switch x := v.(type) {
		case *ssa.FieldAddr:
			f, base := fieldOfAddr(x)
			fields = append([]*types.Var{f}, fields...)
			v = base
		case *ssa.IndexAddr:
			v = x.X
		case *ssa.UnOp:
			if x.Op == token.MUL {
				v = x.X
			} else {
				return fields, v
			}
		case *ssa.Field:
			f, base := fieldOfVal(x)
			fields = append([]*types.Var{f}, fields...)
			v = base
		case *ssa.Index:
			v = x.X
		case *ssa.ChangeType:
			v = x.X
		case *ssa.Call:
			// a getter of the module that hands out one of its receiver's fields
			// (rels := d.ensureDocumentRelationships(); rels.Relationships = …): continue at the argument
			// with the getter's field chain in front
			if pre, arg, ok := getterChain(x); ok && depth < 24 {
				fields = append(append([]*types.Var{}, pre...), fields...)
				v = arg
				continue
			}
			return fields, v
		default:
			return fields, v
		}
	}
	return fields, v
}

var getterChainMemo = map[*ssa.Function]struct {
	chain []*types.Var
	param int
	ok    bool
}{}

// getterChain: the call's callee is a module function every return of which is the (loaded) value
// of the same field chain of one of its parameters: `return d.documentRelationships`.  Returns
// that chain and the corresponding argument of the call.
func getterChain(c *ssa.Call) ([]*types.Var, ssa.Value, bool) {
	cal := c.Call.StaticCallee()
	if cal == nil || cal.Pkg == nil || !strings.HasPrefix(cal.Pkg.Pkg.Path(), modPath) || len(cal.Blocks) == 0 || cal.Signature.Results().Len() != 1 {
		return nil, nil, false
	}
	m, done := getterChainMemo[cal]
	if !done {
		getterChainMemo[cal] = m // breaks recursion
		var chain []*types.Var
		param := -1
		ok := true
		n := 0
		for _, b := range cal.Blocks {
			for _, in := range b.Instrs {
				ret, isRet := in.(*ssa.Return)
				if !isRet {
					continue
				}
				n++
				ld, isLd := ret.Results[0].(*ssa.UnOp)
				if !isLd || ld.Op != token.MUL {
					ok = false
					continue
				}
				if _, isFA := ld.X.(*ssa.FieldAddr); !isFA {
					ok = false
					continue
				}
				ch, root := addrChain(ld.X)
				par, isPar := root.(*ssa.Parameter)
				if !isPar || len(ch) == 0 {
					ok = false
					continue
				}
				pi := -1
				for i, q := range cal.Params {
					if q == par {
						pi = i
					}
				}
				if chain == nil {
					chain, param = ch, pi
				} else if param != pi || len(chain) != len(ch) {
					ok = false
				} else {
					for i := range ch {
						if ch[i] != chain[i] {
							ok = false
						}
					}
				}
			}
		}
		m.chain, m.param, m.ok = chain, param, ok && n > 0 && param >= 0
		getterChainMemo[cal] = m
	}
	if !m.ok || m.param >= len(c.Call.Args) {
		return nil, nil, false
	}
	return m.chain, c.Call.Args[m.param], true
}

// valueChain: for a loaded value expression like *(&a.B.C) or a.B.C, the field chain.
func valueChain(v ssa.Value) (fields []*types.Var, root ssa.Value) {
	return addrChain(v)
}

// constString returns the constant string value of v.
func constString(v ssa.Value) (string, bool) {
	c, ok := v.(*ssa.Const)
	if !ok || c.Value == nil || c.Value.Kind() != constant.String {
		return "", false
	}
	return constant.StringVal(c.Value), true
}

func constInt(v ssa.Value) (int64, bool) {
	c, ok := v.(*ssa.Const)
	if !ok || c.Value == nil || c.Value.Kind() != constant.Int {
		return 0, false
	}
	i, ok := constant.Int64Val(c.Value)
	return i, ok
}

// domSubtree returns the set of blocks dominated by b (inclusive).
func domSubtree(b *ssa.BasicBlock) map[*ssa.BasicBlock]bool {
	m := map[*ssa.BasicBlock]bool{}
	var walk func(x *ssa.BasicBlock)
	walk = func(x *ssa.BasicBlock) {
		m[x] = true
		for _, d := range x.Dominees() {
			walk(d)
		}
	}
	walk(b)
	return m
}

// StrCmp is a comparison of some value against a constant string that guards a region.
type StrCmp struct {
	Operand ssa.Value // the non-constant side
	Const   string
	If      *ssa.If
	Region  map[*ssa.BasicBlock]bool // blocks executed only when equal
	Block   *ssa.BasicBlock
}

// strCompares finds all `v == "const"` / `v != "const"` branch conditions in fn.
func strCompares(fn *ssa.Function) []StrCmp {
	var out []StrCmp
	for _, b := range fn.Blocks {
		if len(b.Instrs) == 0 {
			continue
		}
		iff, ok := b.Instrs[len(b.Instrs)-1].(*ssa.If)
		if !ok {
			continue
		}
		bin, ok := iff.Cond.(*ssa.BinOp)
		if !ok || (bin.Op != token.EQL && bin.Op != token.NEQ) {
			continue
		}
		var operand ssa.Value
		var cs string
		if s, ok := constString(bin.Y); ok {
			operand, cs = bin.X, s
		} else if s, ok := constString(bin.X); ok {
			operand, cs = bin.Y, s
		} else {
			continue
		}
		succ := b.Succs[0]
		if bin.Op == token.NEQ {
			succ = b.Succs[1]
		}
		// the successor must not be reachable without passing the test being true:
		// require that every predecessor of succ is either b or a block ending in an
		// equality test with succ as its true-successor (multi-constant case) or is
		// dominated by succ (loop back edges inside the region).
		out = append(out, StrCmp{Operand: operand, Const: cs, If: iff, Region: domSubtree(succ), Block: b})
	}
	return out
}

// isFieldPath reports whether v is <base of type baseType>.f1.f2... (value or address form)
// and returns the base value.
func isFieldPath(v ssa.Value, names ...string) (ssa.Value, bool) {
	chain, root := addrChain(v)
	if len(chain) < len(names) {
		return nil, false
	}
	tail := chain[len(chain)-len(names):]
	for i, n := range names {
		if tail[i] == nil || tail[i].Name() != n {
			return nil, false
		}
	}
	if len(chain) == len(names) {
		return root, true
	}
	// base is an inner field; re-walk to find the value just before the tail
	return baseBefore(v, len(names)), true
}

// baseBefore strips n field selections from v and returns what remains.
func baseBefore(v ssa.Value, n int) ssa.Value {
	for n > 0 {
		switch x := v.(type) {
		case *ssa.FieldAddr:
			v = x.X
			n--
		case *ssa.Field:
			v = x.X
			n--
		case *ssa.UnOp:
			v = x.X
		case *ssa.IndexAddr:
			v = x.X
		case *ssa.Index:
			v = x.X
		case *ssa.ChangeType:
			v = x.X
		default:
			return v
		}
	}
	return v
}

// stripLoads removes load/ChangeType wrappers.
func stripLoads(v ssa.Value) ssa.Value {
	for {
		switch x := v.(type) {
		case *ssa.UnOp:
			if x.Op == token.MUL {
				v = x.X
				continue
			}
		case *ssa.ChangeType:
			v = x.X
			continue
		}
		return v
	}
}

// sameBase: two values denote the same variable (same SSA value after stripping loads,
// or loads of the same Alloc).
func sameBase(a, b ssa.Value) bool {
	a, b = stripLoads(a), stripLoads(b)
	return a == b
}

// allInstrs iterates over all instructions of fn.
func allInstrs(fn *ssa.Function, f func(ssa.Instruction)) {
	for _, b := range fn.Blocks {
		for _, in := range b.Instrs {
			f(in)
		}
	}
}

// withClosures returns fn and all anonymous functions nested in it.
func withClosures(fn *ssa.Function) []*ssa.Function {
	out := []*ssa.Function{fn}
	for _, a := range fn.AnonFuncs {
		out = append(out, withClosures(a)...)
	}
	return out
}

// staticReach returns all module functions reachable from roots via static calls
// and closure creation.
func (p *Program) staticReach(roots ...*ssa.Function) map[*ssa.Function]bool {
	seen := map[*ssa.Function]bool{}
	var work []*ssa.Function
	push := func(f *ssa.Function) {
		if f != nil && !seen[f] && p.inModule(f) {
			seen[f] = true
			work = append(work, f)
		}
	}
	for _, r := range roots {
		push(r)
	}
	for len(work) > 0 {
		f := work[len(work)-1]
		work = work[:len(work)-1]
		allInstrs(f, func(in ssa.Instruction) {
			switch x := in.(type) {
			case ssa.CallInstruction:
				push(staticCallee(x))
				// closures / method values passed as arguments
				for _, a := range x.Common().Args {
					if mc, ok := a.(*ssa.MakeClosure); ok {
						push(mc.Fn.(*ssa.Function))
					}
				}
			case *ssa.MakeClosure:
				push(x.Fn.(*ssa.Function))
			}
			// function literals without captured variables are plain *ssa.Function operands
			for _, op := range in.Operands(nil) {
				if f, ok := (*op).(*ssa.Function); ok {
					push(f)
				}
			}
		})
	}
	return seen
}

// cgReach returns all module functions reachable from roots in the VTA call graph
// (plus closure creation edges).
func (p *Program) cgReach(roots ...*ssa.Function) map[*ssa.Function]bool {
	cg := p.CallGraph()
	seen := map[*ssa.Function]bool{}
	var work []*ssa.Function
	push := func(f *ssa.Function) {
		if f != nil && !seen[f] && p.inModule(f) {
			seen[f] = true
			work = append(work, f)
		}
	}
	for _, r := range roots {
		push(r)
	}
	for len(work) > 0 {
		f := work[len(work)-1]
		work = work[:len(work)-1]
		if n := cg.Nodes[f]; n != nil {
			for _, e := range n.Out {
				push(e.Callee.Func)
			}
		}
		allInstrs(f, func(in ssa.Instruction) {
			if mc, ok := in.(*ssa.MakeClosure); ok {
				push(mc.Fn.(*ssa.Function))
			}
			if c, ok := in.(ssa.CallInstruction); ok {
				push(staticCallee(c))
			}
			for _, op := range in.Operands(nil) {
				if f, ok := (*op).(*ssa.Function); ok {
					push(f)
				}
			}
		})
	}
	return seen
}

// exportedAPI returns exported functions and exported methods of exported types of pkg.
func (p *Program) exportedAPI(pkgPaths ...string) []*ssa.Function {
	var out []*ssa.Function
	for _, pp := range pkgPaths {
		sp := p.SSAPkg[pp]
		if sp == nil {
			continue
		}
		for _, m := range sp.Members {
			switch x := m.(type) {
			case *ssa.Function:
				if x.Object() != nil && x.Object().Exported() {
					out = append(out, x)
				}
			case *ssa.Type:
				if !x.Object().Exported() {
					continue
				}
				for _, t := range []types.Type{x.Type(), types.NewPointer(x.Type())} {
					ms := p.SSA.MethodSets.MethodSet(t)
					for i := 0; i < ms.Len(); i++ {
						sel := ms.At(i)
						if !sel.Obj().Exported() {
							continue
						}
						if f := p.SSA.MethodValue(sel); f != nil && p.inModule(f) {
							out = append(out, f)
						}
					}
				}
			}
		}
	}
	seen := map[*ssa.Function]bool{}
	var res []*ssa.Function
	for _, f := range out {
		if !seen[f] {
			seen[f] = true
			res = append(res, f)
		}
	}
	sort.Slice(res, func(i, j int) bool { return res[i].String() < res[j].String() })
	return res
}

// reachableBlocks: blocks reachable from `from` without entering any block in `cut`.
func reachableBlocks(from *ssa.BasicBlock, cut map[*ssa.BasicBlock]bool) map[*ssa.BasicBlock]bool {
	seen := map[*ssa.BasicBlock]bool{}
	var walk func(b *ssa.BasicBlock)
	walk = func(b *ssa.BasicBlock) {
		if seen[b] || cut[b] {
			return
		}
		seen[b] = true
		for _, s := range b.Succs {
			walk(s)
		}
	}
	walk(from)
	return seen
}

// referrersClosure: forward def-use closure of v (through phis, loads, conversions,
// stores into local allocs, slices of local arrays).
func forwardFlow(v ssa.Value, follow func(ssa.Instruction) bool) map[ssa.Instruction]bool {
	seen := map[ssa.Instruction]bool{}
	seenV := map[ssa.Value]bool{}
	var walk func(v ssa.Value)
	walk = func(v ssa.Value) {
		if v == nil || seenV[v] {
			return
		}
		seenV[v] = true
		refs := v.Referrers()
		if refs == nil {
			return
		}
		for _, in := range *refs {
			if seen[in] {
				continue
			}
			seen[in] = true
			if follow != nil && !follow(in) {
				continue
			}
			switch x := in.(type) {
			case *ssa.Store:
				if x.Val == v {
					// value stored somewhere: follow the base allocation (local var / varargs array)
					base := x.Addr
					for {
						switch a := base.(type) {
						case *ssa.IndexAddr:
							base = a.X
							continue
						case *ssa.FieldAddr:
							base = a.X
							continue
						}
						break
					}
					if al, ok := base.(*ssa.Alloc); ok {
						// only temporaries (varargs / literal backing arrays), not whole objects
						if _, isArr := derefType(al.Type()).Underlying().(*types.Array); isArr {
							walk(al)
						}
					}
				}
			case ssa.Value:
				walk(x)
			}
		}
	}
	walk(v)
	return seen
}

// returnsOf lists the Return instructions of fn.
func returnsOf(fn *ssa.Function) []*ssa.Return {
	var rs []*ssa.Return
	allInstrs(fn, func(in ssa.Instruction) {
		if r, ok := in.(*ssa.Return); ok {
			rs = append(rs, r)
		}
	})
	return rs
}

// isNilConst reports whether v is the nil constant.
func isNilConst(v ssa.Value) bool {
	c, ok := v.(*ssa.Const)
	return ok && c.Value == nil
}

// errorResultIndex returns the index of the last result of type error, or -1.
func errorResultIndex(sig *types.Signature) int {
	rs := sig.Results()
	for i := rs.Len() - 1; i >= 0; i-- {
		if isErrorType(rs.At(i).Type()) {
			return i
		}
	}
	return -1
}

func isErrorType(t types.Type) bool {
	n, ok := t.(*types.Named)
	return ok && n.Obj().Pkg() == nil && n.Obj().Name() == "error"
}

// retResult resolves the i-th result of a Return, looking through the result spill that
// go/ssa introduces in functions with defers (`*t0 = v; rundefers; t = *t0; return t`).
func retResult(ret *ssa.Return, i int) ssa.Value {
	v := ret.Results[i]
	u, ok := v.(*ssa.UnOp)
	if !ok || u.Op != token.MUL {
		return v
	}
	al, ok := u.X.(*ssa.Alloc)
	if !ok {
		return v
	}
	instrs := ret.Block().Instrs
	for k := len(instrs) - 1; k >= 0; k-- {
		if st, ok := instrs[k].(*ssa.Store); ok && st.Addr == ssa.Value(al) {
			return st.Val
		}
	}
	return v
}
