package main

import (
	"fmt"
	"go/constant"
	"go/token"
	"go/types"
	"sort"
	"strings"

	"golang.org/x/tools/go/ssa"
)

// ---------------------------------------------------------------------------
// small integer range evaluation
// ---------------------------------------------------------------------------

// intRange returns the closed interval of an integer SSA value if it can be bounded:
// constants, ± constants, counted-loop phis, and parameters compared against constants.
func intRange(v ssa.Value, depth int) (lo, hi int64, ok bool) {
	if depth > 6 {
		return 0, 0, false
	}
	switch x := v.(type) {
	case *ssa.Const:
		if c, ok := constInt(x); ok {
			return c, c, true
		}
	case *ssa.Convert:
		return intRange(x.X, depth+1)
	case *ssa.ChangeType:
		return intRange(x.X, depth+1)
	case *ssa.BinOp:
		if c, ok := constInt(x.Y); ok {
			l, h, ok2 := intRange(x.X, depth+1)
			if ok2 {
				switch x.Op {
				case token.ADD:
					return l + c, h + c, true
				case token.SUB:
					return l - c, h - c, true
				}
			}
		}
		if c, ok := constInt(x.X); ok && x.Op == token.ADD {
			l, h, ok2 := intRange(x.Y, depth+1)
			if ok2 {
				return l + c, h + c, true
			}
		}
	case *ssa.Phi:
		// counted loop: phi [c0, phi+1] with header test phi <= K or phi < K
		var init *int64
		step := false
		for _, e := range x.Edges {
			if c, ok := constInt(e); ok {
				cc := c
				init = &cc
			} else if bo, ok := e.(*ssa.BinOp); ok && bo.Op == token.ADD && bo.X == ssa.Value(x) {
				if one, ok := constInt(bo.Y); ok && one == 1 {
					step = true
				}
			}
		}
		if init != nil && step {
			b := x.Block()
			if iff, ok := b.Instrs[len(b.Instrs)-1].(*ssa.If); ok {
				if cmp, ok := iff.Cond.(*ssa.BinOp); ok && cmp.X == ssa.Value(x) {
					if k, ok := constInt(cmp.Y); ok {
						switch cmp.Op {
						case token.LEQ:
							return *init, k, true
						case token.LSS:
							return *init, k - 1, true
						}
					}
				}
			}
		}
		// clamp idiom: phi(param, const) where param is range-checked
		var rs [][2]int64
		for _, e := range x.Edges {
			l, h, ok := intRange(e, depth+1)
			if !ok {
				return 0, 0, false
			}
			rs = append(rs, [2]int64{l, h})
		}
		if len(rs) > 0 {
			lo, hi = rs[0][0], rs[0][1]
			for _, r := range rs[1:] {
				if r[0] < lo {
					lo = r[0]
				}
				if r[1] > hi {
					hi = r[1]
				}
			}
			return lo, hi, true
		}
	case *ssa.Parameter:
		// compared against constants somewhere in the function: [min, max] of those bounds
		var los, his []int64
		if refs := x.Referrers(); refs != nil {
			for _, in := range *refs {
				bo, ok := in.(*ssa.BinOp)
				if !ok || bo.X != ssa.Value(x) {
					continue
				}
				c, ok := constInt(bo.Y)
				if !ok {
					continue
				}
				switch bo.Op {
				case token.LSS: // x < c  (reject below c)
					los = append(los, c)
				case token.LEQ:
					los = append(los, c+1)
				case token.GTR: // x > c  (reject above c)
					his = append(his, c)
				case token.GEQ:
					his = append(his, c-1)
				}
			}
		}
		if len(los) > 0 && len(his) > 0 {
			sort.Slice(los, func(i, j int) bool { return los[i] < los[j] })
			sort.Slice(his, func(i, j int) bool { return his[i] > his[j] })
			return los[0], his[0], true
		}
	}
	return 0, 0, false
}

// expandSym expands a symbolic string into concrete strings when all symbolic parts are bounded
// integers; unbounded integer parts are expanded over `deflt`.
func expandSym(s symString, deflt [2]int64) (out []string, assumed bool, ok bool) {
	out = []string{""}
	for _, part := range s.norm() {
		if part.Sym == nil {
			for i := range out {
				out[i] += part.Const
			}
			continue
		}
		b, isBasic := part.Sym.Type().Underlying().(*types.Basic)
		if !isBasic || b.Info()&types.IsInteger == 0 {
			return nil, false, false
		}
		lo, hi, okR := intRange(part.Sym, 0)
		if !okR {
			// value + const with unknown base: shift the default domain
			base, shift := part.Sym, int64(0)
			if bo, ok := base.(*ssa.BinOp); ok && bo.Op == token.ADD {
				if c, ok := constInt(bo.X); ok {
					shift, base = c, bo.Y
				} else if c, ok := constInt(bo.Y); ok {
					shift, base = c, bo.X
				}
			}
			_ = base
			lo, hi = deflt[0]+shift, deflt[1]+shift
			assumed = true
		}
		if hi-lo > 64 {
			return nil, false, false
		}
		var next []string
		for _, pre := range out {
			for k := lo; k <= hi; k++ {
				next = append(next, fmt.Sprintf("%s%d", pre, k))
			}
		}
		out = next
	}
	return out, assumed, true
}

// ---------------------------------------------------------------------------
// R-STYLE-ID (C13, C19)
// ---------------------------------------------------------------------------

// registeredStyleIDs: constant (or loop-expanded) values stored into style.Style.StyleID in
// functions reachable from style.NewStyleManager.
func registeredStyleIDs(p *Program) (map[string]token.Pos, bool) {
	root := p.Func(pkgSty, "NewStyleManager")
	if root == nil {
		return nil, false
	}
	ids := map[string]token.Pos{}
	for fn := range p.staticReach(root) {
		allInstrs(fn, func(in ssa.Instruction) {
			st, ok := in.(*ssa.Store)
			if !ok {
				return
			}
			fv, _ := fieldOfAddr(st.Addr)
			if !fieldIs(p, fv, pkgSty, "Style", "StyleID") {
				return
			}
			exp, _, ok := expandSym(symOf(st.Val), [2]int64{0, -1})
			if !ok {
				return
			}
			for _, id := range exp {
				ids[id] = st.Pos()
			}
		})
	}
	return ids, true
}

func ruleStyleID(r *Run, onlyPkg string) {
	p := r.P
	reg, ok := registeredStyleIDs(p)
	if !ok {
		r.Unresolved("style.NewStyleManager")
		return
	}
	r.Min("registered_style_ids", len(reg), 20)
	reader := buildReaderModel(p)
	clones := map[*ssa.Function]bool{}
	for _, c := range discoverClones(p, pkgDoc) {
		clones[c.Fn] = true
	}
	levels := [2]int64{1, 9} // heading / TOC levels (documented domain of the API)
	n := 0
	distinct := map[string]bool{} // emitted id patterns (robust to emission sites being merged or split)
	var emit func(fn *ssa.Function, v ssa.Value, pos token.Pos, what string)
	emit = func(fn *ssa.Function, v ssa.Value, pos token.Pos, what string) {
		if ph, ok := v.(*ssa.Phi); ok {
			for _, e := range ph.Edges {
				emit(fn, e, pos, what)
			}
			return
		}
		sym := symOf(v)
		// caller supplied (parameter / field of a parameter): not decided here
		for _, part := range sym.norm() {
			if part.Sym == nil {
				continue
			}
			if _, isInt := part.Sym.Type().Underlying().(*types.Basic); isInt && part.Sym.Type().Underlying().(*types.Basic).Info()&types.IsInteger != 0 {
				continue
			}
			return
		}
		exp, assumed, ok := expandSym(sym, levels)
		if !ok {
			return
		}
		n++
		var missing []string
		for _, id := range exp {
			if _, ok := reg[id]; !ok {
				missing = append(missing, id)
			}
		}
		pat := sym.String()
		for _, part := range sym.norm() {
			if part.Sym != nil {
				pat = strings.ReplaceAll(pat, "⟨"+part.Sym.Name()+"⟩", "%d")
			}
		}
		distinct[pat] = true
		note := ""
		if assumed {
			note = " (integer part expanded over levels 1..9)"
		}
		r.Check("style-id", fmt.Sprintf("%s:%s:%q", shortName(fn), what, pat), pos, len(missing) == 0,
			fmt.Sprintf("%s emits style id %q%s into %s; ids not defined by style.NewStyleManager(): %v — a reference to an undefined style in every saved package that uses this helper", shortName(fn), pat, note, what, missing))
	}
	// only code a user of the library can reach: an id emitted by a function nobody calls cannot
	// end up in a saved package
	live := p.cgReach(p.exportedAPI(pkgDoc, pkgSty, pkgMd)...)
	dead := 0
	for _, fn := range p.ModFuncs() {
		if fn.Pkg == nil || reader.IsReader[fn] || clones[topLevel(fn)] {
			continue
		}
		if onlyPkg != "" && fn.Pkg.Pkg.Path() != onlyPkg {
			continue
		}
		if fn.Pkg.Pkg.Path() == pkgSty {
			continue
		}
		if !live[topLevel(fn)] {
			dead++
			continue
		}
		allInstrs(fn, func(in ssa.Instruction) {
			switch x := in.(type) {
			case *ssa.Store:
				fv, _ := fieldOfAddr(x.Addr)
				if fieldIs(p, fv, pkgDoc, "ParagraphStyle", "Val") {
					emit(fn, x.Val, x.Pos(), "w:pStyle")
				} else if fieldIs(p, fv, pkgDoc, "TableStyle", "Val") {
					emit(fn, x.Val, x.Pos(), "w:tblStyle")
				}
			case *ssa.Call:
				// calls of a setter whose parameter flows into ParagraphStyle.Val
				cal := staticCallee(x)
				if cal == nil || !p.inModule(cal) {
					return
				}
				for pi := range styleParamIdx(p, cal) {
					if pi < len(x.Call.Args) {
						emit(fn, x.Call.Args[pi], x.Pos(), "w:pStyle(via "+cal.Name()+")")
					}
				}
			}
		})
	}
	// exported constants of a style-template type are ids the API invites callers to use
	if onlyPkg == "" || onlyPkg == pkgDoc {
		sc := p.Pkgs[pkgDoc].Types.Scope()
		for _, name := range sc.Names() {
			c, ok := sc.Lookup(name).(*types.Const)
			if !ok || !c.Exported() {
				continue
			}
			nt, ok := c.Type().(*types.Named)
			if !ok || nt.Obj().Name() != "TableStyleTemplate" {
				continue
			}
			if c.Val().Kind() != constant.String {
				continue
			}
			id := constant.StringVal(c.Val())
			n++
			distinct[id] = true
			_, def := reg[id]
			r.Check("style-id", "const:"+name, c.Pos(), def,
				fmt.Sprintf("exported table style template constant %s = %q is written to w:tblStyle by ApplyTableStyle but no style with that id is defined in the styles part the library generates", name, id))
		}
	}
	r.Count("functions_unreachable_from_api_skipped", dead)
	r.Count("style_id_emission_sites", n)
	r.Min("style_id_emissions", len(distinct), 2)
}

var styleParamCache = map[*ssa.Function]map[int]bool{}

// styleParamIdx: parameters of fn that are stored into ParagraphStyle.Val / TableStyle.Val.
func styleParamIdx(p *Program, fn *ssa.Function) map[int]bool {
	if m, ok := styleParamCache[fn]; ok {
		return m
	}
	m := map[int]bool{}
	allInstrs(fn, func(in ssa.Instruction) {
		st, ok := in.(*ssa.Store)
		if !ok {
			return
		}
		fv, _ := fieldOfAddr(st.Addr)
		if fieldIs(p, fv, pkgDoc, "ParagraphStyle", "Val") || fieldIs(p, fv, pkgDoc, "TableStyle", "Val") {
			if pi := paramIndex(fn, stripConv(st.Val)); pi >= 0 {
				m[pi] = true
			}
		}
	})
	styleParamCache[fn] = m
	return m
}

// ---------------------------------------------------------------------------
// R-PART-DEP (C13): regenerated parts depend on what they replace / on the registry.
// ---------------------------------------------------------------------------

func funcSet(fs []*ssa.Function) map[*ssa.Function]bool {
	m := map[*ssa.Function]bool{}
	for _, f := range fs {
		m[f] = true
	}
	return m
}

func rulePartDep(r *Run) {
	p := r.P
	sl := newSlicer(p)
	// (a) styles: on every nil-error path of serializeStyles the styles part is (re)written from the registry
	if fn := r.mustFunc(pkgDoc, "(*Document).serializeStyles"); fn != nil {
		var writes []ssa.Instruction
		allInstrs(fn, func(in ssa.Instruction) {
			mu, ok := in.(*ssa.MapUpdate)
			if !ok {
				return
			}
			if k, ok := symOf(mu.Key).isConst(); !ok || k != "word/styles.xml" {
				return
			}
			res := sl.Slice(mu.Value)
			if res.readsField(p, pkgDoc, "Document", "styleManager") {
				writes = append(writes, mu)
			}
		})
		ok := len(writes) > 0
		for _, ret := range returnsOf(fn) {
			if isNilConst(retResult(ret, 0)) && !mustPassThrough(fn, ret, writes) {
				ok = false
			}
		}
		r.Check("part-dep", "word/styles.xml", fn.Pos(), ok,
			"serializeStyles must (re)generate word/styles.xml from the style registry on every successful path; it returns early when the part already exists (always after the first save or after Open), so styles added or changed through the style API are silently not written")
	}
	// (a') Open tolerates a styles part it cannot load (the registry is then replaced by the
	// predefined set), so the registry is not a complete description of an opened document's
	// styles: overwriting an EXISTING styles part with content that does not depend on that part
	// loses the document's own definitions, which its body still refers to.
	if fn := p.Func(pkgDoc, "(*Document).serializeStyles"); fn != nil {
		tolerant, tolPos := openToleratesStyleFailure(p)
		allInstrs(fn, func(in ssa.Instruction) {
			mu, ok := in.(*ssa.MapUpdate)
			if !ok {
				return
			}
			if k, ok := symOf(mu.Key).isConst(); !ok || k != "word/styles.xml" {
				return
			}
			// can the store be reached while the part is present?  Conditions are evaluated under the
			// assumption "the look-up of this key succeeds with a non-empty value" (three-valued,
			// through && / || phis and through boolean helper functions)
			pe := &presentEval{key: "word/styles.xml"}
			seen := map[*ssa.BasicBlock]bool{}
			var walk func(b *ssa.BasicBlock)
			walk = func(b *ssa.BasicBlock) {
				if seen[b] {
					return
				}
				seen[b] = true
				for i, sc := range b.Succs {
					if pe.edgeFeasible(b, i) {
						walk(sc)
					}
				}
			}
			walk(fn.Blocks[0])
			if !seen[mu.Block()] {
				r.Check("part-dep", "word/styles.xml:keeps-existing", mu.Pos(), true, "serializeStyles never overwrites a styles part that is already there")
				return
			}
			dsl := newSlicer(p)
			dsl.dataOnly = true
			res := dsl.Slice(mu.Value)
			merges := false
			for v := range res.Vals {
				if lk, ok := v.(*ssa.Lookup); ok {
					if k, ok := symOf(lk.Index).isConst(); ok && k == "word/styles.xml" {
						merges = true
					}
				}
			}
			okc := merges || !tolerant
			r.Check("part-dep", "word/styles.xml:keeps-existing", mu.Pos(), okc,
				fmt.Sprintf("serializeStyles can overwrite an existing word/styles.xml with content that does not depend on it, while Open accepts packages whose styles it could not load (%s: the registry is replaced by the predefined set): for such a document the regenerated part lacks the styles its body uses", tolPos))
		})
	}
	// (b) numbering: the regenerated numbering part depends on the existing part or a per-document registry
	if fn := r.mustFunc(pkgDoc, "(*Document).updateNumberingFile"); fn != nil {
		found := false
		// the store itself, or the store made by a helper the function hands the bytes to
		// (storeNumberingPart(data), shared with the initialisation)
		var scope []*ssa.Function
		scope = append(scope, fn)
		for g := range p.staticReach(fn) {
			if g != fn && g.Pkg != nil && g.Pkg.Pkg.Path() == pkgDoc {
				scope = append(scope, g)
			}
		}
		forEachInstr(sortedFuncs(funcSet(scope)), func(in ssa.Instruction) {
			mu, ok := in.(*ssa.MapUpdate)
			if !ok {
				return
			}
			if k, ok := symOf(mu.Key).isConst(); !ok || k != "word/numbering.xml" {
				return
			}
			found = true
			res := sl.SliceFrom(mu.Value, fn)
			dep := false
			for v := range res.Vals {
				// reads the old part, or any per-document state
				if lk, ok := v.(*ssa.Lookup); ok {
					if ch, _ := addrChain(lk.X); len(ch) > 0 && fieldIs(p, ch[len(ch)-1], pkgDoc, "Document", "parts") {
						dep = true
					}
				}
				if fa, ok := v.(*ssa.FieldAddr); ok {
					if fv, base := fieldOfAddr(fa); fv != nil && typeIs(base.Type(), pkgDoc, "Document") && fv.Name() != "parts" {
						dep = true
					}
				}
			}
			r.Check("part-dep", "word/numbering.xml", mu.Pos(), dep,
				"updateNumberingFile overwrites word/numbering.xml with definitions taken only from the process-wide registry: the numbering definitions an opened document already carries (and its paragraphs refer to) are replaced by definitions from elsewhere")
		})
		if !found {
			r.Unresolved("store of word/numbering.xml in updateNumberingFile")
		}
	}
	// (c) C04 side: the existing styles part is never discarded — the store is guarded by an existence test
	if fn := p.Func(pkgDoc, "(*Document).serializeStyles"); fn != nil {
		guarded := false
		forEachInstr(helperGroup(p, fn), func(in ssa.Instruction) {
			// `_, exists := parts[k]` or `len(parts[k]) > 0` / `parts[k] != nil`
			if lk, ok := in.(*ssa.Lookup); ok {
				if k, ok := symOf(lk.Index).isConst(); ok && k == "word/styles.xml" {
					guarded = true
				}
			}
		})
		r.Trivial("part-keep", "word/styles.xml", fn.Pos(), guarded, "an existing styles part (with docDefaults etc.) is looked up before regeneration")
	}
}

// ---------------------------------------------------------------------------
// R-MUST-UPDATE (C13/C15)
// ---------------------------------------------------------------------------

// alwaysCallsNamed: every return of fn is preceded by a call of the function called name, made
// directly or by a callee with the same property (the registration moved into a helper that also
// rewrites the part).
func alwaysCallsNamed(p *Program, fn *ssa.Function, name string, depth int) bool {
	if fn == nil || !p.inModule(fn) || len(fn.Blocks) == 0 || depth > 2 {
		return false
	}
	var calls []ssa.Instruction
	allInstrs(fn, func(in ssa.Instruction) {
		c, ok := in.(*ssa.Call)
		if !ok {
			return
		}
		cal := staticCallee(c)
		if calleeIs(cal, name) || (cal != fn && alwaysCallsNamed(p, cal, name, depth+1)) {
			calls = append(calls, c)
		}
	})
	if len(calls) == 0 {
		return false
	}
	for _, ret := range returnsOf(fn) {
		if !mustPassThrough(fn, ret, calls) {
			return false
		}
	}
	return true
}

func ruleMustUpdate(r *Run) {
	p := r.P
	fn := r.mustFunc(pkgDoc, "(*Document).getOrCreateNumbering")
	if fn == nil {
		return
	}
	var regInst, regAbs, upd []ssa.Instruction
	var instVals []ssa.Value
	allInstrs(fn, func(in ssa.Instruction) {
		switch x := in.(type) {
		case *ssa.MapUpdate:
			ch, _ := addrChain(x.Map)
			if len(ch) > 0 && ch[len(ch)-1].Name() == "numInstances" {
				regInst = append(regInst, x)
				instVals = append(instVals, x.Value)
			}
		case *ssa.Call:
			cal := staticCallee(x)
			if calleeIs(cal, "updateNumberingFile") || alwaysCallsNamed(p, cal, "updateNumberingFile", 0) {
				upd = append(upd, x)
			}
			// a registering helper (manager.registerInstance(numID, abstractNumID)): it stores into the
			// instance registry on every path; what the instance refers to comes in as an argument
			if cal != nil && p.inModule(cal) && len(cal.Blocks) > 0 {
				var stores []ssa.Instruction
				allInstrs(cal, func(in2 ssa.Instruction) {
					if mu, ok := in2.(*ssa.MapUpdate); ok {
						if ch, _ := addrChain(mu.Map); len(ch) > 0 && ch[len(ch)-1] != nil && ch[len(ch)-1].Name() == "numInstances" {
							stores = append(stores, mu)
						}
					}
				})
				if len(stores) > 0 {
					always := true
					for _, ret := range returnsOf(cal) {
						if !mustPassThrough(cal, ret, stores) {
							always = false
						}
					}
					if always {
						regInst = append(regInst, x)
						instVals = append(instVals, x.Call.Args...)
					}
				}
			}
		}
	})
	// the get-or-create of the abstract definition may live in a private helper of this function
	for _, g := range helperGroup(p, fn) {
		allInstrs(g, func(in ssa.Instruction) {
			if x, ok := in.(*ssa.MapUpdate); ok {
				if ch, _ := addrChain(x.Map); len(ch) > 0 && ch[len(ch)-1].Name() == "abstractNums" {
					regAbs = append(regAbs, x)
				}
			}
		})
	}
	for _, ret := range returnsOf(fn) {
		r.Check("must-update", "getOrCreateNumbering:instance", ret.Pos(), mustPassThrough(fn, ret, regInst), "the returned numId is registered as a numbering instance on every path")
		r.Check("must-update", "getOrCreateNumbering:part", ret.Pos(), mustPassThrough(fn, ret, upd), "the numbering part is regenerated on every path before the numId is handed out")
	}
	// the abstract definition is registered whenever it was newly created
	r.Check("must-update", "getOrCreateNumbering:abstract", fn.Pos(), len(regAbs) > 0, "a newly created abstract definition is stored in the registry")
	// the instance refers to the abstract definition found or created in this call
	// (data dependence of the registered instance, through constructor helpers, on a read of
	// AbstractNum.AbstractNumID; no control dependence)
	okRef := false
	sl := newSlicer(p)
	sl.dataOnly = true
	for _, v := range instVals {
		if sl.Slice(v).readsField(p, pkgDoc, "AbstractNum", "AbstractNumID") {
			okRef = true
		}
	}
	r.Check("must-update", "getOrCreateNumbering:reference", fn.Pos(), okRef, "the instance's abstractNumId is read from the abstract definition selected in this call")
}

// ---------------------------------------------------------------------------
// R-MEMO-KEY (C15)
// ---------------------------------------------------------------------------

// fieldsReadThroughParam: fields of struct type T read from parameter pi of fn, transitively.
func fieldsReadThroughParam(p *Program, fn *ssa.Function, pi int, T *types.Named, seen map[string]bool, out map[string]token.Pos) {
	k := fmt.Sprintf("%s#%d", fn.String(), pi)
	if seen[k] || pi >= len(fn.Params) {
		return
	}
	seen[k] = true
	par := ssa.Value(fn.Params[pi])
	allInstrs(fn, func(in ssa.Instruction) {
		switch x := in.(type) {
		case *ssa.FieldAddr:
			fv, base := fieldOfAddr(x)
			if fv != nil && stripLoads(base) == par && fieldOwner(p, fv) == T {
				if _, ok := out[fv.Name()]; !ok {
					out[fv.Name()] = x.Pos()
				}
			}
		case *ssa.Call:
			cal := staticCallee(x)
			if cal == nil || !p.inModule(cal) {
				return
			}
			for ai, a := range x.Call.Args {
				if stripLoads(a) == par {
					fieldsReadThroughParam(p, cal, ai, T, seen, out)
				}
			}
		}
	})
}

func ruleMemoKey(r *Run) {
	p := r.P
	n := 0
	sl := newSlicer(p)
	for _, fn := range p.ModFuncs() {
		if fn.Pkg == nil || fn.Pkg.Pkg.Path() != pkgDoc {
			continue
		}
		// pattern: v, ok := M[K]; if !ok { ...; M[K] = G(..., cfg) }
		evalMemo := func(ctx *ssa.Function, key, val ssa.Value, pos token.Pos, sameMap func(l *ssa.Lookup) bool) {
			// same map looked up with the same key in this function
			var lk *ssa.Lookup
			allInstrs(ctx, func(in2 ssa.Instruction) {
				if l, ok := in2.(*ssa.Lookup); ok && l.CommaOk && l.Index == key && sameMap(l) {
					lk = l
				}
			})
			if lk == nil {
				return
			}
			// the stored value is the result of a module call taking a struct-pointer configuration
			var gen *ssa.Call
			for rt := range rootsOf(val) {
				if c, ok := rt.(*ssa.Call); ok {
					if cal := staticCallee(c); cal != nil && p.inModule(cal) {
						gen = c
					}
				}
			}
			if gen == nil {
				return
			}
			cal := staticCallee(gen)
			for ai, a := range gen.Call.Args {
				T := isModStruct(p, a.Type())
				if T == nil {
					continue
				}
				if _, isPtr := a.Type().Underlying().(*types.Pointer); !isPtr {
					continue
				}
				if ai == 0 && cal.Signature.Recv() != nil {
					continue
				}
				n++
				inputs := map[string]token.Pos{}
				fieldsReadThroughParam(p, cal, ai, T, map[string]bool{}, inputs)
				keyFields := sl.Slice(key).fieldsReadOf(p, map[string]bool{T.Obj().Name(): true})
				var missing []string
				for f := range inputs {
					if !keyFields[T.Obj().Name()+"."+f] {
						missing = append(missing, f)
					}
				}
				sort.Strings(missing)
				var ins []string
				for f := range inputs {
					ins = append(ins, f)
				}
				sort.Strings(ins)
				r.Check("memo-key", shortName(ctx)+":"+cal.Name(), pos, len(missing) == 0,
					fmt.Sprintf("%s memoises %s(%s) under a key built from %v, but the memoised computation also reads %s.%v: two requests that differ only there share one (wrong) definition",
						shortName(ctx), cal.Name(), T.Obj().Name(), keysOf(keyFields), T.Obj().Name(), missing))
			}
		}
		allInstrs(fn, func(in ssa.Instruction) {
			mu, ok := in.(*ssa.MapUpdate)
			if !ok {
				return
			}
			kp, keyIsParam := mu.Key.(*ssa.Parameter)
			vp, valIsParam := mu.Value.(*ssa.Parameter)
			if keyIsParam && valIsParam && fn.Parent() == nil {
				// a registering helper (register(key, value)): the look-up and the computation of the
				// value are at its call sites; the map is identified by its field
				ch, _ := addrChain(mu.Map)
				if len(ch) == 0 || ch[len(ch)-1] == nil {
					return
				}
				mapField := ch[len(ch)-1]
				ki, vi := paramIndex(fn, kp), paramIndex(fn, vp)
				for _, cs := range staticCallSites(p, fn) {
					args := cs.Common().Args
					if ki < 0 || vi < 0 || ki >= len(args) || vi >= len(args) {
						continue
					}
					evalMemo(cs.Parent(), args[ki], args[vi], cs.Pos(), func(l *ssa.Lookup) bool {
						c2, _ := addrChain(l.X)
						return len(c2) > 0 && c2[len(c2)-1] == mapField
					})
				}
				return
			}
			evalMemo(fn, mu.Key, mu.Value, mu.Pos(), func(l *ssa.Lookup) bool { return pathString(l.X) == pathString(mu.Map) })
		})
	}
	r.Min("memoised_definitions", n, 1)
}

// openToleratesStyleFailure: on the Open path the error of the function that loads the styles part
// into the registry is not propagated (the branch taken on failure has no return).
func openToleratesStyleFailure(p *Program) (bool, string) {
	open := p.Func(pkgDoc, "openFromZipReader")
	if open == nil {
		return true, "Open path not resolved"
	}
	tol, where := false, ""
	for _, fn := range sortedFuncs(p.staticReach(open)) {
		if fn.Pkg == nil || fn.Pkg.Pkg.Path() != pkgDoc {
			continue
		}
		allInstrs(fn, func(in ssa.Instruction) {
			c, ok := in.(*ssa.Call)
			if !ok {
				return
			}
			cal := staticCallee(c)
			if cal == nil || !p.inModule(cal) {
				return
			}
			// the styles loader: reaches style.(*StyleManager).LoadStylesFromDocument / ParseStylesFromXML
			loads := false
			for g := range p.staticReach(cal) {
				if g.Pkg != nil && g.Pkg.Pkg.Path() == pkgSty && (calleeIs(g, "ParseStylesFromXML") || calleeIs(g, "LoadStylesFromDocument")) {
					loads = true
				}
			}
			if !loads || failIndex(cal.Signature) < 0 || fn == cal {
				return
			}
			// the error result's non-nil branch
			if c.Referrers() == nil {
				tol, where = true, p.pos(c.Pos())
				return
			}
			handled := false
			for _, u := range *c.Referrers() {
				bo, ok := u.(*ssa.BinOp)
				if !ok || bo.Op != token.NEQ || bo.Referrers() == nil {
					continue
				}
				for _, u2 := range *bo.Referrers() {
					iff, ok := u2.(*ssa.If)
					if !ok {
						continue
					}
					handled = true
					hasRet := false
					for b := range edgeRegion(iff.Block(), iff.Block().Succs[0]) {
						for _, in3 := range b.Instrs {
							if _, ok := in3.(*ssa.Return); ok {
								hasRet = true
							}
						}
					}
					if !hasRet {
						tol, where = true, p.pos(c.Pos())
					}
				}
			}
			if !handled {
				tol, where = true, p.pos(c.Pos())
			}
		})
	}
	return tol, where
}

// presentEval: three-valued evaluation of boolean SSA values under the assumption that the
// comma-ok look-up of `key` in a part map succeeds with a non-empty value.
type presentEval struct {
	key   string
	depth int
}

const (
	pvUnknown = iota
	pvTrue
	pvFalse
)

func (pe *presentEval) isLookup(v ssa.Value, idx int) bool {
	if lk, ok := v.(*ssa.Lookup); ok && !lk.CommaOk && idx == 0 {
		k, isC := symOf(lk.Index).isConst()
		return isC && k == pe.key
	}
	ex, ok := v.(*ssa.Extract)
	if !ok || ex.Index != idx {
		return false
	}
	lk, ok := ex.Tuple.(*ssa.Lookup)
	if !ok || !lk.CommaOk {
		return false
	}
	k, isC := symOf(lk.Index).isConst()
	return isC && k == pe.key
}

func (pe *presentEval) edgeFeasible(from *ssa.BasicBlock, i int) bool {
	if len(from.Instrs) == 0 {
		return true
	}
	iff, ok := from.Instrs[len(from.Instrs)-1].(*ssa.If)
	if !ok {
		return true
	}
	switch pe.eval(iff.Cond, map[ssa.Value]bool{}) {
	case pvTrue:
		return i == 0
	case pvFalse:
		return i == 1
	}
	return true
}

func (pe *presentEval) eval(v ssa.Value, busy map[ssa.Value]bool) int {
	if busy[v] {
		return pvUnknown
	}
	busy[v] = true
	defer delete(busy, v)
	neg := func(x int) int {
		switch x {
		case pvTrue:
			return pvFalse
		case pvFalse:
			return pvTrue
		}
		return pvUnknown
	}
	switch x := v.(type) {
	case *ssa.Const:
		if x.Value != nil {
			switch x.Value.String() {
			case "true":
				return pvTrue
			case "false":
				return pvFalse
			}
		}
	case *ssa.Extract:
		if pe.isLookup(x, 1) {
			return pvTrue
		}
	case *ssa.UnOp:
		if x.Op == token.NOT {
			return neg(pe.eval(x.X, busy))
		}
	case *ssa.BinOp:
		if c, ok := x.X.(*ssa.Call); ok {
			if b, ok := c.Call.Value.(*ssa.Builtin); ok && b.Name() == "len" && pe.isLookup(c.Call.Args[0], 0) {
				if z, isC := constInt(x.Y); isC {
					switch {
					case (x.Op == token.GTR || x.Op == token.NEQ) && z == 0, x.Op == token.GEQ && z == 1:
						return pvTrue
					case (x.Op == token.EQL || x.Op == token.LEQ) && z == 0, x.Op == token.LSS && z == 1:
						return pvFalse
					}
				}
			}
		}
		if isNilConst(x.Y) && pe.isLookup(x.X, 0) {
			if x.Op == token.NEQ {
				return pvTrue
			}
			if x.Op == token.EQL {
				return pvFalse
			}
		}
	case *ssa.Phi:
		res := -1
		for i, e := range x.Edges {
			pr := x.Block().Preds[i]
			feasible := false
			for si, sc := range pr.Succs {
				if sc == x.Block() && pe.edgeFeasible(pr, si) {
					feasible = true
				}
			}
			if !feasible {
				continue
			}
			ev := pe.eval(e, busy)
			if res == -1 {
				res = ev
			} else if res != ev {
				return pvUnknown
			}
		}
		if res >= 0 {
			return res
		}
	case *ssa.Call:
		cal := staticCallee(x)
		if cal == nil || len(cal.Blocks) == 0 || pe.depth > 2 {
			return pvUnknown
		}
		if b, ok := x.Type().Underlying().(*types.Basic); !ok || b.Kind() != types.Bool {
			return pvUnknown
		}
		sub := &presentEval{key: pe.key, depth: pe.depth + 1}
		seen := map[*ssa.BasicBlock]bool{}
		var walk func(b *ssa.BasicBlock)
		walk = func(b *ssa.BasicBlock) {
			if seen[b] {
				return
			}
			seen[b] = true
			for i, sc := range b.Succs {
				if sub.edgeFeasible(b, i) {
					walk(sc)
				}
			}
		}
		walk(cal.Blocks[0])
		res := -1
		for _, ret := range returnsOf(cal) {
			if !seen[ret.Block()] || len(ret.Results) != 1 {
				continue
			}
			ev := sub.eval(ret.Results[0], map[ssa.Value]bool{})
			if res == -1 {
				res = ev
			} else if res != ev {
				return pvUnknown
			}
		}
		if res >= 0 {
			return res
		}
	}
	return pvUnknown
}
