package main

// Rename recovery.  Rules are anchored on type-checked objects, many of them unexported functions
// looked up by name (openFromZipReader, skipElement, getOrCreateNumbering …).  Renaming such a
// function changes no behaviour, so it must not make a check fail.  anchors.json (committed, written
// by `wzcheck -write-anchors` from the tree on which the anchors were confirmed) records for every
// top-level module function its signature and a fingerprint of what its body does (constant
// strings, callees outside the module, struct fields touched).  When a recorded name no longer
// exists, the function with the same signature and the most similar fingerprint — among functions
// whose own name is not a recorded one — takes its place: it is found by Program.Func under the
// old name and fullName/shortName report the old (canonical) name, so keys, tables and known
// findings stay stable.

import (
	"encoding/json"
	"fmt"
	"os"
	"path/filepath"
	"sort"
	"strings"

	"go/types"

	"golang.org/x/tools/go/ssa"
)

type anchorRec struct {
	Pkg   string   `json:"pkg"`
	Name  string   `json:"name"` // "New", "(*Document).Save"
	Sig   string   `json:"sig"`
	Feats []string `json:"feats"`
}

var canonName = map[*ssa.Function]string{} // renamed function → recorded full name
var aliasFunc = map[string]*ssa.Function{} // pkg + "\x00" + recorded lookup name → function
var renameNotes []string

func lookupName(f *ssa.Function) string {
	if f.Signature.Recv() == nil {
		return f.Name()
	}
	rt := f.Signature.Recv().Type()
	ptr := ""
	if p, ok := rt.(*types.Pointer); ok {
		rt = p.Elem()
		ptr = "*"
	}
	n, ok := rt.(*types.Named)
	if !ok {
		return f.Name()
	}
	return "(" + ptr + n.Obj().Name() + ")." + f.Name()
}

func sigString(f *ssa.Function) string {
	q := func(p *types.Package) string { return p.Name() }
	s := types.TypeString(f.Signature, q)
	if f.Signature.Recv() != nil {
		s = types.TypeString(f.Signature.Recv().Type(), q) + " " + s
	}
	return s
}

func fingerprint(p *Program, f *ssa.Function) []string {
	set := map[string]bool{}
	for _, g := range withClosures(f) {
		allInstrs(g, func(in ssa.Instruction) {
			for _, op := range in.Operands(nil) {
				if *op == nil {
					continue
				}
				if s, ok := constString(*op); ok && len(s) > 2 && len(s) < 80 {
					set["s:"+s] = true
				}
			}
			switch x := in.(type) {
			case *ssa.BinOp:
				// arithmetic with a numeric constant (tells mm*k from twips/k)
				for _, o := range []ssa.Value{x.X, x.Y} {
					if c, ok := o.(*ssa.Const); ok && c.Value != nil && !isStringType(c.Type()) {
						if cs := c.Value.String(); cs != "0" && cs != "1" && cs != "true" && cs != "false" {
							set["b:"+x.Op.String()+cs] = true
						}
					}
				}
			case ssa.CallInstruction:
				if cal := staticCallee(x); cal != nil && !p.inModule(cal) {
					set["c:"+fullName(cal)] = true
				} else if x.Common().IsInvoke() {
					set["i:"+x.Common().Method.Name()] = true
				}
			case *ssa.FieldAddr:
				if fv, _ := fieldOfAddr(x); fv != nil {
					if o := fieldOwner(p, fv); o != nil {
						set["f:"+o.Obj().Name()+"."+fv.Name()] = true
					}
				}
			}
		})
	}
	var out []string
	for k := range set {
		out = append(out, k)
	}
	sort.Strings(out)
	return out
}

func anchorsPath() string { return filepath.Join(verifDir(), "anchors.json") }

func writeAnchors(p *Program) {
	var recs []anchorRec
	for _, f := range p.ModFuncs() {
		if f.Parent() != nil || f.Pkg == nil || f.Object() == nil {
			continue
		}
		recs = append(recs, anchorRec{Pkg: f.Pkg.Pkg.Path(), Name: lookupName(f), Sig: sigString(f), Feats: fingerprint(p, f)})
	}
	sort.Slice(recs, func(i, j int) bool { return recs[i].Pkg+recs[i].Name < recs[j].Pkg+recs[j].Name })
	b, _ := json.MarshalIndent(recs, "", " ")
	if err := os.WriteFile(anchorsPath(), append(b, '\n'), 0o644); err != nil {
		fatal(2, "%v", err)
	}
	fmt.Printf("anchors.json written: %d functions\n", len(recs))
}

// recoverRenames fills canonName / aliasFunc for recorded functions that have disappeared.
func recoverRenames(p *Program) {
	canonName = map[*ssa.Function]string{}
	aliasFunc = map[string]*ssa.Function{}
	renameNotes = nil
	b, err := os.ReadFile(anchorsPath())
	if err != nil {
		return
	}
	var recs []anchorRec
	if json.Unmarshal(b, &recs) != nil {
		return
	}
	recorded := map[string]bool{}
	for _, r := range recs {
		recorded[r.Pkg+"\x00"+r.Name] = true
	}
	// current functions whose own name is new
	var fresh []*ssa.Function
	for _, f := range p.ModFuncs() {
		if f.Parent() != nil || f.Pkg == nil || f.Object() == nil {
			continue
		}
		if !recorded[f.Pkg.Pkg.Path()+"\x00"+lookupName(f)] {
			fresh = append(fresh, f)
		}
	}
	if len(fresh) == 0 {
		return
	}
	fp := map[*ssa.Function]map[string]bool{}
	for _, f := range fresh {
		m := map[string]bool{}
		for _, k := range fingerprint(p, f) {
			m[k] = true
		}
		fp[f] = m
	}
	taken := map[*ssa.Function]bool{}
	for _, r := range recs {
		if p.funcByName(r.Pkg, r.Name) != nil {
			continue
		}
		var best *ssa.Function
		bestScore, second := -1.0, -1.0
		for _, f := range fresh {
			if taken[f] || f.Pkg.Pkg.Path() != r.Pkg || sigString(f) != r.Sig {
				continue
			}
			inter := 0
			for _, k := range r.Feats {
				if fp[f][k] {
					inter++
				}
			}
			union := len(r.Feats) + len(fp[f]) - inter
			score := 1.0
			if union > 0 {
				score = float64(inter) / float64(union)
			}
			if score > bestScore {
				best, second, bestScore = f, bestScore, score
			} else if score > second {
				second = score
			}
		}
		if best == nil || bestScore < 0.5 || bestScore-second < 0.15 {
			continue
		}
		taken[best] = true
		aliasFunc[r.Pkg+"\x00"+r.Name] = best
		full := r.Pkg + "." + r.Name
		if strings.HasPrefix(r.Name, "(") {
			i := strings.Index(r.Name, ").")
			recv := r.Name[1:i]
			star := ""
			if strings.HasPrefix(recv, "*") {
				star, recv = "*", recv[1:]
			}
			full = "(" + star + r.Pkg + "." + recv + ")." + r.Name[i+2:]
		}
		canonName[best] = full
		renameNotes = append(renameNotes, fmt.Sprintf("%s is taken to be the renamed %s (same signature, fingerprint similarity %.2f)", lookupName(best), r.Name, bestScore))
	}
}

// calleeIs: the function is (or is the renamed) function with that bare name.
func calleeIs(f *ssa.Function, name string) bool {
	if f == nil {
		return false
	}
	if f.Name() == name {
		return true
	}
	if cn, ok := canonName[f]; ok {
		return strings.HasSuffix(cn, "."+name)
	}
	return false
}
