package main

// Catalogue of seeded variants used by the thorough tier to validate the checker itself
// (selftest.go).  Each entry is a text edit of /repo's current source applied in memory.
// Breaking variants re-introduce a defect of the kind the rule exists for (most of them are the
// historical defects repaired by the fix: commits, or small distortions of today's code);
// benign variants are behaviour-preserving rewrites the rule must tolerate.

const (
	fDoc  = "pkg/document/document.go"
	fTbl  = "pkg/document/table.go"
	fImg  = "pkg/document/image.go"
	fHF   = "pkg/document/header_footer.go"
	fFn   = "pkg/document/footnotes.go"
	fNum  = "pkg/document/numbering.go"
	fPage = "pkg/document/page.go"
	fTpl  = "pkg/document/template.go"
	fToc  = "pkg/document/toc.go"
	fSty  = "pkg/style/style.go"
	fMdR  = "pkg/markdown/renderer.go"
	fMdW  = "pkg/markdown/writer.go"
)

var mutantCatalogue = []Mutant{
	// ---------------------------------------------------------------- C05 / C01 save path
	{Name: "save-zip-close-dropped", Kind: "breaking", Prop: "C05", File: fDoc,
		Old:    "	if err := zipWriter.Close(); err != nil {\n		Errorf(\"无法完成ZIP写入: %s\", filename)\n		return WrapErrorWithContext(\"close_zip\", err, filename)\n	}\n",
		New:    "	zipWriter.Close()\n",
		Expect: "save-close:(*document.Document).Save:zip.Writer.Close",
		Why:    "the historical defect: the central directory is flushed at Close and its error is dropped"},
	{Name: "save-file-close-deferred-only", Kind: "breaking", Prop: "C05", File: fDoc,
		Old:    "	if err := file.Close(); err != nil {\n		Errorf(\"无法关闭文件: %s\", filename)\n		return WrapErrorWithContext(\"close_file\", err, filename)\n	}\n",
		New:    "",
		Expect: "save-close:(*document.Document).Save:os.File.Close",
		Why:    "only the deferred Close remains; its result is discarded"},
	{Name: "save-write-error-ignored", Kind: "breaking", Prop: "C05", File: fDoc,
		Old:    "			Errorf(\"无法写入ZIP条目: %s\", name)\n			return WrapErrorWithContext(\"write_zip_entry\", err, name)\n",
		New:    "			Errorf(\"无法写入ZIP条目: %s\", name)\n			continue\n",
		Expect: "save-err:*",
		Why:    "a failed entry write is logged and skipped; Save returns nil"},
	{Name: "tobytes-skips-docrels", Kind: "breaking", Prop: "C05,C01", File: fDoc,
		Old:    "	// 序列化文档关系\n	d.serializeDocumentRelationships()\n\n	// 写入所有部件\n	for name, data := range d.parts {\n		writer, err := zipWriter.Create(name)\n		if err != nil {\n			return nil, err\n",
		New:    "	// 写入所有部件\n	for name, data := range d.parts {\n		writer, err := zipWriter.Create(name)\n		if err != nil {\n			return nil, err\n",
		Expect: "save-sibling:*",
		Why:    "ToBytes and Save disagree about the regenerated parts"},
	{Name: "save-close-renamed-err", Kind: "benign", Prop: "C05", File: fDoc,
		Old: "	if err := zipWriter.Close(); err != nil {\n		Errorf(\"无法完成ZIP写入: %s\", filename)\n		return WrapErrorWithContext(\"close_zip\", err, filename)\n	}\n",
		New: "	closeErr := zipWriter.Close()\n	if closeErr != nil {\n		Errorf(\"无法完成ZIP写入: %s\", filename)\n		return WrapErrorWithContext(\"close_zip\", closeErr, filename)\n	}\n",
		Why: "two-statement form of the same check"},

	// ---------------------------------------------------------------- C01 package well-formedness
	{Name: "media-ext-from-caller", Kind: "breaking", Prop: "C01", File: fImg,
		Old: `	var ext string
	switch format {
	case ImageFormatPNG:
		ext = ".png"
	case ImageFormatJPEG:
		ext = ".jpeg"
	case ImageFormatGIF:
		ext = ".gif"
	default:
		ext = filepath.Ext(originalFileName)
		if ext == "" {
			ext = ".png"
		}
	}
`,
		New: `	ext := filepath.Ext(originalFileName)
	if ext == "" {
		ext = ".png"
	}
	_ = format
`,
		Expect: "ct-media:*",
		Why:    "historical defect: part extension from the caller's file name, content type registered from the format"},
	{Name: "ct-jpeg-registered-as-jpg", Kind: "breaking", Prop: "C01", File: fImg,
		Old: `	case ImageFormatJPEG:
		extension = "jpeg"
		contentType = "image/jpeg"`,
		New: `	case ImageFormatJPEG:
		extension = "jpg"
		contentType = "image/jpeg"`,
		Expect: "ct-media:*",
		Why:    "two cooperating tables disagree: the name generator says .jpeg, the content-type table says jpg"},
	{Name: "header-part-built-by-hand", Kind: "breaking", Prop: "C01", File: fHF,
		Old: `	// 添加XML声明
	fullXML := append([]byte(xml.Header), headerXML...)

	// 获取文件名
	fileName := getFileNameForType("header", headerType)
	headerPartName := fmt.Sprintf("word/%s", fileName)

	// 存储页眉内容
	d.parts[headerPartName] = fullXML

	// 添加关系到文档关系
	relationship := Relationship{
		ID:     headerID,
		Type:   "http://schemas.openxmlformats.org/officeDocument/2006/relationships/header",
		Target: fileName,
	}
	d.documentRelationships.Relationships = append(d.documentRelationships.Relationships, relationship)

	// 添加内容类型
	d.addContentType(headerPartName, "application/vnd.openxmlformats-officedocument.wordprocessingml.header+xml")

	// 更新节属性
	d.addHeaderReference(headerType, headerID)

	return nil
}

// AddFooter 添加页脚`,
		New: `	// 添加XML声明
	fullXML := append([]byte(xml.Header), headerXML...)
	if text == "" {
		fullXML = []byte(xml.Header + "<w:hdr><w:p><w:r><w:t>" + string(headerType) + "</w:t></w:r></w:p></w:hdr>")
	}

	// 获取文件名
	fileName := getFileNameForType("header", headerType)
	headerPartName := fmt.Sprintf("word/%s", fileName)

	// 存储页眉内容
	d.parts[headerPartName] = fullXML

	// 添加关系到文档关系
	relationship := Relationship{
		ID:     headerID,
		Type:   "http://schemas.openxmlformats.org/officeDocument/2006/relationships/header",
		Target: fileName,
	}
	d.documentRelationships.Relationships = append(d.documentRelationships.Relationships, relationship)

	// 添加内容类型
	d.addContentType(headerPartName, "application/vnd.openxmlformats-officedocument.wordprocessingml.header+xml")

	// 更新节属性
	d.addHeaderReference(headerType, headerID)

	return nil
}

// AddFooter 添加页脚`,
		Expect: "part-prov:*",
		Why:    "a part assembled by string concatenation from a caller-controlled value instead of the marshaller"},
	{Name: "escape-by-replace-chain", Kind: "breaking", Prop: "C01,C18", File: fTpl,
		Old: `	var buf bytes.Buffer
	if err := xml.EscapeText(&buf, []byte(s)); err != nil {
		return ""
	}
	return buf.String()
}

// processDocumentLevelLoops`,
		New: `	s = strings.ReplaceAll(s, "&", "&amp;")
	s = strings.ReplaceAll(s, "<", "&lt;")
	s = strings.ReplaceAll(s, ">", "&gt;")
	s = strings.ReplaceAll(s, "\"", "&quot;")
	s = strings.ReplaceAll(s, "'", "&apos;")
	return s
}

var _ = bytes.MinRead
var _ = xml.Header

// processDocumentLevelLoops`,
		Expect: "raw-xml:*",
		Why:    "historical defect: five ReplaceAll calls let control characters through"},

	// ---------------------------------------------------------------- C02 / C10 / C11 relationships
	{Name: "header-relid-from-len", Kind: "breaking", Prop: "C02", File: fHF,
		Old: `		paragraph.Runs = append(paragraph.Runs, run)
	}
	header.Paragraphs = append(header.Paragraphs, paragraph)

	// 生成关系ID
	headerID := nextRelationshipID(d.documentRelationships.Relationships, 2) // +2因为rId1保留给styles
`,
		New: `		paragraph.Runs = append(paragraph.Runs, run)
	}
	header.Paragraphs = append(header.Paragraphs, paragraph)

	// 生成关系ID
	headerID := fmt.Sprintf("rId%d", len(d.documentRelationships.Relationships)+2)
`,
		Expect: "fresh-dep:relid:(*document.Document).AddHeader:*",
		Why:    "historical defect: id from the number of relationships, not from the ids present"},
	{Name: "image-relid-from-len", Kind: "breaking", Prop: "C02,C10", File: fImg,
		Old: `	relationID := nextRelationshipID(d.documentRelationships.Relationships, 2)

	// 添加图片关系，使用安全文件名
	d.documentRelationships.Relationships = append(d.documentRelationships.Relationships, Relationship{
		ID:     relationID,
		Type:   "http://schemas.openxmlformats.org/officeDocument/2006/relationships/image",
		Target: fmt.Sprintf("media/%s", safeFileName),
	})

	// 存储图片数据，使用安全文件名
	if d.parts == nil {
		d.parts = make(map[string][]byte)
	}
	d.parts[fmt.Sprintf("word/media/%s", safeFileName)] = imageData

	// 更新内容类型
	d.addImageContentType(format)

	// 创建图片信息
	imageInfo := &ImageInfo{
		ID:         strconv.Itoa(imageID),
		RelationID: relationID,
		Format:     format,
		Width:      width,
		Height:     height,
		Data:       imageData,
		Config:     config,
	}

	// 创建图片段落并添加到文档`,
		New: `	relationID := fmt.Sprintf("rId%d", len(d.documentRelationships.Relationships)+2)

	// 添加图片关系，使用安全文件名
	d.documentRelationships.Relationships = append(d.documentRelationships.Relationships, Relationship{
		ID:     relationID,
		Type:   "http://schemas.openxmlformats.org/officeDocument/2006/relationships/image",
		Target: fmt.Sprintf("media/%s", safeFileName),
	})

	// 存储图片数据，使用安全文件名
	if d.parts == nil {
		d.parts = make(map[string][]byte)
	}
	d.parts[fmt.Sprintf("word/media/%s", safeFileName)] = imageData

	// 更新内容类型
	d.addImageContentType(format)

	// 创建图片信息
	imageInfo := &ImageInfo{
		ID:         strconv.Itoa(imageID),
		RelationID: relationID,
		Format:     format,
		Width:      width,
		Height:     height,
		Data:       imageData,
		Config:     config,
	}

	// 创建图片段落并添加到文档`,
		Expect: "fresh-dep:relid:(*document.Document).AddImageFromData:*",
		Why:    "colliding id silently re-targets an earlier picture"},
	{Name: "numbering-target-absolute", Kind: "breaking", Prop: "C02", File: fNum,
		Old: `		Type:   "http://schemas.openxmlformats.org/officeDocument/2006/relationships/numbering",
		Target: "numbering.xml",`,
		New: `		Type:   "http://schemas.openxmlformats.org/officeDocument/2006/relationships/numbering",
		Target: "word/numbering.xml",`,
		Expect: "rel-attach-target:*",
		Why:    "target resolved against word/ gives word/word/numbering.xml, a part that does not exist"},
	{Name: "image-info-wrong-relid", Kind: "breaking", Prop: "C02,C10", File: fImg,
		Old: `	imageInfo := &ImageInfo{
		ID:         strconv.Itoa(imageID),
		RelationID: relationID,
		Format:     format,
		Width:      width,
		Height:     height,
		Data:       imageData,
		Config:     config,
	}

	// 创建图片段落并添加到文档`,
		New: `	imageInfo := &ImageInfo{
		ID:         strconv.Itoa(imageID),
		RelationID: fmt.Sprintf("rId%d", imageID+2),
		Format:     format,
		Width:      width,
		Height:     height,
		Data:       imageData,
		Config:     config,
	}

	// 创建图片段落并添加到文档`,
		Expect: "ref-flow:*",
		Why:    "embed id recomputed from the image counter instead of taken from the relationship just created"},
	{Name: "header-ref-always-append", Kind: "breaking", Prop: "C11", File: fHF,
		Old: `	// 同一类型只保留一个引用：已存在则更新为最新的关系ID
	for _, ref := range sectPr.HeaderReferences {
		if ref != nil && ref.Type == string(headerType) {
			ref.ID = headerID
			return
		}
	}

`,
		New:    "",
		Expect: "keyed-insert:(*document.Document).addHeaderReference:*",
		Why:    "historical defect: two references of the same kind"},
	{Name: "header-first-shares-default-part", Kind: "breaking", Prop: "C11", File: fHF,
		Old: `	case HeaderFooterTypeFirst:
		return fmt.Sprintf("%sfirst.xml", typePrefix)`,
		New: `	case HeaderFooterTypeFirst:
		return fmt.Sprintf("%s1.xml", typePrefix)`,
		Expect: "kind-injective:*",
		Why:    "first-page header overwrites the default header part"},
	{Name: "header-ref-search-as-index-loop", Kind: "benign", Prop: "C11", File: fHF,
		Old: `	for _, ref := range sectPr.HeaderReferences {
		if ref != nil && ref.Type == string(headerType) {
			ref.ID = headerID
			return
		}
	}`,
		New: `	for i := 0; i < len(sectPr.HeaderReferences); i++ {
		if ref := sectPr.HeaderReferences[i]; ref != nil && ref.Type == string(headerType) {
			sectPr.HeaderReferences[i].ID = headerID
			return
		}
	}`,
		Why: "index loop instead of range"},
}
