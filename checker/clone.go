package main

import (
	"fmt"
	"go/token"
	"go/types"
	"sort"
	"strings"

	"golang.org/x/tools/go/ssa"
)

// ---------------------------------------------------------------------------
// R-CLONE-COVER / R-CLONE-MAP / R-CLONE-ALIAS
// ---------------------------------------------------------------------------

type cloneFn struct {
	Fn     *ssa.Function
	T      *types.Named
	Source ssa.Value // the parameter that is the source object
}

func isModStruct(p *Program, t types.Type) *types.Named {
	n, _ := derefType(t).(*types.Named)
	if n == nil || n.Obj().Pkg() == nil || !strings.HasPrefix(n.Obj().Pkg().Path(), modPath) {
		return nil
	}
	if _, ok := n.Underlying().(*types.Struct); !ok {
		return nil
	}
	return n
}

// discoverClones: functions with a source parameter (or receiver) of module struct type T
// and a single result of the same T (pointer or value) that construct a T (or obtain it
// from a module constructor) — role based, no names.
func discoverClones(p *Program, pkgs ...string) []cloneFn {
	var out []cloneFn
	for _, fn := range p.ModFuncs() {
		if fn.Parent() != nil {
			continue
		}
		// instantiations of generic helpers (cloneValue[T]) have no package of their own
		pkgOfFn := fn.Pkg
		if pkgOfFn == nil && fn.Origin() != nil {
			pkgOfFn = fn.Origin().Pkg
		}
		if pkgOfFn == nil || (fn.Synthetic != "" && fn.Origin() == nil) {
			continue
		}
		okPkg := false
		for _, pp := range pkgs {
			if pkgOfFn.Pkg.Path() == pp {
				okPkg = true
			}
		}
		if !okPkg || fn.Signature.Results().Len() != 1 {
			continue
		}
		if fn.TypeParams() != nil && fn.TypeParams().Len() > 0 && len(fn.TypeArgs()) == 0 {
			continue // the generic template itself; its instantiations are analysed
		}
		rt := isModStruct(p, fn.Signature.Results().At(0).Type())
		if rt == nil {
			continue
		}
		// candidate source: exactly one parameter of the same struct type
		var src ssa.Value
		cnt := 0
		for _, par := range fn.Params {
			if isModStruct(p, par.Type()) == rt {
				src = par
				cnt++
			}
		}
		passThrough := map[ssa.Value]bool{}
		if cnt > 1 {
			// clone(source, fallback *T) *T: the source is the parameter that is dereferenced; a
			// same-typed parameter that is only handed back (for a nil source) is not copied from
			var deref []ssa.Value
			for _, par := range fn.Params {
				if isModStruct(p, par.Type()) != rt || par.Referrers() == nil {
					continue
				}
				isDeref, onlyPass := false, true
				for _, u := range *par.Referrers() {
					switch x := u.(type) {
					case *ssa.FieldAddr, *ssa.Field:
						isDeref = true
						onlyPass = false
					case *ssa.UnOp:
						if x.Op == token.MUL {
							isDeref = true
						}
						onlyPass = false
					case *ssa.Return, *ssa.Phi, *ssa.BinOp, *ssa.DebugRef:
					default:
						onlyPass = false
					}
				}
				if isDeref {
					deref = append(deref, par)
				} else if onlyPass {
					passThrough[par] = true
				}
			}
			if len(deref) == 1 && len(passThrough) == cnt-1 {
				src, cnt = deref[0], 1
			}
		}
		if cnt != 1 {
			continue
		}
		// other parameters must be at most a receiver (engine) — no extra data parameters
		extra := 0
		for i, par := range fn.Params {
			if ssa.Value(par) == src || passThrough[par] {
				continue
			}
			if i == 0 && fn.Signature.Recv() != nil {
				continue
			}
			extra++
		}
		if extra > 0 {
			continue
		}
		// must construct: an Alloc of rt, or return a module call result other than itself
		constructs := false
		allInstrs(fn, func(in ssa.Instruction) {
			if a, ok := in.(*ssa.Alloc); ok && isModStruct(p, a.Type()) == rt {
				constructs = true
			}
		})
		if !constructs {
			for _, ret := range returnsOf(fn) {
				for r := range rootsOf(retResult(ret, 0)) {
					if c, ok := r.(*ssa.Call); ok {
						if cal := staticCallee(c); cal != nil && p.inModule(cal) && cal != fn {
							constructs = true
						}
					}
				}
			}
		}
		if !constructs {
			continue
		}
		// the result must not simply be the source in all cases (fluent setters return the receiver)
		allSrc := true
		for _, ret := range returnsOf(fn) {
			if stripLoads(retResult(ret, 0)) != src && !isNilConst(retResult(ret, 0)) {
				allSrc = false
			}
		}
		if allSrc {
			continue
		}
		out = append(out, cloneFn{Fn: fn, T: rt, Source: src})
	}
	return out
}

// objKey canonicalises an object designator: root SSA value + field/index path.
func objKey(addr ssa.Value) (root ssa.Value, path string) {
	var parts []string
	v := addr
	for depth := 0; depth < 40; depth++ {
		switch x := v.(type) {
		case *ssa.FieldAddr:
			f, _ := fieldOfAddr(x)
			parts = append([]string{"." + f.Name()}, parts...)
			v = x.X
			continue
		case *ssa.Field:
			f, _ := fieldOfVal(x)
			parts = append([]string{"." + f.Name()}, parts...)
			v = x.X
			continue
		case *ssa.IndexAddr:
			parts = append([]string{"[]"}, parts...)
			v = x.X
			continue
		case *ssa.Index:
			parts = append([]string{"[]"}, parts...)
			v = x.X
			continue
		case *ssa.UnOp:
			if x.Op == token.MUL {
				v = x.X
				continue
			}
		case *ssa.ChangeType:
			v = x.X
			continue
		}
		break
	}
	return v, strings.Join(parts, "")
}

type objGroup struct {
	T        *types.Named
	Fresh    bool
	Whole    bool // whole-object store (copy / delegated construction)
	Fields   map[*types.Var]token.Pos
	FirstPos token.Pos
	Keys     []string
}

type cloneAnalysis struct {
	cf      cloneFn
	p       *Program
	parent  map[string]string
	typ     map[string]*types.Named
	fresh   map[string]bool
	whole   map[string]bool
	fields  map[string]map[*types.Var]token.Pos
	pos     map[string]token.Pos
	ms      *mutSummary
	srcVals []ssa.Value
}

func (a *cloneAnalysis) find(k string) string {
	for a.parent[k] != "" && a.parent[k] != k {
		k = a.parent[k]
	}
	return k
}

func (a *cloneAnalysis) union(x, y string) {
	rx, ry := a.find(x), a.find(y)
	if rx != ry {
		a.parent[rx] = ry
	}
}

func (a *cloneAnalysis) key(root ssa.Value, path string) string {
	return root.Name() + "@" + root.Parent().Name() + path
}

func (a *cloneAnalysis) touch(k string, t types.Type, pos token.Pos) {
	if _, ok := a.parent[k]; !ok {
		a.parent[k] = k
		a.pos[k] = pos
	}
	if n := isModStruct(a.p, t); n != nil && a.typ[k] == nil {
		a.typ[k] = n
	}
}

// isFreshRoot: root of an access path that denotes an object created by this clone function.
func (a *cloneAnalysis) isFreshRoot(root ssa.Value) bool {
	switch x := root.(type) {
	case *ssa.Alloc:
		// a local copy of (part of) the source is not fresh
		if refs := x.Referrers(); refs != nil {
			for _, in := range *refs {
				if st, ok := in.(*ssa.Store); ok && st.Addr == ssa.Value(x) {
					if a.srcDerived(st.Val) {
						return false
					}
				}
			}
		}
		return true
	case *ssa.Call:
		if cal := staticCallee(x); cal != nil && a.p.inModule(cal) {
			return true
		}
		if b, ok := x.Call.Value.(*ssa.Builtin); ok && b.Name() == "append" {
			return false
		}
	case *ssa.MakeSlice, *ssa.MakeMap:
		return true
	}
	return false
}

func (a *cloneAnalysis) srcDerived(v ssa.Value) bool {
	for r := range rootsOf(v) {
		if r == a.cf.Source {
			return true
		}
		// iteration variables over the source: covered by rootsOf through Range/Next/Extract
	}
	return false
}

func analyseClone(p *Program, cf cloneFn, ms *mutSummary) *cloneAnalysis {
	a := &cloneAnalysis{cf: cf, p: p, parent: map[string]string{}, typ: map[string]*types.Named{}, fresh: map[string]bool{}, whole: map[string]bool{},
		fields: map[string]map[*types.Var]token.Pos{}, pos: map[string]token.Pos{}, ms: ms}
	cover := func(k string, f *types.Var, pos token.Pos) {
		if a.fields[k] == nil {
			a.fields[k] = map[*types.Var]token.Pos{}
		}
		if _, ok := a.fields[k][f]; !ok {
			a.fields[k][f] = pos
		}
	}
	// register every prefix of an address path as an object, record the field written
	var registerWrite func(addr ssa.Value, pos token.Pos)
	registerWrite = func(addr ssa.Value, pos token.Pos) {
		v := addr
		for depth := 0; depth < 40; depth++ {
			switch x := v.(type) {
			case *ssa.FieldAddr:
				f, base := fieldOfAddr(x)
				root, path := objKey(base)
				k := a.key(root, path)
				a.touch(k, base.Type(), pos)
				cover(k, f, pos)
				v = base
				continue
			case *ssa.IndexAddr:
				v = x.X
				continue
			case *ssa.UnOp:
				if x.Op == token.MUL {
					v = x.X
					continue
				}
			}
			break
		}
	}
	for _, fn := range withClosures(cf.Fn) {
		allInstrs(fn, func(in ssa.Instruction) {
			switch x := in.(type) {
			case *ssa.Alloc:
				if n := isModStruct(p, x.Type()); n != nil {
					if _, isArr := derefType(x.Type()).Underlying().(*types.Array); !isArr {
						k := a.key(x, "")
						a.touch(k, x.Type(), x.Pos())
						if a.isFreshRoot(x) {
							a.fresh[k] = true
						}
					}
				}
			case *ssa.Store:
				registerWrite(x.Addr, x.Pos())
				// whole-object store into a designator of module struct type
				root, path := objKey(x.Addr)
				if n := isModStruct(p, derefType(x.Addr.Type())); n != nil {
					if _, isPtr := derefType(x.Addr.Type()).Underlying().(*types.Pointer); !isPtr {
						// *addr is a struct value: storing a whole struct
						if _, isStruct := x.Val.Type().Underlying().(*types.Struct); isStruct {
							k := a.key(root, path)
							a.touch(k, x.Val.Type(), x.Pos())
							if c, isConst := x.Val.(*ssa.Const); !(isConst && c.Value == nil) {
								a.whole[k] = true
							}
						}
					}
				}
				// pointer stored into a designator: unify the pointee object with the designator
				if _, isPtr := x.Val.Type().Underlying().(*types.Pointer); isPtr {
					if n := isModStruct(p, x.Val.Type()); n != nil {
						dk := a.key(root, path)
						a.touch(dk, x.Val.Type(), x.Pos())
						vr, vp := objKey(x.Val)
						if al, ok := vr.(*ssa.Alloc); ok && vp == "" && a.isFreshRoot(al) {
							vk := a.key(vr, vp)
							a.touch(vk, x.Val.Type(), x.Pos())
							a.union(vk, dk)
						} else if !isNilConst(x.Val) {
							// delegated construction (module call) or an existing object (alias,
							// reported separately): the pointee is complete, no field obligations here
							a.whole[dk] = true
						}
					}
				}
			case *ssa.MapUpdate:
				// m[k] = v where m is loaded from a field: covers that field
				if ld, ok := x.Map.(*ssa.UnOp); ok && ld.Op == token.MUL {
					registerWrite(ld.X, x.Pos())
				}
			case ssa.CallInstruction:
				cal := staticCallee(x)
				if cal == nil || !p.inModule(cal) {
					return
				}
				for pi, sites := range ms.Params(cal) {
					if pi >= len(x.Common().Args) {
						continue
					}
					arg := x.Common().Args[pi]
					if isModStruct(p, arg.Type()) == nil {
						continue
					}
					root, path := objKey(arg)
					k := a.key(root, path)
					a.touch(k, arg.Type(), x.Pos())
					for _, s := range sites {
						// the first field along the callee's written path rooted at its parameter
						if chainRootField := firstFieldFromParam(s, cal, pi); chainRootField != nil {
							cover(k, chainRootField, x.Pos())
						}
					}
				}
			}
		})
	}
	// freshness of call-result roots (doc := New())
	for k := range a.parent {
		_ = k
	}
	return a
}

// firstFieldFromParam: for a write site inside callee whose address is rooted at parameter pi,
// the first field selected from that parameter.
func firstFieldFromParam(s writeSite, cal *ssa.Function, pi int) *types.Var {
	var target ssa.Value
	switch x := s.Instr.(type) {
	case *ssa.Store:
		target = x.Addr
	case *ssa.MapUpdate:
		target = x.Map
	case *ssa.Call:
		if len(x.Call.Args) > 0 {
			target = x.Call.Args[0]
		}
	}
	if target == nil || s.Fn != cal {
		return nil
	}
	chain, root := addrChain(target)
	if root == ssa.Value(cal.Params[pi]) && len(chain) > 0 {
		return chain[0]
	}
	return nil
}

func (a *cloneAnalysis) groups() []*objGroup {
	gm := map[string]*objGroup{}
	var keys []string
	for k := range a.parent {
		keys = append(keys, k)
	}
	sort.Strings(keys)
	for _, k := range keys {
		r := a.find(k)
		g := gm[r]
		if g == nil {
			g = &objGroup{Fields: map[*types.Var]token.Pos{}, FirstPos: a.pos[k]}
			gm[r] = g
		}
		g.Keys = append(g.Keys, k)
		if g.T == nil {
			g.T = a.typ[k]
		}
		if a.fresh[k] {
			g.Fresh = true
		}
		if a.whole[k] {
			g.Whole = true
		}
		for f, pos := range a.fields[k] {
			if _, ok := g.Fields[f]; !ok {
				g.Fields[f] = pos
			}
		}
		if a.pos[k].IsValid() && (!g.FirstPos.IsValid() || a.pos[k] < g.FirstPos) {
			g.FirstPos = a.pos[k]
		}
	}
	var out []*objGroup
	var rk []string
	for r := range gm {
		rk = append(rk, r)
	}
	sort.Strings(rk)
	for _, r := range rk {
		out = append(out, gm[r])
	}
	return out
}

// subject: does the coverage obligation apply to this group?  Yes when the group holds an
// object created here, or is a value sub-object / slice element of one.
func (a *cloneAnalysis) subject(g *objGroup) bool {
	if g.Fresh {
		return true
	}
	for _, k := range g.Keys {
		// key = name@fn + path ; sub-object of a fresh group if a proper prefix is in a fresh group
		i := strings.Index(k, "@")
		j := strings.IndexAny(k[i:], ".[")
		if j < 0 {
			// bare root: fresh call result?
			continue
		}
		base := k[:i+j]
		rest := k[i+j:]
		// walk prefixes
		for cut := len(rest); cut >= 0; cut-- {
			if cut != len(rest) && cut != 0 && rest[cut] != '.' && rest[cut] != '[' {
				continue
			}
			pre := base + rest[:cut]
			if _, ok := a.parent[pre]; ok && cut < len(rest) {
				r := a.find(pre)
				for k2 := range a.parent {
					if a.find(k2) == r && a.fresh[k2] {
						return true
					}
				}
			}
		}
	}
	return false
}

// alias modes of runCloneRules
const (
	aliasOff     = 0 // coverage and purity only
	aliasMutable = 1 // sharing is a violation when the library itself can later change the shared object
	aliasStrict  = 2 // any sharing of pointer, slice or map values is a violation ("fully independent")
)

func runCloneRules(r *Run, clones []cloneFn, rulePrefix string, aliasMode int, subjectTypes map[*types.Named]bool) {
	p := r.P
	ms := newMutSummary(p, false)
	wantAlias := aliasMode != aliasOff
	var oracle *mutOracle
	if aliasMode == aliasMutable {
		oracle = newMutOracle(p, newMutSummary(p, false))
	}
	// aliasBad: is sharing a value of type vt, held in field fv (may be nil), a violation?
	aliasBad := func(fv *types.Var, vt types.Type) (bool, string) {
		if b, ok := vt.Underlying().(*types.Basic); ok && b.Info()&types.IsString != 0 {
			return false, ""
		}
		if aliasMode == aliasStrict {
			return true, "source and copy share mutable state"
		}
		if fv != nil {
			if why, ok := oracle.fieldMutable(fv); ok {
				if _, isPtr := vt.Underlying().(*types.Pointer); !isPtr {
					return true, "the shared backing store is later modified in place: " + why
				}
			}
		}
		if why, ok := oracle.deepMutable(vt); ok {
			return true, "the shared object can later be changed through either document: " + why
		}
		return false, ""
	}
	nFields := 0
	for _, cf := range clones {
		a := analyseClone(p, cf, ms)
		// mark call-result roots that are module constructors as fresh (doc := New())
		for k := range a.parent {
			if i := strings.Index(k, "@"); i >= 0 && !strings.ContainsAny(k[i:], ".[") {
				name := k[:i]
				for _, fn := range withClosures(cf.Fn) {
					allInstrs(fn, func(in ssa.Instruction) {
						if c, ok := in.(*ssa.Call); ok && c.Name() == name && c.Parent().Name() == k[i+1:] {
							if cal := staticCallee(c); cal != nil && p.inModule(cal) && isModStruct(p, c.Type()) != nil {
								a.fresh[k] = true
							}
						}
					})
				}
			}
		}
		fname := shortName(cf.Fn)
		seenT := map[string]bool{}
		for _, g := range a.groups() {
			if g.T == nil || !a.subject(g) {
				continue
			}
			if subjectTypes != nil && !subjectTypes[g.T] {
				continue // a helper object (e.g. the engine value the copy is delegated to), not part of the copy
			}
			st := g.T.Underlying().(*types.Struct)
			for i := 0; i < st.NumFields(); i++ {
				fv := st.Field(i)
				if fv.Name() == "XMLName" {
					continue
				}
				key := fmt.Sprintf("%s:%s.%s", fname, g.T.Obj().Name(), fv.Name())
				_, ok := g.Fields[fv]
				if g.Whole {
					ok = true
				}
				nFields++
				if !ok && rulePrefix == "clone" {
					if why := notDocumentContent(p, g.T, fv); why != "" {
						// scratch buffers, memoised read results and options of the Document object are not
						// content of the document: a derived document need not carry them
						if !seenT[key] {
							r.Trivial(rulePrefix+"-cover", key, g.FirstPos, true, "not copied, and need not be: "+why)
							seenT[key] = true
						}
						continue
					}
				}
				if !seenT[key] || !ok {
					r.Check(rulePrefix+"-cover", key, posOr(g.Fields[fv], g.FirstPos), ok,
						fmt.Sprintf("%s constructs a %s (at %s) but never sets field %s from the source: the copy loses it", fname, typeName(g.T), p.pos(g.FirstPos), fv.Name()))
					seenT[key] = true
				}
			}
		}
		// source mutation
		for pi, sites := range ms.Params(cf.Fn) {
			if ssa.Value(cf.Fn.Params[pi]) == cf.Source && len(sites) > 0 {
				s := sites[0]
				r.Check(rulePrefix+"-pure", fname, s.Instr.Pos(), false,
					fmt.Sprintf("%s writes to memory reachable from its source parameter (at %s in %s)", fname, p.pos(s.Instr.Pos()), shortName(s.Fn)))
			}
		}
		if _, ok := ms.Params(cf.Fn)[paramIndex(cf.Fn, cf.Source)]; !ok {
			r.Check(rulePrefix+"-pure", fname, cf.Fn.Pos(), true, "no store through the source parameter, directly or in callees")
		}
		// field mapping and aliasing
		for _, fn := range withClosures(cf.Fn) {
			allInstrs(fn, func(in ssa.Instruction) {
				// copy(dst, src) of a slice of pointers: the copy's slice is new, the objects are the source's
				if c, ok := in.(*ssa.Call); ok && wantAlias {
					if b, ok := c.Call.Value.(*ssa.Builtin); ok && b.Name() == "copy" && len(c.Call.Args) == 2 {
						if sl, ok := c.Call.Args[1].Type().Underlying().(*types.Slice); ok && isPointerLike(sl.Elem()) && a.srcDerived(c.Call.Args[1]) && !a.srcDerived(c.Call.Args[0]) {
							if _, isStr := sl.Elem().Underlying().(*types.Basic); !isStr {
								bad, why := aliasBad(nil, sl.Elem())
								r.Check(rulePrefix+"-alias", fmt.Sprintf("%s:copy[]%s", fname, typeName(sl.Elem())), c.Pos(), !bad,
									fmt.Sprintf("%s copies a slice of %s element by element with copy(): the new slice holds the source's objects: %s", fname, sl.Elem(), why))
							}
						}
					}
				}
				// an entry of the source put into a map of the copy as it is (c.styles[id] = s)
				if mu, ok := in.(*ssa.MapUpdate); ok && wantAlias {
					if isPointerLike(mu.Value.Type()) && a.srcDerived(mu.Value) && !isFreshValue(p, mu.Value) && !a.srcDerived(mu.Map) {
						bad, why := aliasBad(nil, mu.Value.Type())
						if aliasMode == aliasMutable {
							// registry entries (notes, numbering definitions) are built once and never handed
							// out: sharing them matters only if the library writes the entry's own fields
							// through a received object
							bad, why = false, ""
							if n := namedOf(mu.Value.Type()); n != nil {
								if stt, ok := n.Underlying().(*types.Struct); ok {
									for i := 0; i < stt.NumFields(); i++ {
										if w, ok := oracle.fieldMutable(stt.Field(i)); ok {
											bad, why = true, w
										}
									}
								}
							}
							// …or if some function walks the registry and hands what hangs off an entry (its
							// paragraphs) to code that writes through it: "never handed out" no longer holds
							if !bad {
								if mfv, _ := fieldOfAddr(stripLoadsAddr(mu.Map)); mfv != nil {
									if w := registryEntriesMutated(p, ms, mfv); w != "" {
										bad, why = true, w
									}
								}
							}
						}
						r.Check(rulePrefix+"-alias", fmt.Sprintf("%s:map[]%s", fname, typeName(mu.Value.Type())), mu.Pos(), !bad,
							fmt.Sprintf("%s puts a %s taken from the source into a map of the copy without copying it: %s", fname, mu.Value.Type(), why))
					}
					return
				}
				st, ok := in.(*ssa.Store)
				if !ok {
					return
				}
				chain, root := addrChain(st.Addr)
				if len(chain) == 0 || chain[len(chain)-1] == nil {
					// element store into a slice: aliasing of pointer elements
					if wantAlias && isPointerLike(st.Val.Type()) && a.srcDerived(st.Val) && !a.srcDerived(root) {
						if _, isFA := st.Addr.(*ssa.IndexAddr); isFA && !isFreshValue(p, st.Val) {
							key := fmt.Sprintf("%s:[]%s", fname, typeName(st.Val.Type()))
							bad, why := aliasBad(nil, st.Val.Type())
							if _, isIface := st.Val.Type().Underlying().(*types.Interface); isIface && aliasMode == aliasMutable {
								// an element of dynamic type: the kinds the function tests for are handled by
								// their own cases; only the remaining kinds reach this store
								bad, why = false, ""
								handled := map[*types.Named]bool{}
								if refs := st.Val.Referrers(); refs != nil {
									for _, u := range *refs {
										if ta, ok := u.(*ssa.TypeAssert); ok {
											if n := namedOf(derefType(ta.AssertedType)); n != nil {
												handled[n] = true
											}
										}
									}
								}
								for _, k := range oracle.kinds {
									if handled[k] {
										continue
									}
									if w, ok := oracle.deepMutable(k); ok {
										bad, why = true, fmt.Sprintf("elements of kind %s are shared, and %s", typeName(k), w)
										break
									}
								}
							}
							r.Check(rulePrefix+"-alias", key, st.Pos(), !bad,
								fmt.Sprintf("%s stores a %s taken from the source into the copy: %s", fname, st.Val.Type(), why))
						}
					}
					// whole-struct assignment `*dst = *src` / `c := *src`: every pointer-like field is shared
					// a local copy counts only when it becomes part of the result (its address is stored
					// or returned); `row := src.Rows[i]; clone(&row)` is a temporary
					intoLocal := false
					if al, ok := stripLoads(st.Addr).(*ssa.Alloc); ok && al.Referrers() != nil {
						for _, u := range *al.Referrers() {
							switch x := u.(type) {
							case *ssa.Store:
								if x.Val == ssa.Value(al) {
									intoLocal = true
								}
							case *ssa.Return:
								intoLocal = true
							case *ssa.UnOp:
								// `c := *src; …; return c` (a struct result): the loaded value is returned,
								// stored into the result or appended to it
								if x.Op == token.MUL && x.Referrers() != nil {
									for _, u2 := range *x.Referrers() {
										switch y := u2.(type) {
										case *ssa.Return:
											intoLocal = true
										case *ssa.Store:
											if y.Val == ssa.Value(x) && !a.srcDerived(y.Addr) && allocBase(y.Addr) != al {
												intoLocal = true
											}
										}
									}
								}
							}
						}
					}
					if wantAlias && (intoLocal || !a.srcDerived(root)) {
						if n := isModStruct(p, st.Val.Type()); n != nil {
							if _, isPtr := st.Val.Type().Underlying().(*types.Pointer); !isPtr {
								if ld, ok := st.Val.(*ssa.UnOp); ok && ld.Op == token.MUL && a.srcDerived(ld.X) && !isFreshValue(p, ld.X) {
									objAl, _ := stripLoads(st.Addr).(*ssa.Alloc)
									for _, f := range pointerLikeFields(p, n) {
										if freshStoreToFieldOf(p, a, cf.Fn, f, objAl) {
											continue
										}
										owner := "?"
										if o := fieldOwner(p, f); o != nil {
											owner = o.Obj().Name()
										}
										bad, why := aliasBad(f, f.Type())
										r.Check(rulePrefix+"-alias", fmt.Sprintf("%s:%s.%s", fname, owner, f.Name()), st.Pos(), !bad,
											fmt.Sprintf("%s copies a %s by plain struct assignment, so its field %s (a %s) is shared between source and copy: %s", fname, typeName(n), f.Name(), f.Type(), why))
									}
								}
							}
						}
					}
					return
				}
				if a.srcDerived(root) {
					return // writing into the source is reported by -pure
				}
				fv := chain[len(chain)-1]
				owner := fieldOwner(p, fv)
				oname := "?"
				if owner != nil {
					oname = owner.Obj().Name()
				}
				key := fmt.Sprintf("%s:%s.%s", fname, oname, fv.Name())
				val := st.Val
				if !a.srcDerived(val) {
					return
				}
				// mapping: a leaf copied from a field of another name
				vchain, _ := valueChain(val)
				if len(vchain) > 0 && vchain[len(vchain)-1] != nil && !isPointerLike(fv.Type()) {
					src := vchain[len(vchain)-1]
					if _, isLoadOrField := stripConv(val).(*ssa.UnOp); isLoadOrField || isFieldVal(stripConv(val)) {
						same := src == fv || (src.Name() == fv.Name())
						r.Check(rulePrefix+"-map", key, st.Pos(), same,
							fmt.Sprintf("%s copies field %s from source field %s", fname, fv.Name(), src.Name()))
					}
				}
				if wantAlias && isPointerLike(fv.Type()) && (!isFreshValue(p, val) || isAppendOfSource(a, val)) {
					if _, isStr := fv.Type().Underlying().(*types.Basic); !isStr {
						bad, why := aliasBad(fv, fv.Type())
						r.Check(rulePrefix+"-alias", key, st.Pos(), !bad,
							fmt.Sprintf("%s stores the source's %s (a %s) into the copy without copying it: %s", fname, fv.Name(), fv.Type(), why))
					}
				}
			})
		}
	}
	for _, cf := range clones {
		r.Notes = append(r.Notes, rulePrefix+" function: "+shortName(cf.Fn))
	}
	r.Count(rulePrefix+"_functions", len(clones))
	r.Count(rulePrefix+"_field_obligations", nFields)
}

func posOr(a, b token.Pos) token.Pos {
	if a.IsValid() {
		return a
	}
	return b
}

func stripConv(v ssa.Value) ssa.Value {
	for {
		switch x := v.(type) {
		case *ssa.ChangeType:
			v = x.X
		case *ssa.Convert:
			v = x.X
		default:
			return v
		}
	}
}

func isFieldVal(v ssa.Value) bool {
	_, ok := v.(*ssa.Field)
	return ok
}

// isFreshValue: the value is a call to a module function, a make/new, or a literal — not a load.
func isFreshValue(p *Program, v ssa.Value) bool {
	switch x := stripConv(v).(type) {
	case *ssa.Call:
		if b, ok := x.Call.Value.(*ssa.Builtin); ok && b.Name() == "append" {
			return false
		}
		return true
	case *ssa.Alloc, *ssa.MakeSlice, *ssa.MakeMap, *ssa.Const, *ssa.MakeInterface:
		if mi, ok := x.(*ssa.MakeInterface); ok {
			return isFreshValue(p, mi.X)
		}
		return true
	case *ssa.Phi:
		for _, e := range x.Edges {
			if !isFreshValue(p, e) {
				return false
			}
		}
		return true
	}
	return false
}

// ---------------------------------------------------------------------------
// Rule entry points
// ---------------------------------------------------------------------------

func ruleCloneDocument(r *Run) {
	clones := discoverClones(r.P, pkgDoc)
	var sel []cloneFn
	seen := map[*ssa.Function]bool{}
	var roots []*ssa.Function
	for _, c := range clones {
		if c.Fn.Signature.Recv() != nil && typeIs(c.Fn.Signature.Recv().Type(), pkgDoc, "TemplateEngine") {
			sel = append(sel, c)
			seen[c.Fn] = true
			roots = append(roots, c.Fn)
		}
	}
	// helper clone functions that are not methods of the engine (and the clone() methods of the
	// per-document registries) are held to the same rules when the engine's clones call them
	reach := r.P.staticReach(roots...)
	for _, c := range clones {
		if !seen[c.Fn] && reach[c.Fn] {
			sel = append(sel, c)
			seen[c.Fn] = true
		}
	}
	r.Min("template_clone_functions", len(sel), 17)
	runCloneRules(r, sel, "clone", aliasMutable, nil)
}

func ruleCloneStyle(r *Run) {
	clones := discoverClones(r.P, pkgSty)
	r.Min("style_clone_functions", len(clones), 6)
	runCloneRules(r, clones, "clone", aliasStrict, nil)
}

func ruleCopyTable(r *Run) {
	p := r.P
	all := discoverClones(p, pkgDoc)
	byFn := map[*ssa.Function]cloneFn{}
	for _, c := range all {
		byFn[c.Fn] = c
	}
	var entry []cloneFn
	for _, c := range all {
		if c.Fn.Signature.Recv() != nil && typeIs(c.Fn.Signature.Recv().Type(), pkgDoc, "Table") {
			entry = append(entry, c)
		}
	}
	r.Min("table_copy_functions", len(entry), 1)
	// CopyTable may delegate to other clone functions (today: the template engine's cloneTable and,
	// through it, the clone function of every struct below Table).  The obligations follow the
	// delegation: every clone function statically reachable from the entry is held to the same
	// rules (complete, alias-free), restricted to the struct types reachable from Table.
	sel := append([]cloneFn{}, entry...)
	seen := map[*ssa.Function]bool{}
	for _, c := range entry {
		seen[c.Fn] = true
	}
	var roots []*ssa.Function
	for _, c := range entry {
		roots = append(roots, c.Fn)
	}
	reach := p.staticReach(roots...)
	for _, fn := range sortedFuncs(reach) {
		if c, ok := byFn[fn]; ok && !seen[fn] {
			seen[fn] = true
			sel = append(sel, c)
		}
	}
	r.Count("copy_delegate_clone_functions", len(sel)-len(entry))
	tbl := p.Named(pkgDoc, "Table")
	if tbl == nil {
		r.Unresolved("document.Table")
		return
	}
	runCloneRules(r, sel, "copy", aliasStrict, structsBelow(p, tbl))
}

// structsBelow: module struct types reachable from t through fields (pointers, slices, arrays,
// maps), t included.
func structsBelow(p *Program, t *types.Named) map[*types.Named]bool {
	out := map[*types.Named]bool{}
	var visit func(tt types.Type)
	visit = func(tt types.Type) {
		switch x := tt.(type) {
		case *types.Pointer:
			visit(x.Elem())
		case *types.Slice:
			visit(x.Elem())
		case *types.Array:
			visit(x.Elem())
		case *types.Map:
			visit(x.Elem())
		case *types.Named:
			n := isModStruct(p, x)
			if n == nil || out[n] {
				return
			}
			out[n] = true
			st := n.Underlying().(*types.Struct)
			for i := 0; i < st.NumFields(); i++ {
				visit(st.Field(i).Type())
			}
		}
	}
	visit(t)
	return out
}

// ruleClonePure (C17): template clone functions never write through their source.
func ruleClonePure(r *Run) {
	probe := newRun(r.P, r.Prop, r.Tier)
	ruleCloneDocument(probe)
	n := 0
	for _, k := range probe.order {
		o := probe.obs[k]
		if o.Rule == "clone-pure" {
			n++
			r.obs[o.Key] = o
			r.order = append(r.order, o.Key)
		}
	}
	r.Failures = append(r.Failures, probe.Failures...)
	r.Min("clone_functions_checked_for_purity", n, 17)
}

// ruleCloneAliasFor: the alias obligations of the template engine's document clone, restricted to
// the struct types whose sharing endangers the property at hand (nil = all).  A rendered document
// that shares a relationship list, a content-type list or a body element with its template (and
// so with every sibling rendered from it) is a violation of whichever property speaks about that
// object: another document's append lands in, or overwrites, the shared slot.
func ruleCloneAliasFor(owners ...string) func(r *Run) {
	return func(r *Run) {
		probe := newRun(r.P, r.Prop, r.Tier)
		ruleCloneDocument(probe)
		n := 0
		for _, k := range probe.order {
			o := probe.obs[k]
			if o.Rule != "clone-alias" {
				continue
			}
			if len(owners) > 0 {
				hit := false
				for _, ow := range owners {
					if strings.Contains(o.Key, ":"+ow+".") || strings.Contains(o.Key, ":[]"+ow) || strings.Contains(o.Key, "[]document."+ow) {
						hit = true
					}
				}
				if !hit {
					continue
				}
			}
			n++
			r.obs[o.Key] = o
			r.order = append(r.order, o.Key)
		}
		r.Failures = append(r.Failures, probe.Failures...)
		r.Count("clone_alias_obligations", n)
		r.Count("template_clone_functions", probe.Analysed["template_clone_functions"])
	}
}

// documentContentFields: the fields of document.Document confirmed (by reading cloneDocument and
// the code that uses each field) to carry document content or the counters/registries from which
// later additions take their ids.  Any field of Document added later is judged by
// notDocumentContent.
var documentContentFields = map[string]string{
	"Body":                  "the body element list",
	"relationships":         "package relationships",
	"documentRelationships": "relationships of the main part",
	"contentTypes":          "content-type table",
	"styleManager":          "style registry",
	"parts":                 "raw parts",
	"nextImageID":           "counter the next media name and picture id are taken from",
	"footnoteManager":       "note registry (ids of later notes)",
	"numberingManager":      "numbering registry (ids of later lists)",
}

var notContentCache = map[*types.Var]string{}

// notDocumentContent decides whether a field of the root Document object that a clone function
// leaves unset is document content.  It is content when it is in the confirmed table, or when it
// is used both while serialising (functions reachable from Save/ToBytes) and outside of it — then
// what was done to the document before decides what is written.  A field used only while
// serialising is scratch space of the serialiser; a field never used while serialising (a memoised
// getter result, an option consulted by later editing calls) does not change what the derived
// document saves.  Returns the reason for "not content", or "" when the field must be copied.
func notDocumentContent(p *Program, owner *types.Named, fv *types.Var) string {
	doc := p.Named(pkgDoc, "Document")
	if doc == nil || owner != doc {
		return ""
	}
	if _, ok := documentContentFields[fv.Name()]; ok {
		return ""
	}
	if why, ok := notContentCache[fv]; ok {
		return why
	}
	var roots []*ssa.Function
	for _, n := range []string{"(*Document).Save", "(*Document).ToBytes"} {
		if f := p.Func(pkgDoc, n); f != nil {
			roots = append(roots, f)
		}
	}
	why := ""
	if len(roots) == 2 {
		region := p.staticReach(roots...)
		inside, outside := 0, 0
		for _, fn := range p.ModFuncs() {
			if fn.Name() == "New" || strings.HasPrefix(fn.Name(), "clone") {
				continue // constructors and clone functions initialise/copy, they do not use the field
			}
			allInstrs(fn, func(in ssa.Instruction) {
				var got *types.Var
				switch x := in.(type) {
				case *ssa.FieldAddr:
					got, _ = fieldOfAddr(x)
				case *ssa.Field:
					got, _ = fieldOfVal(x)
				}
				if got != fv {
					return
				}
				top := fn
				for top.Parent() != nil {
					top = top.Parent()
				}
				if region[top] {
					inside++
				} else {
					outside++
				}
			})
		}
		switch {
		case inside == 0:
			why = fmt.Sprintf("Document.%s is never used while serialising (Save/ToBytes and what they call): it does not influence what a derived document writes", fv.Name())
		case outside == 0:
			why = fmt.Sprintf("Document.%s is used only while serialising: scratch state of Save/ToBytes", fv.Name())
		}
	}
	notContentCache[fv] = why
	return why
}

// registryEntriesMutated: some module function ranges over the registry map held in field mapField
// and passes a value reached from an entry to a function that stores through that argument — a
// static callee whose mutation summary writes the parameter, or a function-valued parameter whose
// actual closures do.  Returns a description of the first such place, or "".
func registryEntriesMutated(p *Program, ms *mutSummary, mapField *types.Var) string {
	ms.computeAll()
	writesParam := func(f *ssa.Function, idx int) bool {
		if f == nil {
			return false
		}
		return len(ms.Params(f)[idx]) > 0
	}
	for _, g := range p.ModFuncs() {
		if g.Pkg == nil || g.Pkg.Pkg.Path() != pkgDoc {
			continue
		}
		// values reached from the entries of the map
		derived := map[ssa.Value]bool{}
		allInstrs(g, func(in ssa.Instruction) {
			rg, ok := in.(*ssa.Range)
			if !ok {
				return
			}
			if fv, _ := fieldOfAddr(stripLoadsAddr(rg.X)); fv == mapField {
				derived[rg] = true
			}
		})
		if len(derived) == 0 {
			continue
		}
		for changed := true; changed; {
			changed = false
			allInstrs(g, func(in ssa.Instruction) {
				v, ok := in.(ssa.Value)
				if !ok || derived[v] {
					return
				}
				switch x := in.(type) {
				case *ssa.Next, *ssa.Extract, *ssa.UnOp, *ssa.FieldAddr, *ssa.Field, *ssa.IndexAddr, *ssa.Index, *ssa.Phi, *ssa.Range, *ssa.Lookup:
					for _, op := range x.Operands(nil) {
						if *op != nil && derived[*op] {
							derived[v] = true
							changed = true
							return
						}
					}
				}
			})
		}
		found := ""
		allInstrs(g, func(in ssa.Instruction) {
			if found != "" {
				return
			}
			c, ok := in.(ssa.CallInstruction)
			if !ok {
				return
			}
			for ai, a := range c.Common().Args {
				if !derived[a] || !isPointerLike(a.Type()) {
					continue
				}
				if cal := staticCallee(c); cal != nil {
					if p.inModule(cal) && writesParam(cal, ai) {
						found = fmt.Sprintf("%s walks the registry and hands what an entry holds to %s, which writes through it (%s)", shortName(g), shortName(cal), p.pos(c.Pos()))
					}
					continue
				}
				// a call through a function-valued parameter of g: what do the callers pass?
				fp, ok := c.Common().Value.(*ssa.Parameter)
				if !ok || fp.Parent() != g {
					continue
				}
				pi := paramIndex(g, fp)
				for _, cs := range staticCallSites(p, g) {
					if pi < 0 || pi >= len(cs.Common().Args) {
						continue
					}
					var lit *ssa.Function
					switch y := cs.Common().Args[pi].(type) {
					case *ssa.MakeClosure:
						lit, _ = y.Fn.(*ssa.Function)
					case *ssa.Function:
						lit = y
					}
					if lit != nil && writesParam(lit, ai) {
						found = fmt.Sprintf("%s walks the registry and hands what an entry holds to a callback; %s passes one that writes through it (%s)", shortName(g), shortName(topLevel(cs.Parent())), p.pos(cs.Pos()))
					}
				}
			}
		})
		if found != "" {
			return found
		}
	}
	return ""
}
