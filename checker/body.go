package main

import (
	"fmt"
	"go/token"
	"go/types"
	"regexp"
	"sort"
	"strings"

	"golang.org/x/tools/go/ssa"
)

// ---------------------------------------------------------------------------
// R-ERR-ATOMIC: no path from entry to a failure return passes a write to receiver state.
// ---------------------------------------------------------------------------

// lazyInit: callee writes that ERR-ATOMIC does not count, one reason each.
var lazyInit = map[string]string{
	"(*document.Document).getSectionProperties": "find-or-create of an EMPTY section-properties element: observable only as an empty <w:sectPr/>, which carries no setting",
}

// emptyFreshSectPr: v is a *SectionProperties allocated right here whose fields are never stored
// (the literal &SectionProperties{}).
func emptyFreshSectPr(p *Program, v ssa.Value) bool {
	if mi, ok := v.(*ssa.MakeInterface); ok {
		v = mi.X
	}
	al, ok := v.(*ssa.Alloc)
	if !ok || !typeIs(al.Type(), pkgDoc, "SectionProperties") {
		return false
	}
	if refs := al.Referrers(); refs != nil {
		for _, u := range *refs {
			if _, isFA := u.(*ssa.FieldAddr); isFA {
				return false
			}
		}
	}
	return true
}

// appendedBodyElems: st is `X.Elements = append(X.Elements, e...)` on Body.Elements; returns the
// appended values.
func appendedBodyElems(p *Program, in ssa.Instruction) ([]ssa.Value, bool) {
	st, ok := in.(*ssa.Store)
	if !ok {
		return nil, false
	}
	ch, _ := addrChain(st.Addr)
	if len(ch) == 0 || !fieldIs(p, ch[len(ch)-1], pkgDoc, "Body", "Elements") {
		return nil, false
	}
	if bodyStoreShape(p, st) != "append-at-end" {
		return nil, false
	}
	ap := st.Val.(*ssa.Call)
	if len(ap.Call.Args) < 2 {
		return nil, false
	}
	return varargElems(ap.Call.Args[1]), true
}

// lazyOnlyWrites: every write fn makes through its parameters (itself or in callees) is the
// find-or-create append of an EMPTY section-properties element to the body — the one effect
// lazyInit exempts, whatever function the append statement happens to sit in.
func lazyOnlyWrites(p *Program, ms *mutSummary, fn *ssa.Function, depth int) bool {
	if depth > 4 || len(fn.Blocks) == 0 {
		return false
	}
	if _, ok := lazyInit[shortName(fn)]; ok {
		return true
	}
	isParam := func(v ssa.Value) bool {
		for _, q := range fn.Params {
			if v == ssa.Value(q) {
				return true
			}
		}
		return false
	}
	okAll, any := true, false
	for _, w := range directWrites(fn) {
		if allocBase(w.Target) != nil {
			continue
		}
		roots := deepRootsAddr(p, w.Target)
		through := false
		for r := range roots {
			if isParam(r) {
				through = true
			}
		}
		if !through {
			continue
		}
		any = true
		elems, ok := appendedBodyElems(p, w.In)
		if !ok || len(elems) != 1 || !emptyFreshSectPr(p, elems[0]) {
			okAll = false
		}
	}
	allInstrs(fn, func(in ssa.Instruction) {
		c, ok := in.(ssa.CallInstruction)
		if !ok {
			return
		}
		cal := staticCallee(c)
		if cal == nil || !p.inModule(cal) {
			return
		}
		writes := false
		for _, sites := range ms.Params(cal) {
			if len(sites) > 0 {
				writes = true
			}
		}
		if !writes {
			return
		}
		any = true
		if lazyOnlyWrites(p, ms, cal, depth+1) {
			return
		}
		// a helper that appends the element it is handed: lazy when it is handed a fresh empty one
		if k := appendsParamOnly(p, ms, cal); k >= 0 && k < len(c.Common().Args) && emptyFreshSectPr(p, c.Common().Args[k]) {
			return
		}
		okAll = false
	})
	return any && okAll
}

// appendsParamOnly: cal's only write through its parameters is `b.Elements = append(b.Elements, q)`
// with q its k-th parameter (no writing callees); returns k or -1.
func appendsParamOnly(p *Program, ms *mutSummary, cal *ssa.Function) int {
	if len(cal.Blocks) == 0 {
		return -1
	}
	k := -1
	for _, w := range directWrites(cal) {
		if allocBase(w.Target) != nil {
			continue
		}
		elems, ok := appendedBodyElems(p, w.In)
		if !ok || len(elems) != 1 {
			return -1
		}
		v := elems[0]
		if mi, ok := v.(*ssa.MakeInterface); ok {
			v = mi.X
		}
		found := -1
		for i, q := range cal.Params {
			if v == ssa.Value(q) {
				found = i
			}
		}
		if found < 0 || (k >= 0 && k != found) {
			return -1
		}
		k = found
	}
	bad := false
	allInstrs(cal, func(in ssa.Instruction) {
		if c, ok := in.(ssa.CallInstruction); ok {
			if c2 := staticCallee(c); c2 != nil && p.inModule(c2) {
				for _, sites := range ms.Params(c2) {
					if len(sites) > 0 {
						bad = true
					}
				}
			}
		}
	})
	if bad {
		return -1
	}
	return k
}

// atomicCallee (set by checkErrAtomicGroup): callees already shown to write only when they succeed.
var atomicCallee map[*ssa.Function]bool

// receiverWrites: instructions in fn that (may) write memory reachable from parameter pi.
// For a call to a callee that is itself error-atomic, the write is attributed to the first
// instruction of the success continuation (the callee changes nothing when it fails).
func receiverWrites(p *Program, ms *mutSummary, fn *ssa.Function, pi int) []ssa.Instruction {
	var out []ssa.Instruction
	par := ssa.Value(fn.Params[pi])
	for _, w := range directWrites(fn) {
		if allocBase(w.Target) != nil {
			continue
		}
		if deepRootsAddr(p, w.Target)[par] {
			out = append(out, w.In)
		}
	}
	allInstrs(fn, func(in ssa.Instruction) {
		c, ok := in.(ssa.CallInstruction)
		if !ok {
			return
		}
		if _, isDefer := in.(*ssa.Defer); isDefer {
			return
		}
		cal := staticCallee(c)
		if cal == nil || !p.inModule(cal) {
			return
		}
		for qi, sites := range ms.Params(cal) {
			if qi >= len(c.Common().Args) || len(sites) == 0 {
				continue
			}
			real := false
			for _, s := range sites {
				if _, lazy := lazyInit[shortName(s.Fn)]; !lazy {
					real = true
				}
			}
			if real && lazyOnlyWrites(p, ms, cal, 0) {
				// the same find-or-create of an empty element, decomposed differently (the append sits in
				// a helper that is handed the fresh, empty element)
				real = false
			}
			if !real {
				continue
			}
			if deepRoots(p, c.Common().Args[qi])[par] {
				// a bool-returning helper that changes nothing when it returns false
				// (`if !b.removeElementAt(i) { return false }`): effect only on the true continuation
				if call, isCall := in.(*ssa.Call); isCall && errorResultIndex(cal.Signature) < 0 && boolAtomic(p, ms, cal) {
					placed := false
					var conds []ssa.Value
					conds = append(conds, call)
					if call.Referrers() != nil {
						for _, u := range *call.Referrers() {
							if no, ok := u.(*ssa.UnOp); ok && no.Op == token.NOT {
								conds = append(conds, no)
							}
						}
					}
					for ci, cv := range conds {
						if cv.Referrers() == nil {
							continue
						}
						for _, u := range *cv.Referrers() {
							if iff, ok := u.(*ssa.If); ok {
								cont := iff.Block().Succs[0]
								if ci > 0 {
									cont = iff.Block().Succs[1]
								}
								if len(cont.Instrs) > 0 {
									out = append(out, cont.Instrs[0])
									placed = true
								}
							}
						}
					}
					if placed {
						return
					}
				}
				if call, isCall := in.(*ssa.Call); isCall && atomicCallee[cal] && errorResultIndex(cal.Signature) >= 0 {
					// effect only on the err == nil continuation
					ev := errValueOf(call)
					placed := false
					if ev != nil {
						if refs := ev.Referrers(); refs != nil {
							for _, u := range *refs {
								bo, ok := u.(*ssa.BinOp)
								if !ok || (bo.Op != token.NEQ && bo.Op != token.EQL) || (!isNilConst(bo.X) && !isNilConst(bo.Y)) {
									continue
								}
								if br := bo.Referrers(); br != nil {
									for _, u2 := range *br {
										if iff, ok := u2.(*ssa.If); ok {
											cont := iff.Block().Succs[1]
											if bo.Op == token.EQL {
												cont = iff.Block().Succs[0]
											}
											if len(cont.Instrs) > 0 {
												out = append(out, cont.Instrs[0])
												placed = true
											}
										}
									}
								}
							}
						}
						// returned directly: failure return ⇒ callee failed ⇒ nothing written
						if !placed {
							for _, ret := range returnsOf(fn) {
								for i := range ret.Results {
									if retResult(ret, i) == ev {
										placed = true
									}
								}
							}
						}
					}
					if placed {
						return
					}
				}
				out = append(out, in)
				return
			}
		}
	})
	return out
}

// boolAtomic: cal returns a single bool and none of its own writes can be followed by `return false`.
var boolAtomicMemo = map[*ssa.Function]int{}

func boolAtomic(p *Program, ms *mutSummary, cal *ssa.Function) bool {
	if v, ok := boolAtomicMemo[cal]; ok {
		return v == 1
	}
	boolAtomicMemo[cal] = 0
	res := cal.Signature.Results()
	if res.Len() != 1 || len(cal.Params) == 0 {
		return false
	}
	if b, ok := res.At(0).Type().Underlying().(*types.Basic); !ok || b.Kind() != types.Bool {
		return false
	}
	fails := failureReturns(cal)
	if len(fails) == 0 {
		return false
	}
	for pi := range cal.Params {
		for _, w := range receiverWrites(p, ms, cal, pi) {
			for _, ret := range fails {
				if w.Block() == ret.Block() && instrIndex(w) < instrIndex(ret) || w.Block() != ret.Block() && blockReaches(w.Block(), ret.Block()) {
					return false
				}
			}
		}
	}
	boolAtomicMemo[cal] = 1
	return true
}

// structuralFields: the table state the C09 property talks about (structure and content).
func writesStructure(p *Program, ms *mutSummary, fn *ssa.Function) bool {
	structural := func(f *types.Var) bool {
		if f == nil {
			return false
		}
		o := fieldOwner(p, f)
		if o == nil {
			return false
		}
		switch o.Obj().Name() + "." + f.Name() {
		case "Table.Rows", "TableRow.Cells", "TableGrid.Cols", "TableCell.Paragraphs", "TableCell.Tables", "TableCellProperties.GridSpan",
			"TableCellProperties.VMerge", "Paragraph.Runs", "Text.Content", "Run.Text", "Table.Grid":
			return true
		}
		return false
	}
	for _, sites := range ms.Params(fn) {
		for _, s := range sites {
			if structural(s.Field) {
				return true
			}
			if mu, ok := s.Instr.(*ssa.MapUpdate); ok {
				_ = mu
			}
		}
	}
	return false
}

// failureReturns: returns with a non-nil error, or `false` for functions whose only result is bool.
func failureReturns(fn *ssa.Function) []*ssa.Return {
	var out []*ssa.Return
	res := fn.Signature.Results()
	ei := errorResultIndex(fn.Signature)
	for _, ret := range returnsOf(fn) {
		if ei >= 0 {
			if !isNilConst(retResult(ret, ei)) {
				out = append(out, ret)
			}
			continue
		}
		if res.Len() == 1 {
			if b, ok := res.At(0).Type().Underlying().(*types.Basic); ok && b.Kind() == types.Bool {
				if c, ok := retResult(ret, 0).(*ssa.Const); ok && c.Value != nil && c.Value.String() == "false" {
					out = append(out, ret)
				}
			}
		}
	}
	return out
}

func blockReaches(from, to *ssa.BasicBlock) bool {
	return reachableBlocks(from, nil)[to]
}

func checkErrAtomic(r *Run, ms *mutSummary, fn *ssa.Function, rule string) {
	p := r.P
	writes := receiverWrites(p, ms, fn, 0)
	fails := failureReturns(fn)
	if len(fails) == 0 {
		r.Trivial(rule, shortName(fn), fn.Pos(), true, "no failure return")
		return
	}
	bad := ""
	var badPos token.Pos
	for _, ret := range fails {
		for _, w := range writes {
			reach := false
			if w.Block() == ret.Block() {
				reach = instrIndex(w) < instrIndex(ret)
			} else {
				reach = blockReaches(w.Block(), ret.Block())
			}
			if reach && undoOnly(fn, w) {
				// a store that only ever runs on the way to a failure return is the undo itself
				continue
			}
			if reach && compensated(p, ms, fn, w, ret) {
				// the failure path puts the written field back (undo of a multi-step operation): whether
				// the undo is exact is a value-level question this rule does not decide
				continue
			}
			if reach {
				what := "a store"
				if c, ok := w.(ssa.CallInstruction); ok {
					what = "the call to " + calleeName(c)
				}
				bad = fmt.Sprintf("%s at %s changes the receiver and can be followed by the failure return at %s", what, p.pos(w.Pos()), p.pos(ret.Pos()))
				badPos = w.Pos()
				break
			}
		}
		if bad != "" {
			break
		}
	}
	if bad == "" {
		r.Check(rule, shortName(fn), fn.Pos(), true, fmt.Sprintf("%d failure return(s), %d receiver write(s); no write precedes a failure return", len(fails), len(writes)))
	} else {
		r.Check(rule, shortName(fn), badPos, false, shortName(fn)+" can fail after it has already modified its receiver: "+bad)
	}
}

// checkErrAtomicGroup evaluates a group with a greatest fixpoint over "callee is atomic".
func checkErrAtomicGroup(r *Run, ms *mutSummary, fns []*ssa.Function) {
	atomicCallee = map[*ssa.Function]bool{}
	// the fixpoint also covers the unexported helpers the group's functions delegate to (a shared
	// "read all / modify / write all" step): a helper that can fail and writes through its
	// parameters is atomic or not by the same criterion; only the group's own functions are reported
	all := append([]*ssa.Function{}, fns...)
	inAll := map[*ssa.Function]bool{}
	for _, f := range fns {
		inAll[f] = true
	}
	for i := 0; i < len(all) && len(all) < 200; i++ {
		allInstrs(all[i], func(in ssa.Instruction) {
			c, ok := in.(*ssa.Call)
			if !ok {
				return
			}
			cal := staticCallee(c)
			if cal == nil || inAll[cal] || !r.P.inModule(cal) || len(cal.Blocks) == 0 || cal.Parent() != nil {
				return
			}
			if cal.Object() != nil && cal.Object().Exported() {
				return
			}
			if errorResultIndex(cal.Signature) < 0 || len(ms.Params(cal)) == 0 {
				return
			}
			inAll[cal] = true
			all = append(all, cal)
		})
	}
	for _, f := range all {
		atomicCallee[f] = true
	}
	for round := 0; round < 6; round++ {
		changed := false
		for _, f := range all {
			if !atomicCallee[f] {
				continue
			}
			probe := newRun(r.P, r.Prop, r.Tier)
			checkErrAtomic(probe, ms, f, "err-atomic")
			for _, o := range probe.obs {
				if o.Status == "violation" {
					atomicCallee[f] = false
					changed = true
				}
			}
		}
		if !changed {
			break
		}
	}
	for _, f := range fns {
		checkErrAtomic(r, ms, f, "err-atomic")
	}
	atomicCallee = nil
}

func ruleErrAtomicTable(r *Run) {
	p := r.P
	ms := newMutSummary(p, false)
	var fns []*ssa.Function
	for _, fn := range p.exportedAPI(pkgDoc) {
		if fn.Signature.Recv() == nil || !typeIs(fn.Signature.Recv().Type(), pkgDoc, "Table") {
			continue
		}
		if errorResultIndex(fn.Signature) < 0 || !writesStructure(p, ms, fn) {
			continue
		}
		fns = append(fns, fn)
	}
	checkErrAtomicGroup(r, ms, fns)
	r.Min("structural_table_methods_returning_error", len(fns), 12)
}

func ruleErrAtomicRemove(r *Run) {
	p := r.P
	ms := newMutSummary(p, false)
	n := 0
	for _, fn := range p.exportedAPI(pkgDoc) {
		if fn.Signature.Recv() == nil || !typeIs(fn.Signature.Recv().Type(), pkgDoc, "Document") {
			continue
		}
		if !strings.HasPrefix(fn.Name(), "Remove") {
			continue
		}
		// only those writing Body.Elements, themselves or through a private helper
		writesBody := false
		forEachInstr(helperGroup(p, fn), func(in ssa.Instruction) {
			if st, ok := in.(*ssa.Store); ok {
				if ch, _ := addrChain(st.Addr); len(ch) > 0 && fieldIs(p, ch[len(ch)-1], pkgDoc, "Body", "Elements") {
					writesBody = true
				}
			}
		})
		if !writesBody {
			for _, sites := range ms.Params(fn) {
				for _, w := range sites {
					if fieldIs(p, w.Field, pkgDoc, "Body", "Elements") {
						writesBody = true
					}
				}
			}
		}
		if !writesBody {
			continue
		}
		n++
		checkErrAtomic(r, ms, fn, "err-atomic")
	}
	r.Min("body_remove_functions", n, 3)
}

func ruleErrAtomicPage(r *Run) {
	p := r.P
	ms := newMutSummary(p, false)
	n := 0
	var fns []*ssa.Function
	for _, fn := range p.exportedAPI(pkgDoc) {
		if fn.Signature.Recv() == nil || !typeIs(fn.Signature.Recv().Type(), pkgDoc, "Document") {
			continue
		}
		if errorResultIndex(fn.Signature) < 0 {
			continue
		}
		pos := p.Fset.Position(fn.Pos())
		if !strings.HasSuffix(pos.Filename, "/page.go") {
			continue
		}
		n++
		fns = append(fns, fn)
	}
	checkErrAtomicGroup(r, ms, fns)
	r.Min("page_setters_returning_error", n, 6)
}

// ---------------------------------------------------------------------------
// R-BODY-WRITE
// ---------------------------------------------------------------------------

// bodyRewriters: functions allowed to change Body.Elements other than by appending at the end
// or (Remove*) deleting one element.  One line of reason each, confirmed by reading.
var bodyRewriters = map[string]string{
	"(*document.Document).setSectionProperties":           "replaces an existing sectPr in place (same index) or appends",
	"(*document.Document).parseDocumentElement":           "reader initialises the element list",
	"(*document.Document).UpdateTOC":                      "replaces the TOC content control in place",
	"(*document.Document).removeTOCEntries":               "TOC regeneration removes its own entries",
	"(*document.Document).AutoGenerateTOC":                "inserts the TOC at the requested position",
	"(*document.Document).insertTOCAtPosition":            "inserts the TOC at the requested position",
	"(*document.Document).collectHeadingsAndAddBookmarks": "inserts bookmark start/end around headings (TOC targets)",
	"(*document.Document).GenerateTOC":                    "inserts the generated TOC at the configured position",
	"(*document.Document).updateTOCWithEntries":           "replaces the TOC content control in place",
	"(*document.Document).addBookmarksToHeadings":         "inserts bookmark start/end around headings (TOC targets)",
	"(*document.Document).insertTOCSDT":                   "inserts the TOC content control at the requested position",
	"document.New":                                        "constructor initialises the element list",
	"document.openFromZipReader":                          "constructor initialises the element list",
}

func bodyStoreShape(p *Program, st *ssa.Store) string {
	// element store Body.Elements[i] = x
	if ia, ok := st.Addr.(*ssa.IndexAddr); ok {
		_ = ia
		return "replace-at-index"
	}
	c, ok := st.Val.(*ssa.Call)
	if !ok {
		if _, isMk := st.Val.(*ssa.MakeSlice); isMk {
			return "init"
		}
		// the element list of a Body object created right here (&Body{Elements: …}): nothing existed
		if fa, ok := st.Addr.(*ssa.FieldAddr); ok {
			if _, fresh := stripLoads(fa.X).(*ssa.Alloc); fresh {
				return "init"
			}
		}
		return "rebuild"
	}
	b, ok := c.Call.Value.(*ssa.Builtin)
	if !ok || b.Name() != "append" {
		return "rebuild"
	}
	isBodyElems := func(v ssa.Value) bool {
		ch, _ := addrChain(v)
		return len(ch) > 0 && fieldIs(p, ch[len(ch)-1], pkgDoc, "Body", "Elements")
	}
	a0 := c.Call.Args[0]
	if _, isLoad := a0.(*ssa.UnOp); isLoad && isBodyElems(a0) {
		return "append-at-end"
	}
	if s0, ok := a0.(*ssa.Slice); ok && isBodyElems(s0.X) && s0.Low == nil && s0.High != nil && len(c.Call.Args) == 2 {
		if s1, ok := c.Call.Args[1].(*ssa.Slice); ok && isBodyElems(s1.X) && s1.High == nil && s1.Low != nil {
			// low == high + 1 ?
			if add, ok := s1.Low.(*ssa.BinOp); ok && add.Op == token.ADD && add.X == s0.High {
				if one, ok := constInt(add.Y); ok && one == 1 {
					return "remove-one"
				}
			}
			return "remove-range"
		}
	}
	return "rebuild"
}

// delegatedRewriter: fn is reachable from a function of the frozen rewriter table and from no
// exported appending entry point.
func delegatedRewriter(p *Program, fn *ssa.Function) bool {
	fromRewriter := false
	for _, g := range p.ModFuncs() {
		if _, ok := bodyRewriters[shortName(g)]; ok && g != fn && p.staticReach(g)[fn] {
			fromRewriter = true
		}
	}
	if !fromRewriter {
		return false
	}
	for _, g := range p.exportedAPI(pkgDoc) {
		n := g.Name()
		if (strings.HasPrefix(n, "Add") || strings.HasPrefix(n, "Append") || strings.HasPrefix(n, "Create") || strings.HasPrefix(n, "Insert")) && g != fn && p.staticReach(g)[fn] {
			return false
		}
	}
	return true
}

// ruleBodyReplace (part of body-write): Document.Body itself is assigned only by constructors, the
// reader, clone functions — or as a nil-guarded lazy initialisation.
func ruleBodyReplace(r *Run) {
	p := r.P
	reader := buildReaderModel(p)
	clones := map[*ssa.Function]bool{}
	for _, c := range discoverClones(p, pkgDoc) {
		clones[c.Fn] = true
	}
	for _, fn := range p.ModFuncs() {
		if fn.Pkg == nil || fn.Pkg.Pkg.Path() != pkgDoc {
			continue
		}
		top := topLevel(fn)
		allInstrs(fn, func(in ssa.Instruction) {
			st, ok := in.(*ssa.Store)
			if !ok {
				return
			}
			fv, base := fieldOfAddr(st.Addr)
			if !fieldIs(p, fv, pkgDoc, "Document", "Body") {
				return
			}
			if _, fresh := stripLoads(base).(*ssa.Alloc); fresh || reader.IsReader[top] || clones[top] || isDocConstructor(top) {
				return
			}
			r.Check("body-write", "replace-body:"+shortName(top), st.Pos(), lazyDefaultStore(fn, fv, st),
				shortName(top)+" assigns Document.Body of an existing document; allowed only as `if d.Body == nil { d.Body = &Body{…} }` — anything else discards the elements already there")
		})
	}
}

func ruleBodyWrite(r *Run) {
	ruleBodyReplace(r)
	p := r.P
	n := 0
	shapes := map[string]int{}
	for _, fn := range p.ModFuncs() {
		if fn.Pkg == nil {
			continue
		}
		// template functions operate on a fresh clone; the markdown renderer only calls the document API
		allInstrs(fn, func(in ssa.Instruction) {
			st, ok := in.(*ssa.Store)
			if !ok {
				return
			}
			ch, _ := addrChain(st.Addr)
			if len(ch) == 0 {
				return
			}
			isField := fieldIs(p, ch[len(ch)-1], pkgDoc, "Body", "Elements")
			if !isField {
				return
			}
			n++
			shape := bodyStoreShape(p, st)
			shapes[shape]++
			name := shortName(topLevel(fn))
			key := fmt.Sprintf("%s:%s", name, shape)
			switch shape {
			case "append-at-end":
				r.Check("body-write", key, st.Pos(), true, "appends at the end of the element list")
			case "remove-one":
				ok := strings.Contains(name, ").Remove")
				if _, allowed := bodyRewriters[name]; allowed {
					ok = true
				}
				// a private helper that only the Remove* functions call
				if !ok {
					callers := p.callersIndex()[topLevel(fn)]
					ok = len(callers) > 0
					for c := range callers {
						if !strings.Contains(shortName(topLevel(c)), ").Remove") {
							ok = false
						}
					}
				}
				r.Check("body-write", key, st.Pos(), ok, "removal of exactly one element (append(e[:i], e[i+1:]...)) is reserved to the Remove* functions")
			case "init":
				// a fresh list for a fresh Body; replacing the Body of an existing document is decided
				// by body-replace below
				r.Check("body-write", key, st.Pos(), true, "initialises the element list of a Body created here")
			default:
				_, allowed := bodyRewriters[name]
				if fn.Signature.Recv() != nil && typeIs(topLevel(fn).Signature.Recv().Type(), pkgDoc, "TemplateEngine") {
					allowed = true // operates on the clone made for this render (R-RENDER-PURE)
				}
				// a function that one of the listed rewriters delegates to (UpdateTOC → UpdateTOCWithConfig)
				// and that no appending entry point (Add*/Append*/Create*) can reach
				if !allowed && delegatedRewriter(p, topLevel(fn)) {
					allowed = true
				}
				r.Check("body-write", key, st.Pos(), allowed,
					fmt.Sprintf("%s changes Body.Elements by %s; only the frozen list of rewriters may do anything but append at the end (an append-style constructor that inserts elsewhere breaks call order)", name, shape))
			}
		})
	}
	r.Min("body_element_stores", n, 30)
	for k, v := range shapes {
		r.Count("body_store_shape:"+k, v)
	}
}

// ---------------------------------------------------------------------------
// R-SECTPR-LAST
// ---------------------------------------------------------------------------

func ruleSectPrLast(r *Run) {
	_ = r.P
	fn := r.mustFunc(pkgDoc, "(*Body).MarshalXML")
	if fn == nil {
		return
	}
	loops := naturalLoops(fn)
	inLoop := func(b *ssa.BasicBlock) *natLoop {
		for _, l := range loops {
			if l.Body[b] && b != l.Header || l.Body[b] {
				return l
			}
		}
		return nil
	}
	var encSect, encOther []*ssa.Call
	var endTok []*ssa.Call
	allInstrs(fn, func(in ssa.Instruction) {
		c, ok := in.(*ssa.Call)
		if !ok {
			return
		}
		switch calleeName(c) {
		case "(*encoding/xml.Encoder).Encode", "(*encoding/xml.Encoder).EncodeElement":
			arg := c.Call.Args[1]
			if mi, ok := arg.(*ssa.MakeInterface); ok && typeIs(mi.X.Type(), pkgDoc, "SectionProperties") {
				encSect = append(encSect, c)
			} else {
				encOther = append(encOther, c)
			}
		case "(*encoding/xml.Encoder).EncodeToken":
			endTok = append(endTok, c)
		}
	})
	ok := len(encSect) == 1 && len(encOther) >= 1 && len(endTok) >= 2
	why := ""
	if !ok {
		why = fmt.Sprintf("expected exactly one Encode of the section properties, ≥1 Encode of other elements and start/end tokens; found %d/%d/%d", len(encSect), len(encOther), len(endTok))
	} else {
		es := encSect[0]
		if inLoop(es.Block()) != nil {
			ok, why = false, "the section properties are encoded inside a loop (possibly more than once)"
		}
		for _, eo := range encOther {
			l := inLoop(eo.Block())
			if l == nil {
				ok, why = false, "a body element is encoded outside the in-order loop"
				continue
			}
			if !l.Header.Dominates(es.Block()) || l.Body[es.Block()] {
				ok, why = false, "the section properties are not encoded after the loop over the other elements"
			}
			// the encoded value must be the loop's element (range over a slice filled in order)
			if !isBoundedRange(l) {
				ok, why = false, "other elements are not encoded by a plain range loop"
			}
		}
		// end token after sectPr
		last := endTok[len(endTok)-1]
		for _, t := range endTok {
			if t.Pos() > last.Pos() {
				last = t
			}
		}
		if !(es.Block().Dominates(last.Block()) || blockReaches(es.Block(), last.Block())) || inLoop(last.Block()) != nil {
			ok, why = false, "the end token is not emitted after the section properties"
		}
		if blockReaches(last.Block(), es.Block()) && last.Block() != es.Block() {
			ok, why = false, "the section properties can be encoded after the end token"
		}
	}
	// the list of other elements is built by in-order appends from one range over b.Elements:
	// inside that loop the element is tested for being the section properties; on the "is not"
	// side every path to the next iteration appends the element, on the "is" side none does.
	collectOK, collectWhy := false, "no range loop that separates *SectionProperties from the other elements was found"
	allInstrs(fn, func(in ssa.Instruction) {
		ta, isTA := in.(*ssa.TypeAssert)
		if !isTA || !ta.CommaOk || !typeIs(ta.AssertedType, pkgDoc, "SectionProperties") {
			return
		}
		l := inLoop(ta.Block())
		if l == nil || !isBoundedRange(l) {
			collectWhy = "the section properties are separated outside a plain range loop over the elements"
			return
		}
		// the branch on the assertion's ok result
		var iff *ssa.If
		if refs := ta.Referrers(); refs != nil {
			for _, u := range *refs {
				if ex, ok := u.(*ssa.Extract); ok && ex.Index == 1 && ex.Referrers() != nil {
					for _, u2 := range *ex.Referrers() {
						if x, ok := u2.(*ssa.If); ok {
							iff = x
						}
					}
				}
			}
		}
		if iff == nil {
			collectWhy = "the result of the *SectionProperties test does not steer a branch"
			return
		}
		isSect, isOther := iff.Block().Succs[0], iff.Block().Succs[1]
		// blocks that append the loop's element to a slice
		appendBlocks := map[*ssa.BasicBlock]bool{}
		for b := range l.Body {
			for _, in2 := range b.Instrs {
				c, ok := in2.(*ssa.Call)
				if !ok {
					continue
				}
				if bi, ok := c.Call.Value.(*ssa.Builtin); !ok || bi.Name() != "append" || len(c.Call.Args) < 2 {
					continue
				}
				for _, e := range varargElems(c.Call.Args[1]) {
					if e == ta.X {
						appendBlocks[b] = true
					}
				}
			}
			// the single-pass shape: the element is encoded right away instead of being collected
			for _, in2 := range b.Instrs {
				c, ok := in2.(*ssa.Call)
				if !ok || !strings.Contains(calleeName(c), "encoding/xml.Encoder).Encode") || calleeName(c) == "(*encoding/xml.Encoder).EncodeToken" {
					continue
				}
				if len(c.Call.Args) > 1 && (c.Call.Args[1] == ta.X || derivesFrom(c.Call.Args[1], ta.X)) {
					appendBlocks[b] = true
				}
			}
		}
		if len(appendBlocks) == 0 {
			collectWhy = "the loop element is neither collected nor encoded"
			return
		}
		cut := map[*ssa.BasicBlock]bool{}
		for b := range appendBlocks {
			cut[b] = true
		}
		// (a) not-a-section side: the header must not be reachable without passing an append
		if !appendBlocks[isOther] && reachableBlocks(isOther, cut)[l.Header] {
			collectOK, collectWhy = false, "some element that is not the section properties can reach the next iteration without being collected (it is dropped from the saved body)"
			return
		}
		// (b) section side: no append before the next iteration
		for b := range reachableBlocks(isSect, map[*ssa.BasicBlock]bool{l.Header: true}) {
			if appendBlocks[b] {
				collectOK, collectWhy = false, "the section properties are also collected with the other elements (they would be written in place and again at the end)"
				return
			}
		}
		collectOK = true
	})
	if ok && !collectOK {
		ok, why = false, collectWhy
	}
	r.Check("sectpr-last", "(*Body).MarshalXML", fn.Pos(), ok,
		"Body.MarshalXML must encode the non-section elements in list order and the section properties exactly once, last: "+map[bool]string{true: "shape confirmed", false: why}[ok])
}

// ---------------------------------------------------------------------------
// R-INDEX-ADEQ: guard row = use row (C09)
// ---------------------------------------------------------------------------

// rowDesignator: for a value denoting `<table>.Rows[idx].Cells`, a normalised name of idx.
func rowDesignator(p *Program, v ssa.Value, loops []*natLoop) (string, bool) {
	// v is a load of FieldAddr(IndexAddr(load(FieldAddr(t, Rows)), idx), Cells) or a copy var's Cells
	v = stripLoads(v)
	fa, ok := v.(*ssa.FieldAddr)
	if !ok {
		if f, ok := v.(*ssa.Field); ok {
			fv, base := fieldOfVal(f)
			if fieldIs(p, fv, pkgDoc, "TableRow", "Cells") {
				return designatorOfRow(p, base, loops)
			}
		}
		return "", false
	}
	fv, base := fieldOfAddr(fa)
	if !fieldIs(p, fv, pkgDoc, "TableRow", "Cells") {
		return "", false
	}
	return designatorOfRow(p, base, loops)
}

func designatorOfRow(p *Program, row ssa.Value, loops []*natLoop) (string, bool) {
	row = stripLoads(row)
	switch x := row.(type) {
	case *ssa.IndexAddr:
		if ch, _ := addrChain(x.X); len(ch) > 0 && fieldIs(p, ch[len(ch)-1], pkgDoc, "Table", "Rows") {
			return indexDesignator(x.Index, loops), true
		}
	case *ssa.Index:
		if ch, _ := addrChain(x.X); len(ch) > 0 && fieldIs(p, ch[len(ch)-1], pkgDoc, "Table", "Rows") {
			return indexDesignator(x.Index, loops), true
		}
	case *ssa.Alloc:
		// local copy `templateRow := t.Rows[0]`; a variable assigned from several rows
		// (`if position > 0 { templateRow = t.Rows[position-1] }`) designates none of them in particular
		var ds []string
		if refs := x.Referrers(); refs != nil {
			for _, in := range *refs {
				if st, ok := in.(*ssa.Store); ok && st.Addr == ssa.Value(x) {
					if d, ok := designatorOfRow(p, st.Val, loops); ok {
						dup := false
						for _, e := range ds {
							if e == d {
								dup = true
							}
						}
						if !dup {
							ds = append(ds, d)
						}
					}
				}
			}
		}
		sort.Strings(ds)
		switch len(ds) {
		case 0:
		case 1:
			return ds[0], true
		default:
			return "one-of(" + strings.Join(ds, "|") + ")", true
		}
	case *ssa.Phi:
		var ds []string
		for _, e := range x.Edges {
			if d, ok := designatorOfRow(p, e, loops); ok {
				ds = append(ds, d)
			}
		}
		sort.Strings(ds)
		if len(ds) == 1 {
			return ds[0], true
		}
		if len(ds) > 1 {
			return "one-of(" + strings.Join(ds, "|") + ")", true
		}
	}
	return "", false
}

func indexDesignator(idx ssa.Value, loops []*natLoop) string {
	if c, ok := constInt(idx); ok {
		return fmt.Sprintf("#%d", c)
	}
	// loop index: phi in a loop header (range over rows or counted loop)
	if ph, ok := idx.(*ssa.Phi); ok {
		for _, l := range loops {
			if l.Header == ph.Block() {
				return "∀loop:" + ph.Name()
			}
		}
	}
	if bo, ok := idx.(*ssa.BinOp); ok && bo.Op == token.ADD {
		if ph, ok := bo.X.(*ssa.Phi); ok {
			if one, ok := constInt(bo.Y); ok && one == 1 {
				for _, l := range loops {
					if l.Header == ph.Block() {
						return "∀loop:" + ph.Name()
					}
				}
			}
		}
	}
	return "v:" + idx.Name()
}

// stableDesignator removes SSA register names from a row designator so that obligation keys do
// not change when unrelated edits renumber the registers.
func stableDesignator(d string) string {
	d = regexp.MustCompile(`∀loop:[A-Za-z0-9_]+`).ReplaceAllString(d, "∀loop")
	d = regexp.MustCompile(`v:t[0-9]+`).ReplaceAllString(d, "v")
	return d
}

// baseVar strips `+ const` / `- const` from an index expression.
func baseVar(v ssa.Value) ssa.Value {
	for {
		if bo, ok := v.(*ssa.BinOp); ok && (bo.Op == token.ADD || bo.Op == token.SUB) {
			if _, ok := constInt(bo.Y); ok {
				v = bo.X
				continue
			}
		}
		return v
	}
}

// neqLenRegion: block at lies in the false-edge region of a comparison `v == len(cells of row du)`
// (or the true-edge region of `!=`).
func neqLenRegion(p *Program, fn *ssa.Function, v ssa.Value, du string, loops []*natLoop, at *ssa.BasicBlock) bool {
	for _, b := range fn.Blocks {
		if len(b.Instrs) == 0 || len(b.Succs) != 2 {
			continue
		}
		iff, ok := b.Instrs[len(b.Instrs)-1].(*ssa.If)
		if !ok {
			continue
		}
		bo, ok := iff.Cond.(*ssa.BinOp)
		if !ok || (bo.Op != token.EQL && bo.Op != token.NEQ) {
			continue
		}
		for _, pair := range [][2]ssa.Value{{bo.X, bo.Y}, {bo.Y, bo.X}} {
			if pair[0] != v {
				continue
			}
			lc, ok := pair[1].(*ssa.Call)
			if !ok {
				continue
			}
			if bi, ok := lc.Call.Value.(*ssa.Builtin); !ok || bi.Name() != "len" {
				continue
			}
			if d, ok := rowDesignator(p, lc.Call.Args[0], loops); !ok || d != du {
				continue
			}
			neqSucc := b.Succs[1]
			if bo.Op == token.NEQ {
				neqSucc = b.Succs[0]
			}
			if edgeRegion(b, neqSucc)[at] {
				return true
			}
		}
	}
	return false
}

func ruleIndexAdeq(r *Run) {
	p := r.P
	nUses := 0
	for _, fn := range p.ModFuncs() {
		if fn.Signature.Recv() == nil || !typeIs(fn.Signature.Recv().Type(), pkgDoc, "Table") || fn.Parent() != nil {
			continue
		}
		loops := naturalLoops(fn)
		// len values per designator, and variables equal to them
		lenOf := map[ssa.Value]string{} // value → designator of the row whose Cells length it is
		allInstrs(fn, func(in ssa.Instruction) {
			c, ok := in.(*ssa.Call)
			if !ok {
				return
			}
			if b, ok := c.Call.Value.(*ssa.Builtin); ok && b.Name() == "len" {
				if d, ok := rowDesignator(p, c.Call.Args[0], loops); ok {
					lenOf[c] = d
				}
			}
		})
		// comparisons: variable → set of designators it is compared against (any relational op)
		boundBy := map[ssa.Value]map[string]bool{}
		allInstrs(fn, func(in ssa.Instruction) {
			bo, ok := in.(*ssa.BinOp)
			if !ok {
				return
			}
			switch bo.Op {
			case token.LSS, token.LEQ, token.GTR, token.GEQ:
			default:
				return
			}
			for _, pair := range [][2]ssa.Value{{bo.X, bo.Y}, {bo.Y, bo.X}} {
				lv := pair[1]
				// len(...) - k etc.
				d, ok := lenOf[baseVar(lv)]
				if !ok {
					continue
				}
				v := baseVar(pair[0])
				if boundBy[v] == nil {
					boundBy[v] = map[string]bool{}
				}
				boundBy[v][d] = true
			}
		})
		helperBound := map[ssa.Value]int64{} // v − len(cells of every row) ≤ w, established by a validating helper
		helperName := map[ssa.Value]string{}
		// …and comparisons made for this function by a validating helper of the same table
		// (t.firstRowShorterThan(position)): the helper compares its parameter with the cell count
		// of every row in a loop over t.Rows
		allInstrs(fn, func(in ssa.Instruction) {
			c, ok := in.(*ssa.Call)
			if !ok {
				return
			}
			cal := staticCallee(c)
			if cal == nil || cal == fn || !p.inModule(cal) || cal.Signature.Recv() == nil || !typeIs(cal.Signature.Recv().Type(), pkgDoc, "Table") || len(cal.Blocks) == 0 {
				return
			}
			if len(c.Call.Args) == 0 || stripLoads(c.Call.Args[0]) != ssa.Value(fn.Params[0]) {
				return
			}
			cloops := naturalLoops(cal)
			allInstrs(cal, func(in2 ssa.Instruction) {
				bo, ok := in2.(*ssa.BinOp)
				if !ok {
					return
				}
				switch bo.Op {
				case token.LSS, token.LEQ, token.GTR, token.GEQ:
				default:
					return
				}
				for _, pair := range [][2]ssa.Value{{bo.X, bo.Y}, {bo.Y, bo.X}} {
					lc, ok := baseVar(pair[1]).(*ssa.Call)
					if !ok {
						continue
					}
					if b, ok := lc.Call.Value.(*ssa.Builtin); !ok || b.Name() != "len" {
						continue
					}
					dsg, ok := rowDesignator(p, lc.Call.Args[0], cloops)
					if !ok || !strings.HasPrefix(dsg, "∀loop:") {
						continue
					}
					pi := paramIndex(cal, baseVar(pair[0]))
					if pi < 0 || pi >= len(c.Call.Args) {
						continue
					}
					v := baseVar(c.Call.Args[pi])
					if boundBy[v] == nil {
						boundBy[v] = map[string]bool{}
					}
					boundBy[v]["∀loop:"+cal.Name()] = true
					// what a passed validation establishes: the helper leaves the loop (reports the row)
					// when `param OP len` holds, so afterwards NOT(param OP len) holds for every row:
					// param − len ≤ w
					op := bo.Op
					if pair[0] == bo.Y { // written as  len OP' param
						switch op {
						case token.LSS:
							op = token.GTR
						case token.LEQ:
							op = token.GEQ
						case token.GTR:
							op = token.LSS
						case token.GEQ:
							op = token.LEQ
						}
					}
					_, po := offsetOf(pair[0])
					_, lo := offsetOf(pair[1])
					_, ao := offsetOf(c.Call.Args[pi])
					var w int64
					okW := true
					switch op {
					case token.GTR: // rejects param+po > len+lo  ⇒ param ≤ len + lo − po
						w = lo - po
					case token.GEQ: // rejects param+po ≥ len+lo ⇒ param ≤ len + lo − po − 1
						w = lo - po - 1
					default:
						okW = false // the helper rejects SMALL values: no upper bound comes out of it
					}
					if okW {
						w -= ao // the argument is v+ao
						if old, ok := helperBound[v]; !ok || w < old {
							helperBound[v] = w
						}
						helperName[v] = cal.Name()
					}
				}
			})
		})
		// uses
		seen := map[string]bool{}
		allInstrs(fn, func(in ssa.Instruction) {
			var coll ssa.Value
			var idxs []ssa.Value
			switch x := in.(type) {
			case *ssa.IndexAddr:
				coll, idxs = x.X, []ssa.Value{x.Index}
			case *ssa.Slice:
				coll = x.X
				if x.Low != nil {
					idxs = append(idxs, x.Low)
				}
				if x.High != nil {
					idxs = append(idxs, x.High)
				}
			default:
				return
			}
			du, ok := rowDesignator(p, coll, loops)
			if !ok {
				return
			}
			for _, idx := range idxs {
				if _, isConst := constInt(idx); isConst {
					continue
				}
				bv := baseVar(idx)
				// range index over the same cells, or counted loop variable
				if _, isPhi := bv.(*ssa.Phi); isPhi {
					if len(boundBy[bv]) == 0 {
						continue // a loop counter bounded elsewhere: not this rule's shape
					}
				}
				// a value that is itself len(...) of a row
				if d, ok := lenOf[bv]; ok {
					if boundBy[bv] == nil {
						boundBy[bv] = map[string]bool{}
					}
					boundBy[bv][d] = true
				}
				ds := boundBy[bv]
				if len(ds) == 0 {
					continue // unbounded here: not this rule's shape (no contradiction to report)
				}
				nUses++
				same := false
				var others []string
				for d := range ds {
					if d == du || strings.HasPrefix(d, "∀loop:") && !strings.HasPrefix(du, "∀loop:") {
						same = true
					} else if strings.HasPrefix(d, "∀loop:") && strings.HasPrefix(du, "∀loop:") {
						// a validating loop over all rows before a mutating loop over all rows
						same = true
					} else {
						others = append(others, d)
					}
				}
				sort.Strings(others)
				key := fmt.Sprintf("%s:row[%s]", shortName(fn), stableDesignator(du))
				// validated only by a helper: is what the helper establishes strong enough for this use?
				// an element access needs idx < len, a slice bound idx ≤ len
				if w, viaHelper := helperBound[bv]; viaHelper && same && strings.HasPrefix(du, "∀loop:") {
					inline := false
					for d := range ds {
						if strings.HasPrefix(d, "∀loop:") && d != "∀loop:"+helperName[bv] {
							inline = true
						}
					}
					if !inline {
						_, k := offsetOf(idx)
						need := int64(0) - k
						if _, isIdx := in.(*ssa.IndexAddr); isIdx {
							need = -1 - k
						}
						have := w
						// inside the false branch of `idx == len(cells of this row)` the bound is strict
						if neqLenRegion(p, fn, bv, du, loops, in.Block()) {
							have--
						}
						okS := have <= need
						skey := key + ":strength"
						if !seen[skey] || !okS {
							seen[skey] = true
							r.Check("index-adeq", skey, in.Pos(), okS,
								fmt.Sprintf("%s uses %s%+d on the cells of every row after the validation by %s, which only establishes value − len(cells) ≤ %d (needed: ≤ %d): a row that is exactly that short passes the check and the use is out of range — a panic with the table half edited", shortName(fn), "the validated value", k, helperName[bv], have, need))
						}
					}
				}
				if seen[key] && same {
					continue
				}
				seen[key] = true
				r.Check("index-adeq", key, in.Pos(), same,
					fmt.Sprintf("%s indexes/slices the cells of row %s with a value that is only checked against the cell count of row %v: rows need not have equal length (horizontal merges remove cells), so the use can be out of range", shortName(fn), du, others))
			}
		})
	}
	r.Min("guarded_cell_index_uses", nUses, 8)
}

// ---------------------------------------------------------------------------
// R-NIL-GUARD for Table.Grid (C06/C09)
// ---------------------------------------------------------------------------

func ruleNilGuardGrid(r *Run) {
	p := r.P
	n := 0
	ms := newMutSummary(p, false)
	ms.computeAll()
	for _, fn := range p.ModFuncs() {
		if fn.Pkg == nil || fn.Pkg.Pkg.Path() != pkgDoc || fn.Parent() != nil {
			continue
		}
		flows := map[*types.Var]map[ssa.Value]*nonNilFlow{}
		checked := map[string]bool{}
		allInstrs(fn, func(in ssa.Instruction) {
			fa, ok := in.(*ssa.FieldAddr)
			if !ok {
				return
			}
			// deref of a *TableGrid loaded from Table.Grid
			ld, ok := fa.X.(*ssa.UnOp)
			if !ok || ld.Op != token.MUL {
				return
			}
			gfv, gbase := fieldOfAddr(ld.X)
			if !fieldIs(p, gfv, pkgDoc, "Table", "Grid") {
				return
			}
			// constructed here?
			if _, isAlloc := stripLoads(gbase).(*ssa.Alloc); isAlloc {
				return
			}
			n++
			// guarded: forward must-analysis "t.Grid is non-nil here" (gen: true edge of a nil test of
			// the same path, store of a non-nil value; kill: other stores to the path, calls that may
			// write Table.Grid; meet: intersection over predecessors)
			if flows[gfv] == nil {
				flows[gfv] = map[ssa.Value]*nonNilFlow{}
			}
			key0 := stripLoads(gbase)
			nf := flows[gfv][key0]
			if nf == nil {
				nf = newNonNilFlow(fn, gfv, gbase, func(c ssa.CallInstruction) bool { return callMayWriteField(ms, c, gfv) })
				flows[gfv][key0] = nf
			}
			guarded := nf.nonNilAt(fa)
			key := shortName(fn)
			if checked[key] && guarded {
				return
			}
			checked[key] = true
			r.Check("nil-guard", key+":Table.Grid", fa.Pos(), guarded,
				fmt.Sprintf("%s dereferences t.Grid without a nil check; a table read from a document without <w:tblGrid> has Grid == nil (the reader sets it only in the tblGrid case), so the call panics", shortName(fn)))
		})
	}
	r.Min("table_grid_dereferences", n, 5)
}

type anyNilTest struct {
	Base   ssa.Value
	Field  *types.Var
	NonNil map[*ssa.BasicBlock]bool
}

// fieldNilTestsAny: tests `X.f != nil` for any base X.
func fieldNilTestsAny(fn *ssa.Function) []anyNilTest {
	var out []anyNilTest
	for _, b := range fn.Blocks {
		if len(b.Instrs) == 0 {
			continue
		}
		iff, ok := b.Instrs[len(b.Instrs)-1].(*ssa.If)
		if !ok {
			continue
		}
		bin, ok := iff.Cond.(*ssa.BinOp)
		if !ok || (bin.Op != token.NEQ && bin.Op != token.EQL) {
			continue
		}
		var v ssa.Value
		if isNilConst(bin.Y) {
			v = bin.X
		} else if isNilConst(bin.X) {
			v = bin.Y
		} else {
			continue
		}
		ld, ok := v.(*ssa.UnOp)
		if !ok || ld.Op != token.MUL {
			continue
		}
		fv, base := fieldOfAddr(ld.X)
		if fv == nil {
			continue
		}
		t := b.Succs[0]
		if bin.Op == token.EQL {
			t = b.Succs[1]
		}
		region := edgeRegion(b, t)
		out = append(out, anyNilTest{Base: base, Field: fv, NonNil: region})
	}
	return out
}

// ---------------------------------------------------------------------------
// nonNilFlow: forward must-analysis over one function's CFG deciding whether the pointer stored
// in field fv of the object `base` is known to be non-nil at an instruction.
// ---------------------------------------------------------------------------

type nonNilFlow struct {
	fn    *ssa.Function
	fv    *types.Var
	base  ssa.Value
	kills func(ssa.CallInstruction) bool
	in    map[*ssa.BasicBlock]bool
	depth int
}

func newNonNilFlow(fn *ssa.Function, fv *types.Var, base ssa.Value, kills func(ssa.CallInstruction) bool) *nonNilFlow {
	return newNonNilFlowDepth(fn, fv, base, kills, 0)
}

func newNonNilFlowDepth(fn *ssa.Function, fv *types.Var, base ssa.Value, kills func(ssa.CallInstruction) bool, depth int) *nonNilFlow {
	nf := &nonNilFlow{fn: fn, fv: fv, base: base, kills: kills, in: map[*ssa.BasicBlock]bool{}, depth: depth}
	// optimistic initialisation (true everywhere but the entry), iterate down to the greatest fixpoint
	for _, b := range fn.Blocks {
		nf.in[b] = b.Index != 0
	}
	for changed := true; changed; {
		changed = false
		for _, b := range fn.Blocks {
			if b.Index == 0 {
				continue
			}
			v := len(b.Preds) > 0
			for _, pr := range b.Preds {
				if !nf.edgeFact(pr, b) {
					v = false
				}
			}
			if v != nf.in[b] {
				nf.in[b] = v
				changed = true
			}
		}
	}
	return nf
}

// samePath: addr is the address of field fv of the same base object.
func (nf *nonNilFlow) samePath(addr ssa.Value) bool {
	fv, base := fieldOfAddr(addr)
	return fv == nf.fv && sameBase(base, nf.base)
}

func definitelyNonNil(v ssa.Value) bool {
	switch x := v.(type) {
	case *ssa.Alloc, *ssa.MakeMap, *ssa.MakeSlice, *ssa.MakeChan, *ssa.MakeClosure, *ssa.MakeInterface, *ssa.FieldAddr, *ssa.IndexAddr, *ssa.Function, *ssa.Global:
		return true
	case *ssa.ChangeType:
		return definitelyNonNil(x.X)
	}
	return false
}

// transfer applies one instruction to the fact.
func (nf *nonNilFlow) transfer(in ssa.Instruction, s bool) bool {
	switch x := in.(type) {
	case *ssa.Store:
		if nf.samePath(x.Addr) {
			return definitelyNonNil(x.Val)
		}
		// a store of a whole struct value over the base object
		if fv, _ := fieldOfAddr(x.Addr); fv == nil && sameBase(x.Addr, nf.base) {
			return false
		}
	case ssa.CallInstruction:
		if nf.kills != nil && nf.kills(x) {
			return false
		}
	}
	return s
}

func (nf *nonNilFlow) out(b *ssa.BasicBlock) bool {
	s := nf.in[b]
	for _, in := range b.Instrs {
		s = nf.transfer(in, s)
	}
	return s
}

// edgeFact: the fact on the CFG edge from→to, including what the branch condition teaches.
func (nf *nonNilFlow) edgeFact(from, to *ssa.BasicBlock) bool {
	s := nf.out(from)
	if len(from.Instrs) == 0 {
		return s
	}
	iff, ok := from.Instrs[len(from.Instrs)-1].(*ssa.If)
	if !ok || from.Succs[0] == from.Succs[1] {
		return s
	}
	bin, ok := iff.Cond.(*ssa.BinOp)
	if ok && !s && nf.countWitnessEdge(bin, from, to) {
		return true
	}
	if !ok || (bin.Op != token.NEQ && bin.Op != token.EQL) {
		return s
	}
	var v ssa.Value
	if isNilConst(bin.Y) {
		v = bin.X
	} else if isNilConst(bin.X) {
		v = bin.Y
	} else {
		return s
	}
	ld, ok := v.(*ssa.UnOp)
	if !ok || ld.Op != token.MUL || !nf.samePath(ld.X) {
		return s
	}
	// the load must not be followed, inside the block, by something that changes the path
	for i := instrIndex(ld) + 1; i < len(from.Instrs); i++ {
		if ld.Block() == from && !nf.transfer(from.Instrs[i], true) {
			return s
		}
	}
	if ld.Block() != from {
		return s
	}
	nonNilSucc := from.Succs[0]
	if bin.Op == token.EQL {
		nonNilSucc = from.Succs[1]
	}
	if to == nonNilSucc {
		return true
	}
	return s
}

// countWitnessEdge: the branch establishes n != 0 for a value n = count(base) computed by a module
// function that yields 0 whenever the field is nil (GetGridColumnCount: `if t.Grid == nil { return 0 }
// return len(t.Grid.Cols)`).  `0 <= i && i < n` on the taken edge implies n > 0, hence field != nil.
func (nf *nonNilFlow) countWitnessEdge(bin *ssa.BinOp, from, to *ssa.BasicBlock) bool {
	taken := to == from.Succs[0]
	isWitness := func(v ssa.Value) bool {
		c, ok := v.(*ssa.Call)
		if !ok {
			return false
		}
		cal := staticCallee(c)
		if cal == nil || len(cal.Blocks) == 0 || cal == nf.fn || nf.depth > 1 {
			return false
		}
		if b, ok := c.Type().Underlying().(*types.Basic); !ok || b.Info()&types.IsInteger == 0 {
			return false
		}
		for k, a := range c.Call.Args {
			if !sameBase(a, nf.base) || k >= len(cal.Params) {
				continue
			}
			// nothing in this function may change the field (the witness was computed earlier)
			clean := true
			for _, b := range nf.fn.Blocks {
				for _, in := range b.Instrs {
					if in != ssa.Instruction(c) && !nf.transfer(in, true) {
						clean = false
					}
				}
			}
			if !clean {
				continue
			}
			sub := newNonNilFlowDepth(cal, nf.fv, cal.Params[k], nil, nf.depth+1)
			ok := true
			for _, ret := range returnsOf(cal) {
				if len(ret.Results) != 1 {
					ok = false
					break
				}
				if z, isC := constInt(retResult(ret, 0)); isC && z == 0 {
					continue
				}
				if !sub.nonNilAt(ret) {
					ok = false
				}
			}
			if ok {
				return true
			}
		}
		return false
	}
	nonNeg := func(v ssa.Value) bool {
		if z, ok := constInt(v); ok {
			return z >= 0
		}
		// a dominating test `v < 0` whose false edge (or `v >= 0` whose true edge) dominates `from`
		for _, b := range nf.fn.Blocks {
			if len(b.Instrs) == 0 {
				continue
			}
			iff, ok := b.Instrs[len(b.Instrs)-1].(*ssa.If)
			if !ok {
				continue
			}
			c, ok := iff.Cond.(*ssa.BinOp)
			if !ok || c.X != v {
				continue
			}
			z, isC := constInt(c.Y)
			if !isC || z != 0 {
				continue
			}
			var okSucc *ssa.BasicBlock
			switch c.Op {
			case token.LSS:
				okSucc = b.Succs[1]
			case token.GEQ:
				okSucc = b.Succs[0]
			}
			if okSucc != nil && b.Succs[0] != b.Succs[1] && len(okSucc.Preds) == 1 && okSucc.Dominates(from) {
				return true
			}
		}
		return false
	}
	switch bin.Op {
	case token.LSS: // a < n
		return taken && isWitness(bin.Y) && nonNeg(bin.X)
	case token.GEQ: // a >= n  (false edge: a < n)
		return !taken && isWitness(bin.Y) && nonNeg(bin.X)
	case token.GTR: // n > a
		return taken && isWitness(bin.X) && nonNeg(bin.Y)
	case token.LEQ: // n <= a  (false edge: n > a)
		return !taken && isWitness(bin.X) && nonNeg(bin.Y)
	case token.NEQ: // n != 0
		if z, ok := constInt(bin.Y); ok && z == 0 {
			return taken && isWitness(bin.X)
		}
	case token.EQL: // n == 0 (false edge)
		if z, ok := constInt(bin.Y); ok && z == 0 {
			return !taken && isWitness(bin.X)
		}
	}
	return false
}

func (nf *nonNilFlow) nonNilAt(at ssa.Instruction) bool {
	b := at.Block()
	s := nf.in[b]
	for _, in := range b.Instrs {
		if in == at {
			return s
		}
		s = nf.transfer(in, s)
	}
	return s
}

// callMayWriteField: the call's static callee (or, transitively, its callees by summary) stores
// into field fv of some object reachable from its parameters.
func callMayWriteField(ms *mutSummary, c ssa.CallInstruction, fv *types.Var) bool {
	cal := staticCallee(c)
	if cal == nil {
		// dynamic call: module closures / interface methods could write anything; the module has no
		// interface method or function value that takes a *Table, so only closures matter
		if mc, ok := c.Common().Value.(*ssa.MakeClosure); ok {
			cal, _ = mc.Fn.(*ssa.Function)
		}
		if cal == nil {
			return false
		}
	}
	for _, sites := range ms.Params(cal) {
		for _, w := range sites {
			if w.Field == fv {
				return true
			}
		}
	}
	return false
}

// ---------------------------------------------------------------------------
// R-GRID-BOUND (C06, C09): every index / slice bound applied to Table.Grid.Cols follows from the
// comparisons that dominate it.  A small difference-bound prover over one function: nodes are
// integer SSA values (modulo ±constant) and len(t.Grid.Cols); every dominating branch contributes
// x − y ≤ c for the edge taken; an index use S[v+k] needs v+k ≤ len−1, a slice bound S[v+k:] /
// S[:v+k] needs v+k ≤ len.  Only uses that sit under a guard mentioning len(t.Grid.Cols) are
// obligations (a use with no such guard at all is not this rule's shape); a guard on the wrong
// variable (startIndex checked, endIndex+1 used) is the defect it finds: the grid of an opened
// table can be shorter than its rows, so the call panics.
// ---------------------------------------------------------------------------

func offsetOf(v ssa.Value) (ssa.Value, int64) {
	var off int64
	for {
		if bo, ok := v.(*ssa.BinOp); ok && (bo.Op == token.ADD || bo.Op == token.SUB) {
			if c, ok := constInt(bo.Y); ok {
				if bo.Op == token.ADD {
					off += c
				} else {
					off -= c
				}
				v = bo.X
				continue
			}
		}
		return v, off
	}
}

type dbEdge struct {
	from, to string
	w        int64
} // to − from ≤ w

const dbLenNode = "len(Grid.Cols)"

type dbProver struct {
	p       *Program
	isLenOf func(ssa.Value) bool
	entry   map[*ssa.Function][]dbEdge
	busy    map[*ssa.Function]bool
	depth   int
}

func (d *dbProver) node(v ssa.Value) (string, int64, bool) {
	b, off := offsetOf(v)
	if c, ok := b.(*ssa.Call); ok {
		if bi, ok := c.Call.Value.(*ssa.Builtin); ok && bi.Name() == "len" && d.isLenOf(c.Call.Args[0]) {
			return dbLenNode, off, true
		}
	}
	if c, ok := constInt(b); ok {
		return "0", off + c, true
	}
	if bt, ok := b.Type().Underlying().(*types.Basic); !ok || bt.Info()&types.IsInteger == 0 {
		return "", 0, false
	}
	// an integer carried in a struct value: a field of a by-value struct parameter is a node of its
	// own; a field of a local struct built by a composite literal is the value stored there
	if d.depth < 4 {
		switch x := b.(type) {
		case *ssa.Field:
			if par, ok := x.X.(*ssa.Parameter); ok {
				return fmt.Sprintf("%p.%d", par, x.Field), off, true
			}
		case *ssa.UnOp:
			if fa, ok := x.X.(*ssa.FieldAddr); ok && x.Op == token.MUL {
				if al, ok := fa.X.(*ssa.Alloc); ok {
					if key, o2, ok := d.structFieldNode(al, fa.Field); ok {
						return key, off + o2, true
					}
				}
			}
		}
	}
	return fmt.Sprintf("%p", b), off, true
}

// structFieldNode: the node of field fi of the local struct variable al — "<param>.<fi>" when the
// variable holds a by-value parameter, the node of the stored value when it was built field by
// field exactly once (a composite literal).
func (d *dbProver) structFieldNode(al *ssa.Alloc, fi int) (string, int64, bool) {
	if al.Referrers() == nil {
		return "", 0, false
	}
	var whole []ssa.Value
	var fieldVals []ssa.Value
	for _, u := range *al.Referrers() {
		switch y := u.(type) {
		case *ssa.Store:
			if y.Addr == ssa.Value(al) {
				whole = append(whole, y.Val)
			}
		case *ssa.FieldAddr:
			if y.Field != fi || y.Referrers() == nil {
				continue
			}
			for _, u2 := range *y.Referrers() {
				if st, ok := u2.(*ssa.Store); ok && st.Addr == ssa.Value(y) {
					fieldVals = append(fieldVals, st.Val)
				}
			}
		}
	}
	if len(whole) == 1 && len(fieldVals) == 0 {
		if par, ok := whole[0].(*ssa.Parameter); ok {
			return fmt.Sprintf("%p.%d", par, fi), 0, true
		}
		return "", 0, false
	}
	if len(whole) == 0 && len(fieldVals) == 1 {
		d.depth++
		defer func() { d.depth-- }()
		return d.node(fieldVals[0])
	}
	return "", 0, false
}

// argFieldNode: the node, in the caller, of integer field fi of the struct value handed over as arg.
func (d *dbProver) argFieldNode(arg ssa.Value, fi int) (string, int64, bool) {
	switch x := arg.(type) {
	case *ssa.Parameter:
		return fmt.Sprintf("%p.%d", x, fi), 0, true
	case *ssa.UnOp:
		if al, ok := x.X.(*ssa.Alloc); ok && x.Op == token.MUL {
			return d.structFieldNode(al, fi)
		}
	}
	return "", 0, false
}

// structIntFields: indices of the integer fields of a struct type (nil if t is no struct).
func structIntFields(t types.Type) []int {
	st, ok := t.Underlying().(*types.Struct)
	if !ok {
		return nil
	}
	var out []int
	for i := 0; i < st.NumFields(); i++ {
		if b, ok := st.Field(i).Type().Underlying().(*types.Basic); ok && b.Info()&types.IsInteger != 0 {
			out = append(out, i)
		}
	}
	return out
}

// cmpEdges: the constraints of comparison bo being true (taken) or false.
func (d *dbProver) cmpEdges(bo *ssa.BinOp, taken bool) []dbEdge {
	xn, xo, ok1 := d.node(bo.X)
	yn, yo, ok2 := d.node(bo.Y)
	if !ok1 || !ok2 {
		return nil
	}
	op := bo.Op
	if !taken {
		switch op {
		case token.LSS:
			op = token.GEQ
		case token.LEQ:
			op = token.GTR
		case token.GTR:
			op = token.LEQ
		case token.GEQ:
			op = token.LSS
		case token.NEQ:
			op = token.EQL
		default:
			return nil
		}
	}
	switch op {
	case token.LSS:
		return []dbEdge{{yn, xn, yo - xo - 1}}
	case token.LEQ:
		return []dbEdge{{yn, xn, yo - xo}}
	case token.GTR:
		return []dbEdge{{xn, yn, xo - yo - 1}}
	case token.GEQ:
		return []dbEdge{{xn, yn, xo - yo}}
	case token.EQL:
		return []dbEdge{{yn, xn, yo - xo}, {xn, yn, xo - yo}}
	}
	return nil
}

// predFacts: what holds in the caller when the bool-valued module function called by c answers
// true — for the shapes `return a && b && c` and `return cmp`: the comparisons on the only path to a
// true result, with the callee's parameters (and integer fields of its struct parameters)
// replaced by the caller's argument nodes.
func (d *dbProver) predFacts(c *ssa.Call) []dbEdge {
	cal := staticCallee(c)
	if cal == nil || !d.p.inModule(cal) || len(cal.Blocks) == 0 || d.busy[cal] || cal.Signature.Results().Len() != 1 {
		return nil
	}
	if b, ok := cal.Signature.Results().At(0).Type().Underlying().(*types.Basic); !ok || b.Kind() != types.Bool {
		return nil
	}
	rets := returnsOf(cal)
	if len(rets) != 1 {
		return nil
	}
	d.busy[cal] = true
	defer func() { d.busy[cal] = false }()
	var inner []dbEdge
	switch v := rets[0].Results[0].(type) {
	case *ssa.BinOp:
		inner = append(d.branchOnly(cal, rets[0].Block()), d.cmpEdges(v, true)...)
	case *ssa.Phi:
		var live ssa.Value
		var from *ssa.BasicBlock
		n := 0
		for i, e := range v.Edges {
			if k, ok := e.(*ssa.Const); ok && k.Value != nil && k.Value.String() == "false" {
				continue
			}
			n++
			live, from = e, v.Block().Preds[i]
		}
		if n != 1 {
			return nil
		}
		inner = d.branchOnly(cal, from)
		// the edge from → phi block itself may be the taken side of a branch in `from`
		if len(from.Succs) == 2 {
			si := 0
			if from.Succs[1] == v.Block() {
				si = 1
			}
			inner = append(inner, d.branchFacts(from, si)...)
		}
		if bo, ok := live.(*ssa.BinOp); ok {
			inner = append(inner, d.cmpEdges(bo, true)...)
		} else if k, ok := live.(*ssa.Const); !ok || k.Value == nil || k.Value.String() != "true" {
			return nil
		}
	default:
		return nil
	}
	// callee node → caller node
	type cn struct {
		node string
		off  int64
	}
	m := map[string]cn{"0": {"0", 0}}
	for i, par := range cal.Params {
		if i >= len(c.Call.Args) {
			continue
		}
		if fields := structIntFields(par.Type()); fields != nil {
			for _, fi := range fields {
				if n, o, ok := d.argFieldNode(c.Call.Args[i], fi); ok {
					m[fmt.Sprintf("%p.%d", par, fi)] = cn{n, o}
				}
			}
			continue
		}
		if n, o, ok := d.node(c.Call.Args[i]); ok && n != "" {
			m[fmt.Sprintf("%p", ssa.Value(par))] = cn{n, o}
		}
	}
	var out []dbEdge
	for _, e := range inner {
		f, ok1 := m[e.from]
		t, ok2 := m[e.to]
		if !ok1 || !ok2 {
			continue
		}
		// (t.node + t.off) − (f.node + f.off) ≤ w
		out = append(out, dbEdge{f.node, t.node, e.w - t.off + f.off})
	}
	return out
}

// branchOnly: the facts of the dominating branches at block `at` of fn (no call-site facts).
func (d *dbProver) branchOnly(fn *ssa.Function, at *ssa.BasicBlock) []dbEdge {
	var edges []dbEdge
	for _, blk := range fn.Blocks {
		if blk == at || !blk.Dominates(at) || len(blk.Instrs) == 0 || len(blk.Succs) != 2 || blk.Succs[0] == blk.Succs[1] {
			continue
		}
		for si := 0; si < 2; si++ {
			if edgeRegion(blk, blk.Succs[si])[at] && !edgeRegion(blk, blk.Succs[1-si])[at] {
				edges = append(edges, d.branchFacts(blk, si)...)
			}
		}
	}
	return edges
}

// branchFacts: constraints contributed by the branch of block blk towards successor index si.
func (d *dbProver) branchFacts(blk *ssa.BasicBlock, si int) []dbEdge {
	iff, ok := blk.Instrs[len(blk.Instrs)-1].(*ssa.If)
	if !ok {
		return nil
	}
	// a validating predicate: if !span.within(n) { return … }
	{
		cond := iff.Cond
		neg := false
		if u, ok := cond.(*ssa.UnOp); ok && u.Op == token.NOT {
			cond, neg = u.X, true
		}
		if c, ok := cond.(*ssa.Call); ok {
			if (si == 0) != neg {
				return d.predFacts(c)
			}
			return nil
		}
	}
	bo, ok := iff.Cond.(*ssa.BinOp)
	if !ok {
		return nil
	}
	xn, xo, ok1 := d.node(bo.X)
	yn, yo, ok2 := d.node(bo.Y)
	if !ok1 || !ok2 {
		return nil
	}
	op := bo.Op
	if si == 1 { // the false edge: negate
		switch op {
		case token.LSS:
			op = token.GEQ
		case token.LEQ:
			op = token.GTR
		case token.GTR:
			op = token.LEQ
		case token.GEQ:
			op = token.LSS
		case token.NEQ:
			op = token.EQL
		default:
			return nil
		}
	}
	switch op {
	case token.LSS: // X+xo < Y+yo  ⇒ X − Y ≤ yo−xo−1
		return []dbEdge{{yn, xn, yo - xo - 1}}
	case token.LEQ:
		return []dbEdge{{yn, xn, yo - xo}}
	case token.GTR: // Y+yo < X+xo ⇒ Y − X ≤ xo−yo−1
		return []dbEdge{{xn, yn, xo - yo - 1}}
	case token.GEQ:
		return []dbEdge{{xn, yn, xo - yo}}
	case token.EQL:
		return []dbEdge{{yn, xn, yo - xo}, {xn, yn, xo - yo}}
	}
	return nil
}

// factsAt: everything the dominating branches (and, for an unexported helper, all of its call
// sites) establish at block `at` of fn.
func (d *dbProver) factsAt(fn *ssa.Function, at *ssa.BasicBlock) []dbEdge {
	var edges []dbEdge
	for _, blk := range fn.Blocks {
		if blk == at || !blk.Dominates(at) || len(blk.Instrs) == 0 || len(blk.Succs) != 2 || blk.Succs[0] == blk.Succs[1] {
			continue
		}
		for si := 0; si < 2; si++ {
			if edgeRegion(blk, blk.Succs[si])[at] && !edgeRegion(blk, blk.Succs[1-si])[at] {
				edges = append(edges, d.branchFacts(blk, si)...)
			}
		}
	}
	return append(edges, d.entryFacts(fn)...)
}

func dbShortest(edges []dbEdge, src string) map[string]int64 {
	dist := map[string]int64{src: 0}
	for round := 0; round < 16; round++ {
		changed := false
		for _, e := range edges {
			if df, ok := dist[e.from]; ok {
				if dt, ok2 := dist[e.to]; !ok2 || df+e.w < dt {
					dist[e.to] = df + e.w
					changed = true
				}
			}
		}
		if !changed {
			break
		}
	}
	return dist
}

// entryFacts: relations between the integer parameters of an unexported function (and between them
// and len(t.Grid.Cols) / constants) that hold at EVERY call site — the caller validated its
// arguments and delegates the splice ("the caller guarantees 0 <= start <= end").
func (d *dbProver) entryFacts(fn *ssa.Function) []dbEdge {
	if v, ok := d.entry[fn]; ok {
		return v
	}
	if d.busy[fn] || fn.Parent() != nil || fn.Object() == nil || fn.Object().Exported() {
		return nil
	}
	callers := d.p.callersIndex()[fn]
	if len(callers) == 0 {
		return nil
	}
	d.busy[fn] = true
	defer func() { d.busy[fn] = false }()
	type key struct{ from, to string }
	var acc map[key]int64
	first := true
	usedAsValue := false
	for caller := range callers {
		allInstrs(caller, func(in ssa.Instruction) {
			c, ok := in.(ssa.CallInstruction)
			if !ok || staticCallee(c) != fn {
				for _, op := range in.Operands(nil) {
					if *op == ssa.Value(fn) {
						if cc, isCall := in.(ssa.CallInstruction); !isCall || cc.Common().Value != ssa.Value(fn) {
							usedAsValue = true
						}
					}
				}
				return
			}
			facts := d.factsAt(caller, in.Block())
			// nodes of interest in the caller: the integer arguments, len, 0
			type an struct {
				callee string
				node   string
				off    int64
			}
			var ans []an
			for i, a := range c.Common().Args {
				if i >= len(fn.Params) {
					continue
				}
				if fields := structIntFields(fn.Params[i].Type()); fields != nil {
					for _, fi := range fields {
						if n, o, ok := d.argFieldNode(a, fi); ok && n != "" {
							ans = append(ans, an{fmt.Sprintf("%p.%d", fn.Params[i], fi), n, o})
						}
					}
					continue
				}
				if n, o, ok := d.node(a); ok && n != "" {
					ans = append(ans, an{fmt.Sprintf("%p", ssa.Value(fn.Params[i])), n, o})
				}
			}
			ans = append(ans, an{dbLenNode, dbLenNode, 0}, an{"0", "0", 0})
			site := map[key]int64{}
			for _, x := range ans {
				dist := dbShortest(facts, x.node)
				for _, y := range ans {
					if x.callee == y.callee {
						continue
					}
					if dy, ok := dist[y.node]; ok {
						// y.node − x.node ≤ dy ; argument = node + off ⇒ param_y − param_x ≤ dy + y.off − x.off
						site[key{x.callee, y.callee}] = dy + y.off - x.off
					}
				}
			}
			if first {
				acc, first = site, false
				return
			}
			for k, w := range acc {
				if w2, ok := site[k]; !ok {
					delete(acc, k)
				} else if w2 > w {
					acc[k] = w2
				}
			}
		})
	}
	var out []dbEdge
	if !usedAsValue {
		for k, w := range acc {
			out = append(out, dbEdge{k.from, k.to, w})
		}
	}
	sort.Slice(out, func(i, j int) bool { return out[i].from+out[i].to < out[j].from+out[j].to })
	d.entry[fn] = out
	return out
}

func ruleGridBound(r *Run) {
	p := r.P
	nUses := 0
	isGridCols := func(v ssa.Value) bool {
		ld, ok := v.(*ssa.UnOp)
		if !ok || ld.Op != token.MUL {
			return false
		}
		fv, _ := fieldOfAddr(ld.X)
		return fieldIs(p, fv, pkgDoc, "TableGrid", "Cols")
	}
	pr := &dbProver{p: p, isLenOf: isGridCols, entry: map[*ssa.Function][]dbEdge{}, busy: map[*ssa.Function]bool{}}
	for _, fn := range p.ModFuncs() {
		if fn.Pkg == nil || fn.Pkg.Pkg.Path() != pkgDoc || len(fn.Blocks) == 0 {
			continue
		}
		prove := func(at *ssa.BasicBlock, v ssa.Value, slack int64) (proved, guarded bool) {
			vn, vo, ok := pr.node(v)
			if !ok {
				return false, false
			}
			edges := pr.factsAt(fn, at)
			for _, e := range edges {
				if e.from == dbLenNode || e.to == dbLenNode {
					guarded = true
				}
			}
			dist := dbShortest(edges, dbLenNode)
			dv, ok := dist[vn]
			if !ok {
				return false, guarded
			}
			return dv+vo <= slack, guarded
		}
		seenKey := map[string]int{}
		allInstrs(fn, func(in ssa.Instruction) {
			type use struct {
				v     ssa.Value
				slack int64
				what  string
			}
			var uses []use
			switch x := in.(type) {
			case *ssa.IndexAddr:
				if !isGridCols(x.X) {
					return
				}
				uses = append(uses, use{x.Index, -1, "index"})
			case *ssa.Slice:
				if !isGridCols(x.X) {
					return
				}
				if x.Low != nil {
					uses = append(uses, use{x.Low, 0, "low bound"})
				}
				if x.High != nil {
					uses = append(uses, use{x.High, 0, "high bound"})
				}
			case *ssa.Call:
				// the slicing is delegated to a helper that is handed t.Grid.Cols (removeRange(cols, a, b),
				// insertAt(cols, pos, v)): the helper's uses of its slice parameter, expressed in its own
				// integer parameters, are obligations on the arguments at this call — unless the helper
				// compares that parameter with the slice's length itself
				cal := staticCallee(x)
				if cal == nil || !p.inModule(cal) || len(cal.Blocks) == 0 {
					return
				}
				for ai, a := range x.Call.Args {
					if !isGridCols(a) || ai >= len(cal.Params) {
						continue
					}
					sp := cal.Params[ai]
					selfGuarded := map[*ssa.Parameter]bool{}
					allInstrs(cal, func(in2 ssa.Instruction) {
						bo, ok := in2.(*ssa.BinOp)
						if !ok {
							return
						}
						switch bo.Op {
						case token.LSS, token.GTR, token.LEQ, token.GEQ:
						default:
							return
						}
						for _, side := range [][2]ssa.Value{{bo.X, bo.Y}, {bo.Y, bo.X}} {
							if lc, ok := side[1].(*ssa.Call); ok {
								if bi, ok := lc.Call.Value.(*ssa.Builtin); ok && bi.Name() == "len" && lc.Call.Args[0] == ssa.Value(sp) {
									if b, _ := offsetOf(side[0]); b != nil {
										if q, ok := b.(*ssa.Parameter); ok {
											selfGuarded[q] = true
										}
									}
								}
							}
						}
					})
					addUse := func(v ssa.Value, slack int64, what string) {
						b, off := offsetOf(v)
						q, ok := b.(*ssa.Parameter)
						if !ok || selfGuarded[q] {
							return
						}
						qi := paramIndex(cal, q)
						if qi < 0 || qi >= len(x.Call.Args) {
							return
						}
						// value used = arg + off; needs arg + off ≤ len + slack  ⇔  arg ≤ len + (slack − off)
						uses = append(uses, use{x.Call.Args[qi], slack - off, what + " (in " + shortName(cal) + ")"})
					}
					allInstrs(cal, func(in2 ssa.Instruction) {
						switch y := in2.(type) {
						case *ssa.IndexAddr:
							if y.X == ssa.Value(sp) {
								addUse(y.Index, -1, "index")
							}
						case *ssa.Slice:
							if y.X == ssa.Value(sp) {
								if y.Low != nil {
									addUse(y.Low, 0, "low bound")
								}
								if y.High != nil {
									addUse(y.High, 0, "high bound")
								}
							}
						}
					})
				}
				if len(uses) == 0 {
					return
				}
			default:
				return
			}
			for _, u := range uses {
				if _, isC := constInt(u.v); isC {
					continue
				}
				// the lowering of `for i := range cols`: index phi bounded by the loop header
				if b, _ := offsetOf(u.v); b != nil {
					if _, isPhi := b.(*ssa.Phi); isPhi {
						continue
					}
				}
				proved, guarded := prove(in.Block(), u.v, u.slack)
				if !guarded {
					continue
				}
				nUses++
				key := fmt.Sprintf("%s:%s", shortName(topLevel(fn)), u.what)
				seenKey[key]++
				if seenKey[key] > 1 {
					key = fmt.Sprintf("%s#%d", key, seenKey[key])
				}
				r.Check("grid-bound", key, in.Pos(), proved,
					fmt.Sprintf("%s uses %s as %s of t.Grid.Cols under a guard on len(t.Grid.Cols); the comparisons that dominate the use (and, for an unexported helper, hold at all of its call sites) %s that it is in range (the grid of an opened table may be shorter than its rows: the guard must bound the value that is actually used)", shortName(topLevel(fn)), symOfExpr(u.v), u.what, map[bool]string{true: "imply", false: "do NOT imply"}[proved]))
			}
		})
	}
	r.Min("guarded_grid_uses", nUses, 4)
}

// ---------------------------------------------------------------------------
// R-REMOVE-TYPED (C08): "removing a paragraph … removes exactly that element".  In the
// RemoveParagraph* entry points the position at which the body is spliced must be a position at
// which a *Paragraph was actually found: the loop index of a range over Body.Elements, used inside
// the ok-branch of `element.(*Paragraph)` for that very element — directly, or as the result of a
// finder helper all of whose non-negative results are such positions.  An index computed by
// arithmetic (paragraph index + number of tables seen) can land on a table, the section properties
// or a bookmark.
// ---------------------------------------------------------------------------

func isBodyElements(p *Program, v ssa.Value) bool {
	ld, ok := v.(*ssa.UnOp)
	if !ok || ld.Op != token.MUL {
		return false
	}
	fv, _ := fieldOfAddr(ld.X)
	return fieldIs(p, fv, pkgDoc, "Body", "Elements")
}

// checkedParagraphPos: at instruction `at` of fn, integer value v is a position of Body.Elements
// holding a *Paragraph.
func checkedParagraphPos(p *Program, fn *ssa.Function, v ssa.Value, at ssa.Instruction, depth int) bool {
	if depth > 3 {
		return false
	}
	switch x := v.(type) {
	case *ssa.Phi:
		// a range index is itself a phi (index lowering uses phi+1); other phis: every input
		if okAt := paragraphAssertRegion(p, fn, v, at); okAt {
			return true
		}
		for _, e := range x.Edges {
			if c, ok := constInt(e); ok && c < 0 {
				continue
			}
			if !checkedParagraphPos(p, fn, e, at, depth+1) {
				return false
			}
		}
		return true
	case *ssa.Call:
		return finderReturnsChecked(p, x, -1, depth)
	case *ssa.Extract:
		if c, ok := x.Tuple.(*ssa.Call); ok {
			return finderReturnsChecked(p, c, x.Index, depth)
		}
	}
	return paragraphAssertRegion(p, fn, v, at)
}

func finderReturnsChecked(p *Program, c *ssa.Call, idx int, depth int) bool {
	cal := staticCallee(c)
	if cal == nil || !p.inModule(cal) || len(cal.Blocks) == 0 {
		return false
	}
	if idx < 0 {
		idx = 0
	}
	any := false
	for _, ret := range returnsOf(cal) {
		if idx >= len(ret.Results) {
			return false
		}
		rv := retResult(ret, idx)
		if cst, ok := constInt(rv); ok && cst < 0 {
			continue
		}
		if !checkedParagraphPos(p, cal, rv, ret, depth+1) {
			return false
		}
		any = true
	}
	return any
}

// paragraphAssertRegion: v indexes Body.Elements in fn and `at` lies in the ok-branch of a
// comma-ok assertion of that element to *Paragraph.
func paragraphAssertRegion(p *Program, fn *ssa.Function, v ssa.Value, at ssa.Instruction) bool {
	res := false
	allInstrs(fn, func(in ssa.Instruction) {
		ta, ok := in.(*ssa.TypeAssert)
		if !ok || !ta.CommaOk || !typeIs(ta.AssertedType, pkgDoc, "Paragraph") || ta.Referrers() == nil {
			return
		}
		// the asserted value is Elements[v]
		ld, ok := ta.X.(*ssa.UnOp)
		if !ok || ld.Op != token.MUL {
			return
		}
		ia, ok := ld.X.(*ssa.IndexAddr)
		if !ok || !isBodyElements(p, ia.X) || ia.Index != v {
			return
		}
		// …and v walks over the elements one by one: the induction variable of a loop that starts at
		// the beginning (−1 / 0) and advances by one.  A position that was computed (paragraph index
		// plus the number of tables seen) and merely verified to hold *a* paragraph can be the wrong
		// paragraph.
		if !isInductionVar(v) {
			return
		}
		for _, u := range *ta.Referrers() {
			ex, ok := u.(*ssa.Extract)
			if !ok || ex.Index != 1 || ex.Referrers() == nil {
				continue
			}
			for _, u2 := range *ex.Referrers() {
				if iff, ok := u2.(*ssa.If); ok {
					if edgeRegion(iff.Block(), iff.Block().Succs[0])[at.Block()] {
						res = true
					}
				}
			}
		}
	})
	return res
}

// isInductionVar: v is i (or i+1 in the range lowering) of a loop `for i := 0|−1; …; i++`.
func isInductionVar(v ssa.Value) bool {
	phiOK := func(ph *ssa.Phi) bool {
		// one entry edge with the start value, every back edge (there are several when the body has
		// `continue` paths) carries phi+1
		constEdge, stepEdge := false, false
		for _, e := range ph.Edges {
			if c, ok := constInt(e); ok && (c == 0 || c == -1) {
				constEdge = true
				continue
			}
			if bo, ok := e.(*ssa.BinOp); ok && bo.Op == token.ADD && bo.X == ssa.Value(ph) {
				if c, ok := constInt(bo.Y); ok && c == 1 {
					stepEdge = true
					continue
				}
			}
			return false
		}
		return constEdge && stepEdge
	}
	switch x := v.(type) {
	case *ssa.Phi:
		return phiOK(x)
	case *ssa.BinOp:
		if ph, ok := x.X.(*ssa.Phi); ok && x.Op == token.ADD {
			if c, ok := constInt(x.Y); ok && c == 1 {
				return phiOK(ph)
			}
		}
	}
	return false
}

// removesAtParam: fn splices Body.Elements at its integer parameter (directly or by delegating);
// returns the parameter index or -1.
func removesAtParam(p *Program, fn *ssa.Function, depth int) int {
	if depth > 2 || len(fn.Blocks) == 0 {
		return -1
	}
	out := -1
	allInstrs(fn, func(in ssa.Instruction) {
		switch x := in.(type) {
		case *ssa.Slice:
			if isBodyElements(p, x.X) && x.High != nil && x.Low == nil {
				if pi := paramIndex(fn, x.High); pi >= 0 {
					out = pi
				}
			}
		case *ssa.Call:
			if cal := staticCallee(x); cal != nil && cal != fn && p.inModule(cal) {
				if qi := removesAtParam(p, cal, depth+1); qi >= 0 && qi < len(x.Call.Args) {
					if pi := paramIndex(fn, x.Call.Args[qi]); pi >= 0 {
						out = pi
					}
				}
			}
		}
	})
	return out
}

// handleComparedByContent: fn (or an unexported helper it hands its *Paragraph parameter to) calls a
// deep-comparison function with that handle as an argument.
func handleComparedByContent(p *Program, fn *ssa.Function) string {
	var handle *ssa.Parameter
	for _, par := range fn.Params[1:] {
		if typeIs(par.Type(), pkgDoc, "Paragraph") {
			handle = par
		}
	}
	if handle == nil {
		return ""
	}
	found := ""
	var scan func(g *ssa.Function, h ssa.Value, depth int)
	scan = func(g *ssa.Function, h ssa.Value, depth int) {
		if depth > 2 || found != "" {
			return
		}
		allInstrs(g, func(in ssa.Instruction) {
			c, ok := in.(*ssa.Call)
			if !ok {
				return
			}
			uses := -1
			for i, a := range c.Call.Args {
				if stripIface(a) == h {
					uses = i
				}
			}
			if uses < 0 {
				return
			}
			switch cn := calleeName(c); cn {
			case "reflect.DeepEqual", "bytes.Equal":
				found = cn
				return
			}
			if cal := staticCallee(c); cal != nil && p.inModule(cal) && cal != g && uses < len(cal.Params) {
				scan(cal, cal.Params[uses], depth+1)
			}
		})
	}
	scan(fn, handle, 0)
	return found
}

// delegatesToHandleRemoval: fn has an integer parameter and no *Paragraph parameter, and calls a
// module function with a *Paragraph argument that splices Body.Elements at a position selected by
// comparing elements with that argument.
func delegatesToHandleRemoval(p *Program, fn *ssa.Function) *ssa.Function {
	hasInt := false
	for _, par := range fn.Params[1:] {
		if b, ok := par.Type().Underlying().(*types.Basic); ok && b.Info()&types.IsInteger != 0 {
			hasInt = true
		}
		if typeIs(par.Type(), pkgDoc, "Paragraph") {
			return nil
		}
	}
	if !hasInt {
		return nil
	}
	var out *ssa.Function
	allInstrs(fn, func(in ssa.Instruction) {
		c, ok := in.(*ssa.Call)
		if !ok {
			return
		}
		cal := staticCallee(c)
		if cal == nil || !p.inModule(cal) || cal == fn {
			return
		}
		for i, a := range c.Call.Args {
			if !typeIs(a.Type(), pkgDoc, "Paragraph") || i >= len(cal.Params) {
				continue
			}
			par := cal.Params[i]
			// the callee compares body elements with the handle and splices the body
			cmp, splice := false, false
			for _, g := range withClosures(cal) {
				allInstrs(g, func(in2 ssa.Instruction) {
					switch y := in2.(type) {
					case *ssa.BinOp:
						if (y.Op == token.EQL || y.Op == token.NEQ) && (stripIface(y.X) == ssa.Value(par) || stripIface(y.Y) == ssa.Value(par)) {
							cmp = true
						}
					case *ssa.Slice:
						if isBodyElements(p, y.X) && y.High != nil && y.Low == nil {
							splice = true
						}
					}
				})
			}
			if cmp && splice {
				out = cal
			}
		}
	})
	return out
}

// stripIface: the value behind interface conversions, assertions and type changes.
func stripIface(v ssa.Value) ssa.Value {
	for i := 0; i < 6; i++ {
		switch x := v.(type) {
		case *ssa.MakeInterface:
			v = x.X
		case *ssa.ChangeInterface:
			v = x.X
		case *ssa.ChangeType:
			v = x.X
		case *ssa.TypeAssert:
			v = x.X
		default:
			return v
		}
	}
	return v
}

func ruleRemoveTyped(r *Run) {
	p := r.P
	n := 0
	for _, fn := range p.exportedAPI(pkgDoc) {
		if fn.Signature.Recv() == nil || !typeIs(fn.Signature.Recv().Type(), pkgDoc, "Document") || !strings.HasPrefix(fn.Name(), "RemoveParagraph") {
			continue
		}
		sites, okAll := 0, true
		why := ""
		allInstrs(fn, func(in ssa.Instruction) {
			switch x := in.(type) {
			case *ssa.Slice:
				if isBodyElements(p, x.X) && x.High != nil && x.Low == nil {
					sites++
					if !checkedParagraphPos(p, fn, x.High, in, 0) {
						okAll = false
						why = "the splice at " + p.pos(x.Pos()) + " uses a position that is not known to hold a *Paragraph"
					}
				}
			case *ssa.Call:
				cal := staticCallee(x)
				if cal == nil || !p.inModule(cal) {
					return
				}
				if qi := removesAtParam(p, cal, 0); qi >= 0 && qi < len(x.Call.Args) {
					sites++
					if !checkedParagraphPos(p, fn, x.Call.Args[qi], in, 0) {
						okAll = false
						why = "the position handed to " + shortName(cal) + " at " + p.pos(x.Pos()) + " is not known to hold a *Paragraph (it is computed, not found by looking at the elements)"
					}
				}
			}
		})
		// a handle is matched by IDENTITY: a comparison by content (reflect.DeepEqual, …) on the way to
		// the splice accepts a removed or foreign handle whenever some remaining paragraph looks the
		// same, and removes that one
		if byContent := handleComparedByContent(p, fn); byContent != "" {
			n++
			r.Check("remove-typed", shortName(fn)+":identity", fn.Pos(), false,
				fmt.Sprintf("%s locates the paragraph to remove with %s on its handle: a handle that is no longer (or never was) in the body is not rejected when another paragraph has equal content — the call reports success and removes that other element", shortName(fn), byContent))
		}
		if sites == 0 {
			// an index-keyed removal that hands a *Paragraph to another removal of this family: the
			// position is then found again by identity (first element that IS the handle), which is the
			// requested position only if no paragraph object sits in the body twice — Body.AddElement
			// accepts the same object any number of times.
			if del := delegatesToHandleRemoval(p, fn); del != nil {
				n++
				r.Check("remove-typed", shortName(fn), fn.Pos(), false,
					fmt.Sprintf("%s is keyed by a paragraph index but delegates to %s, which removes the FIRST element identical to the handle: when one paragraph object occurs at two positions the element at the requested index stays and another one disappears", shortName(fn), shortName(del)))
				continue
			}
			r.Undecided("remove-typed", shortName(fn), fn.Pos(), "no removal of a body element found in "+shortName(fn))
			continue
		}
		n++
		r.Check("remove-typed", shortName(fn), fn.Pos(), okAll,
			fmt.Sprintf("%s must remove the element at a position where a *Paragraph was found (range index inside the ok-branch of element.(*Paragraph)): %s", shortName(fn), map[bool]string{true: "yes", false: why + " — a table, the section properties or a bookmark can be removed instead"}[okAll]))
	}
	r.Min("remove_paragraph_entry_points", n, 2)
}

// ---------------------------------------------------------------------------
// R-COL-ALL-ROWS (C09): a column operation changes EVERY row or none.  In the *Table methods that
// insert or delete columns, each loop over t.Rows that rewrites a row's Cells does so on every
// iteration (no `continue` for rows that look too short: the grid loses a column while those rows
// keep all their cells, and the row no longer spans the declared grid).
// ---------------------------------------------------------------------------

func ruleColAllRows(r *Run) {
	p := r.P
	n := 0
	for _, fn := range p.exportedAPI(pkgDoc) {
		if fn.Signature.Recv() == nil || !typeIs(fn.Signature.Recv().Type(), pkgDoc, "Table") || !strings.Contains(fn.Name(), "Column") {
			continue
		}
		// the column operation and every unexported function it reaches (a helper shared by the two
		// delete operations belongs to both)
		group := []*ssa.Function{fn}
		for _, g := range sortedFuncs(p.staticReach(fn)) {
			if g != fn && g.Pkg != nil && g.Pkg.Pkg.Path() == pkgDoc && (g.Object() == nil || !g.Object().Exported()) {
				group = append(group, g)
			}
		}
		for _, g := range group {
			for _, l := range naturalLoops(g) {
				ri := rangeOf(l)
				if ri == nil {
					continue
				}
				ld, ok := ri.X.(*ssa.UnOp)
				if !ok || ld.Op != token.MUL {
					continue
				}
				if fv, _ := fieldOfAddr(ld.X); !fieldIs(p, fv, pkgDoc, "Table", "Rows") {
					continue
				}
				cut := map[*ssa.BasicBlock]bool{}
				for b := range l.Body {
					for _, in := range b.Instrs {
						if st, ok := in.(*ssa.Store); ok {
							if fv, _ := fieldOfAddr(st.Addr); fieldIs(p, fv, pkgDoc, "TableRow", "Cells") {
								cut[b] = true
							}
						}
					}
				}
				if len(cut) == 0 {
					continue // a validating or reading loop
				}
				n++
				iff, ok := l.Header.Instrs[len(l.Header.Instrs)-1].(*ssa.If)
				if !ok {
					continue
				}
				body := iff.Block().Succs[0]
				if !l.Body[body] {
					body = iff.Block().Succs[1]
				}
				okAll := cut[body] || !reachableBlocks(body, cut)[l.Header]
				r.Check("col-all-rows", shortName(fn)+":"+shortName(g), l.Header.Instrs[0].Pos(), okAll,
					fmt.Sprintf("%s rewrites the cells of the rows in a loop over t.Rows; every iteration must do so (a row that is skipped keeps its cells while the grid and the other rows change: the table is no longer a grid)", shortName(fn)))
			}
		}
	}
	r.Min("column_loops_rewriting_rows", n, 3)
}

// ---------------------------------------------------------------------------
// R-SECTPR-SINGLETON (C03, C08, C11, C12): the body holds ONE section-properties element; page
// settings and header/footer calls find it and change it in place.  Wherever a *SectionProperties
// is appended to Body.Elements, the same operation must first have looked at EVERY element for an
// existing one (a range over Body.Elements with a type test for *SectionProperties — directly or in
// a finder helper).  Looking only at the last element is not enough: the element sits wherever it
// was first created, so a second one is appended, and the saved part keeps only one of them while
// the setters and getters use the other.
// ---------------------------------------------------------------------------

// scansAllForSectPr: fn contains a full range loop over Body.Elements whose body type-tests the
// element for *SectionProperties.
func scansAllForSectPr(p *Program, fn *ssa.Function) bool {
	for _, l := range naturalLoops(fn) {
		ri := rangeOf(l)
		if ri == nil || !isBodyElements(p, ri.X) {
			continue
		}
		for b := range l.Body {
			for _, in := range b.Instrs {
				if ta, ok := in.(*ssa.TypeAssert); ok && typeIs(ta.AssertedType, pkgDoc, "SectionProperties") {
					return true
				}
			}
		}
	}
	return false
}

// sectScanBefore: fn searches all body elements for a section-properties element — in a loop of
// its own, or through a finder helper whose call lies on every path to `at`.
func sectScanBefore(p *Program, fn *ssa.Function, at ssa.Instruction) bool {
	if scansAllForSectPr(p, fn) {
		return true
	}
	ok := false
	allInstrs(fn, func(in2 ssa.Instruction) {
		if c, isC := in2.(*ssa.Call); isC && ssa.Instruction(c) != at {
			if cal := staticCallee(c); cal != nil && p.inModule(cal) && scansAllForSectPr(p, cal) && mustPassThrough(fn, at, []ssa.Instruction{c}) {
				ok = true
			}
		}
	})
	return ok
}

// staticCallSites: the static call instructions of fn in the module (sorted by position).
func staticCallSites(p *Program, fn *ssa.Function) []ssa.CallInstruction {
	var out []ssa.CallInstruction
	for _, g := range p.ModFuncs() {
		allInstrs(g, func(in ssa.Instruction) {
			if c, ok := in.(ssa.CallInstruction); ok && staticCallee(c) == fn {
				out = append(out, c)
			}
		})
	}
	sort.Slice(out, func(i, j int) bool { return out[i].Pos() < out[j].Pos() })
	return out
}

func ruleSectPrSingleton(r *Run) {
	p := r.P
	reader := buildReaderModel(p)
	clones := map[*ssa.Function]bool{}
	for _, c := range discoverClones(p, pkgDoc) {
		clones[c.Fn] = true
	}
	n := 0
	for _, fn := range p.ModFuncs() {
		if fn.Pkg == nil || fn.Pkg.Pkg.Path() != pkgDoc || reader.IsReader[topLevel(fn)] || clones[topLevel(fn)] {
			continue
		}
		if fn.Signature.Recv() != nil && typeIs(fn.Signature.Recv().Type(), pkgDoc, "TemplateEngine") {
			continue
		}
		allInstrs(fn, func(in ssa.Instruction) {
			st, ok := in.(*ssa.Store)
			if !ok {
				return
			}
			ch, _ := addrChain(st.Addr)
			if len(ch) == 0 || !fieldIs(p, ch[len(ch)-1], pkgDoc, "Body", "Elements") {
				return
			}
			ap, ok := st.Val.(*ssa.Call)
			if !ok {
				return
			}
			if b, ok := ap.Call.Value.(*ssa.Builtin); !ok || b.Name() != "append" || len(ap.Call.Args) < 2 {
				return
			}
			isSect := false
			for _, e := range varargElems(ap.Call.Args[1]) {
				v := e
				if mi, ok := v.(*ssa.MakeInterface); ok {
					v = mi.X
				}
				if ld, ok := v.(*ssa.UnOp); ok && ld.Op == token.MUL {
					// loaded from the varargs slot: look at what was stored there
					_ = ld
				}
				if typeIs(v.Type(), pkgDoc, "SectionProperties") {
					isSect = true
				}
			}
			if !isSect {
				return
			}
			ok2 := sectScanBefore(p, fn, st)
			if !ok2 && fn.Parent() == nil {
				// the append sits in a helper that is handed the element: the search is the business of
				// whoever calls the helper — every call site must have searched first
				sites := staticCallSites(p, fn)
				if len(sites) > 0 {
					for _, cs := range sites {
						n++
						okc := sectScanBefore(p, cs.Parent(), cs)
						if !okc {
							// one more level: a wrapper around the helper
							up := staticCallSites(p, topLevel(cs.Parent()))
							okc = len(up) > 0
							for _, cs2 := range up {
								if !sectScanBefore(p, cs2.Parent(), cs2) {
									okc = false
								}
							}
						}
						r.Check("sectpr-singleton", shortName(topLevel(cs.Parent())), cs.Pos(), okc,
							fmt.Sprintf("%s appends a section-properties element to the body through %s; it must first have searched ALL body elements for an existing one (range over Body.Elements with a test for *SectionProperties): %s", shortName(topLevel(cs.Parent())), shortName(fn), map[bool]string{true: "it does", false: "no such scan precedes the call — a document whose section properties are not the last element gets a second one, and page settings / header references set before are lost from the saved part"}[okc]))
					}
					return
				}
			}
			n++
			r.Check("sectpr-singleton", shortName(topLevel(fn)), st.Pos(), ok2,
				fmt.Sprintf("%s appends a section-properties element to the body; it must first have searched ALL body elements for an existing one (range over Body.Elements with a test for *SectionProperties): %s", shortName(topLevel(fn)), map[bool]string{true: "it does", false: "no such scan precedes the append — a document whose section properties are not the last element gets a second one, and page settings / header references set before are lost from the saved part"}[ok2]))
		})
	}
	r.Min("section_properties_appends", n, 2)
}

// ---------------------------------------------------------------------------
// R-FIRST-ELEM (C06): `x.F[k]` with a constant k on a slice field of a model object that was not
// built by the function itself (it may come out of the reader, which produces cells without
// paragraphs, paragraphs without runs, …) needs len(x.F) > k established on every path: by a
// dominating length test, or by a store of a long-enough literal / an append.  Forward
// must-analysis per (function, path); paths are access paths with index identities.
// ---------------------------------------------------------------------------

// idxPath: access path of an address with index identities (constants by value, others by SSA name).
func idxPath(addr ssa.Value) (ssa.Value, string) {
	var parts []string
	v := addr
	for depth := 0; depth < 40; depth++ {
		switch x := v.(type) {
		case *ssa.FieldAddr:
			f, _ := fieldOfAddr(x)
			parts = append([]string{"." + f.Name()}, parts...)
			v = x.X
			continue
		case *ssa.Field:
			f, _ := fieldOfVal(x)
			parts = append([]string{"." + f.Name()}, parts...)
			v = x.X
			continue
		case *ssa.IndexAddr:
			ix := x.Index.Name()
			if c, ok := constInt(x.Index); ok {
				ix = fmt.Sprint(c)
			}
			parts = append([]string{"[" + ix + "]"}, parts...)
			v = x.X
			continue
		case *ssa.UnOp:
			if x.Op == token.MUL {
				v = x.X
				continue
			}
		case *ssa.ChangeType:
			v = x.X
			continue
		}
		break
	}
	return v, v.Name() + strings.Join(parts, "")
}

type lenFlow struct {
	fn    *ssa.Function
	path  string
	need  int64
	in    map[*ssa.BasicBlock]bool
	depth int // nesting of validating-helper evaluations
}

func sliceLitLen(v ssa.Value) int64 {
	switch x := v.(type) {
	case *ssa.Slice:
		if al, ok := x.X.(*ssa.Alloc); ok && x.Low == nil && x.High == nil {
			if pt, ok := al.Type().Underlying().(*types.Pointer); ok {
				if at, ok := pt.Elem().Underlying().(*types.Array); ok {
					return at.Len()
				}
			}
		}
	case *ssa.Call:
		if b, ok := x.Call.Value.(*ssa.Builtin); ok && b.Name() == "append" && len(x.Call.Args) == 2 {
			// append(x, e1..en) has at least n elements
			return sliceLitLen(x.Call.Args[1])
		}
	case *ssa.MakeSlice:
		if c, ok := constInt(x.Len); ok {
			return c
		}
	}
	return 0
}

func (lf *lenFlow) transfer(in ssa.Instruction, s bool) bool {
	st, ok := in.(*ssa.Store)
	if !ok {
		return s
	}
	_, sp := idxPath(st.Addr)
	if sp == lf.path {
		return sliceLitLen(st.Val) > lf.need
	}
	if strings.HasPrefix(lf.path, sp) && (strings.HasPrefix(lf.path[len(sp):], ".") || strings.HasPrefix(lf.path[len(sp):], "[")) {
		return false // an enclosing object is overwritten
	}
	return s
}

func (lf *lenFlow) out(b *ssa.BasicBlock) bool {
	s := lf.in[b]
	for _, in := range b.Instrs {
		s = lf.transfer(in, s)
	}
	return s
}

// lenOfPath: v is len(load P) for the flow's path.
func (lf *lenFlow) lenOfPath(v ssa.Value) bool {
	c, ok := v.(*ssa.Call)
	if !ok {
		return false
	}
	if b, ok := c.Call.Value.(*ssa.Builtin); !ok || b.Name() != "len" {
		return false
	}
	ld, ok := c.Call.Args[0].(*ssa.UnOp)
	if !ok || ld.Op != token.MUL {
		return false
	}
	_, sp := idxPath(ld.X)
	return sp == lf.path
}

func (lf *lenFlow) edgeFact(from, to *ssa.BasicBlock) bool {
	s := lf.out(from)
	if s || len(from.Instrs) == 0 {
		return s
	}
	iff, ok := from.Instrs[len(from.Instrs)-1].(*ssa.If)
	if !ok || from.Succs[0] == from.Succs[1] {
		return s
	}
	bin, ok := iff.Cond.(*ssa.BinOp)
	if !ok {
		return s
	}
	// `if err := t.check(…); err != nil { return err }`: on the nil edge everything the validating
	// helper establishes on its own nil-error returns holds here as well
	if (bin.Op == token.NEQ || bin.Op == token.EQL) && (isNilConst(bin.X) || isNilConst(bin.Y)) {
		ev := bin.X
		if isNilConst(ev) {
			ev = bin.Y
		}
		nilEdge := from.Succs[1]
		if bin.Op == token.EQL {
			nilEdge = from.Succs[0]
		}
		if to == nilEdge && isErrorType(ev.Type()) {
			var call *ssa.Call
			switch e := ev.(type) {
			case *ssa.Call:
				call = e
			case *ssa.Extract:
				call, _ = e.Tuple.(*ssa.Call)
			}
			if call != nil && lf.depth < 2 {
				if g := staticCallee(call); g != nil && gProg != nil && gProg.inModule(g) && len(g.Blocks) > 0 {
					for i, a := range call.Call.Args {
						if i >= len(g.Params) {
							break
						}
						root := a.Name()
						if !strings.HasPrefix(lf.path, root) || (len(lf.path) > len(root) && lf.path[len(root)] != '.' && lf.path[len(root)] != '[') {
							continue
						}
						sub := newLenFlowDepth(g, g.Params[i].Name()+lf.path[len(root):], lf.need, lf.depth+1)
						ei := errorResultIndex(g.Signature)
						okAll, any := true, false
						for _, ret := range returnsOf(g) {
							if ei >= 0 && !possiblyNilError(gProg, retResult(ret, ei), ret.Block()) {
								continue
							}
							any = true
							if !sub.at(ret) {
								okAll = false
							}
						}
						if any && okAll {
							return true
						}
					}
				}
			}
		}
		return s
	}
	op, x, y := bin.Op, bin.X, bin.Y
	if !lf.lenOfPath(x) && lf.lenOfPath(y) {
		// k < len  ≡  len > k
		x, y = y, x
		switch op {
		case token.LSS:
			op = token.GTR
		case token.LEQ:
			op = token.GEQ
		case token.GTR:
			op = token.LSS
		case token.GEQ:
			op = token.LEQ
		}
	}
	if !lf.lenOfPath(x) {
		return s
	}
	// the length must have been taken after the last change of the path in this block
	if cl := x.(*ssa.Call); cl.Block() == from {
		for i := instrIndex(cl) + 1; i < len(from.Instrs); i++ {
			if st, ok := from.Instrs[i].(*ssa.Store); ok {
				if _, sp := idxPath(st.Addr); strings.HasPrefix(lf.path, sp) {
					return s
				}
			}
		}
	} else {
		return s
	}
	k, isC := constInt(y)
	taken := to == from.Succs[0]
	if !isC {
		// len > i / i < len with i ≥ need known only for constants: a variable bound proves len ≥ 1
		// when the site needs index 0 and the comparison is strict
		if lf.need == 0 && taken && op == token.GTR {
			return nonNegValue(y)
		}
		return s
	}
	switch op {
	case token.GTR: // len > k
		return taken && k >= lf.need
	case token.GEQ: // len >= k
		return taken && k > lf.need
	case token.LSS: // len < k: false edge gives len >= k
		return !taken && k > lf.need
	case token.LEQ: // len <= k: false edge gives len > k
		return !taken && k >= lf.need
	case token.EQL: // len == k
		if taken {
			return k > lf.need
		}
		return k == 0 && lf.need == 0 // len != 0
	case token.NEQ:
		if taken {
			return k == 0 && lf.need == 0
		}
		return k > lf.need
	}
	return s
}

// nonNegValue: an index-like value that cannot be negative (a range/loop induction variable that
// starts at a non-negative constant and only increases, or a constant).
func nonNegValue(v ssa.Value) bool {
	if c, ok := constInt(v); ok {
		return c >= 0
	}
	if ph, ok := v.(*ssa.Phi); ok {
		for _, e := range ph.Edges {
			if c, ok := constInt(e); ok {
				if c < 0 {
					return false
				}
				continue
			}
			bo, ok := e.(*ssa.BinOp)
			if !ok || bo.Op != token.ADD || bo.X != ssa.Value(ph) {
				return false
			}
			if c, ok := constInt(bo.Y); !ok || c < 0 {
				return false
			}
		}
		return true
	}
	return false
}

func newLenFlow(fn *ssa.Function, path string, need int64) *lenFlow {
	return newLenFlowDepth(fn, path, need, 0)
}

func newLenFlowDepth(fn *ssa.Function, path string, need int64, depth int) *lenFlow {
	lf := &lenFlow{fn: fn, path: path, need: need, in: map[*ssa.BasicBlock]bool{}, depth: depth}
	for _, b := range fn.Blocks {
		lf.in[b] = b.Index != 0
	}
	for changed := true; changed; {
		changed = false
		for _, b := range fn.Blocks {
			if b.Index == 0 {
				continue
			}
			v := len(b.Preds) > 0
			for _, pr := range b.Preds {
				if !lf.edgeFact(pr, b) {
					v = false
				}
			}
			if v != lf.in[b] {
				lf.in[b] = v
				changed = true
			}
		}
	}
	return lf
}

func (lf *lenFlow) at(in ssa.Instruction) bool {
	b := in.Block()
	s := lf.in[b]
	for _, x := range b.Instrs {
		if x == in {
			return s
		}
		s = lf.transfer(x, s)
	}
	return s
}

func ruleFirstElem(r *Run) {
	p := r.P
	reader := buildReaderModel(p)
	n, nFresh := 0, 0
	for _, fn := range p.ModFuncs() {
		if fn.Pkg == nil || fn.Pkg.Pkg.Path() != pkgDoc || reader.IsReader[fn] {
			continue
		}
		flows := map[string]*lenFlow{}
		allInstrs(fn, func(in ssa.Instruction) {
			ia, ok := in.(*ssa.IndexAddr)
			if !ok {
				return
			}
			k, isC := constInt(ia.Index)
			if !isC {
				return
			}
			ld, ok := ia.X.(*ssa.UnOp)
			if !ok || ld.Op != token.MUL {
				return
			}
			fv, _ := fieldOfAddr(ld.X)
			if fv == nil {
				return
			}
			o := fieldOwner(p, fv)
			if o == nil || o.Obj().Pkg() == nil || o.Obj().Pkg().Path() != pkgDoc {
				return
			}
			// objects the function built itself are the library's own shapes
			fresh := true
			for rt := range deepRoots(p, ld.X) {
				switch x := rt.(type) {
				case *ssa.Alloc, *ssa.MakeSlice, *ssa.Const, *ssa.MakeMap:
				case *ssa.Call:
					// built by a constructor helper of the library (newTextCell(props, text)): the same
					// library-made shape as a literal written in place
					if !builtByConstructor(p, reader, x, o, 0) {
						fresh = false
					}
				default:
					fresh = false
				}
			}
			if fresh {
				nFresh++
				return
			}
			n++
			_, path := idxPath(ld.X)
			key := fmt.Sprintf("%s#%d", path, k)
			lf := flows[key]
			if lf == nil {
				lf = newLenFlow(fn, path, k)
				flows[key] = lf
			}
			r.Check("first-elem", fmt.Sprintf("%s:%s.%s[%d]", shortName(fn), o.Obj().Name(), fv.Name(), k), ia.Pos(), lf.at(ia),
				fmt.Sprintf("%s indexes %s.%s[%d] of an object it did not build; the reader produces such objects with an empty %s, so len > %d must be established on every path (length test, or a literal/append stored first)", shortName(fn), o.Obj().Name(), fv.Name(), k, fv.Name(), k))
		})
	}
	r.Count("constant_index_sites_on_received_objects", n)
	r.Count("constant_index_sites_on_fresh_objects", nFresh)
}

// builtByConstructor: the call's result is an object the callee builds itself on every return —
// literals, make, constants — and whatever it takes over from its parameters cannot contain the
// struct type whose slice is indexed (so the indexed slice is always one the constructor wrote).
func builtByConstructor(p *Program, reader *readerModel, c *ssa.Call, owner *types.Named, depth int) bool {
	cal := staticCallee(c)
	if cal == nil || depth > 2 || !p.inModule(cal) || len(cal.Blocks) == 0 || reader.IsReader[cal] {
		return false
	}
	rets := returnsOf(cal)
	if len(rets) == 0 {
		return false
	}
	for _, ret := range rets {
		for i := range ret.Results {
			rv := retResult(ret, i)
			if !isPointerLike(rv.Type()) {
				if _, isStruct := rv.Type().Underlying().(*types.Struct); !isStruct {
					continue
				}
			}
			for rt := range deepRoots(p, rv) {
				switch x := rt.(type) {
				case *ssa.Alloc, *ssa.MakeSlice, *ssa.Const, *ssa.MakeMap:
				case *ssa.Parameter:
					if n := isModStruct(p, x.Type()); n != nil && structsBelow(p, n)[owner] {
						return false
					}
					if _, isIface := x.Type().Underlying().(*types.Interface); isIface {
						return false
					}
					if sl, ok := x.Type().Underlying().(*types.Slice); ok {
						if n := isModStruct(p, sl.Elem()); n != nil && structsBelow(p, n)[owner] {
							return false
						}
					}
				case *ssa.Call:
					if !builtByConstructor(p, reader, x, owner, depth+1) {
						return false
					}
				default:
					return false
				}
			}
		}
	}
	return true
}

// compensated: between the write w and the failure return ret the function itself stores into a
// receiver field that w wrote (t.Rows = append(t.Rows[:pos], t.Rows[pos+i:]...) after a failed step
// of a multi-row insertion) — an explicit undo.  Only a write made through a callee can be undone
// this way (a direct store followed by a direct store of the same field is just two writes).
func compensated(p *Program, ms *mutSummary, fn *ssa.Function, w ssa.Instruction, ret *ssa.Return) bool {
	// fields the function's callees write (w may be a call, or the first instruction of the success
	// continuation standing for an atomic callee's write)
	written := map[*types.Var]bool{}
	allInstrs(fn, func(in ssa.Instruction) {
		c, ok := in.(ssa.CallInstruction)
		if !ok {
			return
		}
		cal := staticCallee(c)
		if cal == nil || !p.inModule(cal) {
			return
		}
		for _, sites := range ms.Params(cal) {
			for _, s := range sites {
				if s.Field != nil {
					written[s.Field] = true
				}
			}
		}
	})
	if len(written) == 0 {
		return false
	}
	if _, isStore := w.(*ssa.Store); isStore {
		return false // a direct store followed by a direct store of the same field is just two writes
	}
	found := false
	allInstrs(fn, func(in ssa.Instruction) {
		st, ok := in.(*ssa.Store)
		if !ok || found {
			return
		}
		fv, _ := fieldOfAddr(st.Addr)
		if fv == nil || !written[fv] || !undoOnly(fn, st) {
			return
		}
		if instrBefore(w, st) && instrBefore(st, ret) {
			found = true
		}
	})
	return found
}

// undoOnly: w is a direct store from which no success return can be reached.
func undoOnly(fn *ssa.Function, w ssa.Instruction) bool {
	if _, ok := w.(*ssa.Store); !ok {
		return false
	}
	fails := map[*ssa.Return]bool{}
	for _, r := range failureReturns(fn) {
		fails[r] = true
	}
	reach := reachableBlocks(w.Block(), nil)
	reach[w.Block()] = true
	for _, ret := range returnsOf(fn) {
		if fails[ret] {
			continue
		}
		if reach[ret.Block()] {
			return false
		}
	}
	return true
}
