package main

import (
	"encoding/xml"
	"fmt"
	"go/types"
	"io"
	"strings"

	"golang.org/x/tools/go/ssa"
)

// ---------------------------------------------------------------------------
// R-PART-PROV (C01): where do the bytes of every part come from?
// ---------------------------------------------------------------------------

func wellFormedXML(s string) error {
	d := xml.NewDecoder(strings.NewReader(s))
	for {
		_, err := d.Token()
		if err == io.EOF {
			return nil
		}
		if err != nil {
			return err
		}
	}
}

func classifyPartValue(p *Program, ps partStore) (string, bool, string) {
	v := ps.MU.Value
	res := newSlicer(p).Slice(v)
	hasCall := func(names ...string) bool {
		for x := range res.Vals {
			if c, ok := x.(*ssa.Call); ok {
				cn := calleeName(c)
				for _, n := range names {
					if cn == n {
						return true
					}
				}
			}
		}
		return false
	}
	key := ps.Key.norm()
	media := len(key) > 0 && key[0].Sym == nil && strings.HasPrefix(key[0].Const, "word/media/")
	if _, isParam := v.(*ssa.Parameter); isParam && media {
		return "media-bytes", true, "caller's image bytes stored unmodified under word/media/"
	}
	if hasCall("encoding/xml.Marshal", "encoding/xml.MarshalIndent", "(*encoding/xml.Encoder).Encode") {
		// constants appended around the marshalled bytes must themselves be well-formed prologues
		for x := range res.Vals {
			if c, ok := x.(*ssa.Const); ok {
				if s, ok := constString(c); ok && strings.Contains(s, "<") {
					if !strings.HasPrefix(strings.TrimSpace(s), "<?xml") {
						return "marshal+literal", false, fmt.Sprintf("literal %q is concatenated with marshalled XML", s)
					}
				}
			}
		}
		return "marshal", true, "bytes produced by encoding/xml (escapes text and attribute values)"
	}
	if hasCall("io.ReadAll") {
		return "copy-from-zip", true, "bytes read from the opened archive, stored unmodified"
	}
	if _, isMake := v.(*ssa.MakeSlice); isMake {
		return "copy", true, "fresh buffer filled by copy()"
	}
	if c, ok := v.(*ssa.Call); ok {
		if cal := staticCallee(c); cal != nil && p.inModule(cal) {
			// string surgery on an existing part: a raw sink decided by R-RAW-XML
			for _, par := range cal.Params {
				if par.Type().String() == "[]byte" {
					return "raw-surgery", true, "rewritten by " + shortName(cal) + " (raw sink: see raw-xml obligations)"
				}
			}
		}
	}
	if ex, ok := v.(*ssa.Extract); ok {
		if c, ok := ex.Tuple.(*ssa.Call); ok {
			if cal := staticCallee(c); cal != nil && p.inModule(cal) {
				for _, par := range cal.Params {
					if par.Type().String() == "[]byte" {
						return "raw-surgery", true, "rewritten by " + shortName(cal) + " (raw sink: see raw-xml obligations)"
					}
				}
			}
		}
	}
	// constant text
	for x := range res.Vals {
		if c, ok := x.(*ssa.Const); ok {
			if s, ok := constString(c); ok && strings.Contains(s, "<") {
				if err := wellFormedXML(s); err != nil {
					return "constant", false, "constant part text is not well-formed XML: " + err.Error()
				}
				return "constant", true, "constant text, parsed at analysis time: well-formed"
			}
		}
	}
	if _, isParam := v.(*ssa.Parameter); isParam {
		return "parameter", false, "bytes supplied by a caller are stored as a part without any check"
	}
	return "unknown", false, "origin of the part bytes is not one of: encoding/xml output, unmodified copy, media bytes, checked constant"
}

func rulePartProv(r *Run) {
	p := r.P
	stores := collectPartStores(p)
	r.Min("part_stores", len(stores), 25)
	seen := map[string]int{}
	for _, ps := range stores {
		kind, ok, why := classifyPartValue(p, ps)
		base := fmt.Sprintf("%s:%s", shortName(topLevel(ps.Fn)), ps.Key.Pattern())
		seen[base]++
		key := base
		if seen[base] > 1 {
			key = fmt.Sprintf("%s#%d", base, seen[base])
		}
		r.Count("part_origin:"+kind, 1)
		r.Check("part-prov", key, ps.MU.Pos(), ok, fmt.Sprintf("part %q written by %s: %s", ps.Key.Pattern(), shortName(topLevel(ps.Fn)), why))
	}
}

// ---------------------------------------------------------------------------
// R-CT-MEDIA (C01): the extension of a media part is the one registered as a content-type default.
// ---------------------------------------------------------------------------

func ruleCTMedia(r *Run) {
	p := r.P
	sl := newSlicer(p)
	n := 0
	for _, ps := range collectPartStores(p) {
		key := ps.Key.norm()
		if len(key) == 0 || key[0].Sym != nil || !strings.HasPrefix(key[0].Const, "word/media/") {
			continue
		}
		n++
		fn := ps.Fn
		// what determines the extension in the key?
		keyRes := sl.Slice(ps.MU.Key)
		extFromName := false
		for v := range keyRes.Vals {
			if c, ok := v.(*ssa.Call); ok && calleeName(c) == "path/filepath.Ext" {
				extFromName = true
			}
		}
		// what determines the registered default extension?
		var regDeps *sliceRes
		allInstrs(fn, func(in ssa.Instruction) {
			c, ok := in.(*ssa.Call)
			if !ok {
				return
			}
			cal := staticCallee(c)
			if cal == nil || !p.inModule(cal) {
				return
			}
			writesDefaults := false
			allInstrs(cal, func(in2 ssa.Instruction) {
				if st, ok := in2.(*ssa.Store); ok {
					if fv, _ := fieldOfAddr(st.Addr); fieldIs(p, fv, pkgDoc, "ContentTypes", "Defaults") {
						writesDefaults = true
					}
				}
			})
			if writesDefaults {
				regDeps = sl.Slice(c.Call.Args[len(c.Call.Args)-1])
				for _, a := range c.Call.Args {
					sl.walk(a, regDeps, 0)
				}
			}
		})
		if regDeps == nil {
			r.Check("ct-media", shortName(fn), ps.MU.Pos(), false, "a media part is stored but no content-type default is registered by the same operation")
			continue
		}
		// the registered extension must be computed from the same source as the key's extension:
		// if the key's extension comes from the caller's file name, the registration must depend on it too
		regFromName := false
		for v := range regDeps.Vals {
			if c, ok := v.(*ssa.Call); ok && calleeName(c) == "path/filepath.Ext" {
				regFromName = true
			}
			if par, ok := v.(*ssa.Parameter); ok && par.Name() == "fileName" {
				regFromName = true
			}
		}
		ok := !extFromName || regFromName
		r.Check("ct-media", shortName(fn), ps.MU.Pos(), ok,
			fmt.Sprintf("%s names the media part with the extension of the caller's file name (filepath.Ext) but registers the content-type default from the image format only: a name such as photo.jpg (format JPEG registers \"jpeg\") or logo.PNG leaves the part without a content type", shortName(fn)))
	}
	r.Min("media_part_stores", n, 2)
}

// ---------------------------------------------------------------------------
// R-PART-PASS (C04): every entry of the opened archive is kept; nothing is ever deleted.
// ---------------------------------------------------------------------------

func rulePartPass(r *Run) {
	p := r.P
	open := r.mustFunc(pkgDoc, "openFromZipReader")
	if open == nil {
		return
	}
	// (a) the loop over zipReader.File stores every entry under its own name or fails
	found := false
	for _, l := range naturalLoops(open) {
		if !isBoundedRange(l) {
			continue
		}
		// a range over a []*zip.File
		isZip := false
		var stores []ssa.Instruction
		for b := range l.Body {
			for _, in := range b.Instrs {
				if ia, ok := in.(*ssa.IndexAddr); ok && strings.Contains(ia.X.Type().String(), "archive/zip.File") {
					isZip = true
				}
				if mu, ok := in.(*ssa.MapUpdate); ok {
					if ch, _ := addrChain(mu.Map); len(ch) > 0 && fieldIs(p, ch[len(ch)-1], pkgDoc, "Document", "parts") {
						// key must be the entry's own name
						kch, _ := valueChain(mu.Key)
						if len(kch) > 0 && kch[len(kch)-1] != nil && kch[len(kch)-1].Name() == "Name" {
							stores = append(stores, mu)
						}
					}
				}
			}
		}
		if !isZip {
			continue
		}
		found = true
		// every path from the loop body back to the header passes a store (or leaves the function)
		cut := map[*ssa.BasicBlock]bool{}
		for _, s := range stores {
			cut[s.Block()] = true
		}
		body := l.Header.Succs[0]
		ok := len(stores) > 0
		if !cut[body] {
			reach := reachableBlocks(body, cut)
			if reach[l.Header] {
				ok = false
			}
		}
		r.Check("part-pass", "openFromZipReader:loop", l.Header.Instrs[0].Pos(), ok,
			"every archive entry must be stored into Document.parts under its own name (or Open must fail): an entry skipped here is silently dropped from the next save")
	}
	if !found {
		r.Unresolved("range over zip.Reader.File in openFromZipReader")
	}
	// (b) every relationship parsed from the document relationship part is retained (id, type, target)
	if fn := p.Func(pkgDoc, "(*Document).parseDocumentRelationships"); fn != nil {
		checked := false
		for _, l := range naturalLoops(fn) {
			if !isBoundedRange(l) {
				continue
			}
			var apps []*ssa.Call
			for b := range l.Body {
				for _, in := range b.Instrs {
					if c, ok := in.(*ssa.Call); ok {
						if bi, ok := c.Call.Value.(*ssa.Builtin); ok && bi.Name() == "append" && strings.Contains(c.Type().String(), "Relationship") {
							apps = append(apps, c)
						}
					}
				}
			}
			if len(apps) == 0 {
				continue
			}
			checked = true
			cut := map[*ssa.BasicBlock]bool{}
			for _, a := range apps {
				cut[a.Block()] = true
			}
			body := l.Header.Succs[0]
			ok := cut[body] || !reachableBlocks(body, cut)[l.Header]
			r.Check("rel-keep", "parseDocumentRelationships", apps[0].Pos(), ok,
				"every relationship read from word/_rels/document.xml.rels must be kept as it is; the loop drops the styles relationship (re-added with the constant id rId1 at save time), so its original id is not preserved and can collide with another relationship that already uses rId1")
		}
		if !checked {
			// no filtering loop at all: the parsed list is stored as is
			r.Check("rel-keep", "parseDocumentRelationships", fn.Pos(), true, "parsed relationship list stored without filtering")
		}
	} else {
		r.Unresolved("document.(*Document).parseDocumentRelationships")
	}
	// (c) delete on Document.parts occurs nowhere
	nDel := 0
	for _, fn := range p.ModFuncs() {
		allInstrs(fn, func(in ssa.Instruction) {
			c, ok := in.(*ssa.Call)
			if !ok {
				return
			}
			if b, ok := c.Call.Value.(*ssa.Builtin); ok && (b.Name() == "delete" || b.Name() == "clear") {
				if ch, _ := addrChain(c.Call.Args[0]); len(ch) > 0 && fieldIs(p, ch[len(ch)-1], pkgDoc, "Document", "parts") {
					nDel++
					r.Check("part-pass", "delete:"+shortName(topLevel(fn)), c.Pos(), false, shortName(topLevel(fn))+" deletes entries from Document.parts: parts of an opened package would be lost")
				}
			}
			// replacing the whole map outside constructors
		})
		allInstrs(fn, func(in ssa.Instruction) {
			st, ok := in.(*ssa.Store)
			if !ok {
				return
			}
			if fv, base := fieldOfAddr(st.Addr); fieldIs(p, fv, pkgDoc, "Document", "parts") {
				if _, fresh := stripLoads(base).(*ssa.Alloc); fresh {
					return
				}
				// allowed only when guarded by a nil test of the same field (lazy init)
				guarded := false
				for _, t := range fieldNilTestsAny(fn) {
					if t.Field == fv {
						guarded = true
					}
				}
				r.Check("part-pass", "replace-map:"+shortName(topLevel(fn)), st.Pos(), guarded, shortName(topLevel(fn))+" replaces the whole part map; allowed only as nil-guarded lazy initialisation")
			}
		})
	}
	r.Trivial("part-pass", "no-delete", open.Pos(), nDel == 0, "no delete()/clear() on Document.parts anywhere in the module (positive control for the matcher is part of the self-test)")
	// (d) functions reachable from Save/ToBytes store only the regenerated constant keys
	allowed := map[string]bool{"word/document.xml": true, "[Content_Types].xml": true, "_rels/.rels": true, "word/_rels/document.xml.rels": true, "word/styles.xml": true}
	for _, name := range []string{"(*Document).Save", "(*Document).ToBytes"} {
		fn := p.Func(pkgDoc, name)
		if fn == nil {
			continue
		}
		reach := p.staticReach(fn)
		for _, ps := range collectPartStores(p) {
			if !reach[ps.Fn] {
				continue
			}
			k, isConst := ps.Key.isConst()
			r.Check("part-pass", fmt.Sprintf("%s:regenerates:%s", name, ps.Key.Pattern()), ps.MU.Pos(), isConst && allowed[k],
				fmt.Sprintf("saving may regenerate only the parts the library owns %v; %s (reachable from %s) stores %q", keysOf(allowed), shortName(ps.Fn), name, ps.Key.Pattern()))
		}
	}
}

// ---------------------------------------------------------------------------
// R-SCHEMA-OPC (C04): the OPC structs model every attribute of their element.
// ---------------------------------------------------------------------------

// opcAttrs: ECMA-376 Part 2 (OPC) §9.3.2 Relationship, §10.1.2.2 Default / Override.
var opcAttrs = map[string][]string{
	"Relationship": {"Id", "Type", "Target", "TargetMode"},
	"Default":      {"Extension", "ContentType"},
	"Override":     {"PartName", "ContentType"},
}

func ruleSchemaOPC(r *Run) {
	p := r.P
	for _, tn := range []string{"Default", "Override", "Relationship"} {
		n := p.Named(pkgDoc, tn)
		if n == nil {
			r.Unresolved("document." + tn)
			continue
		}
		st := n.Underlying().(*types.Struct)
		have := map[string]bool{}
		for i := 0; i < st.NumFields(); i++ {
			t := parseXMLTag(st.Tag(i))
			if t.Attr {
				have[t.Name] = true
			}
		}
		for _, a := range opcAttrs[tn] {
			r.Check("schema-opc", tn+"."+a, n.Obj().Pos(), have[a],
				fmt.Sprintf("OPC element <%s> has attribute %s; the struct that is parsed on open and re-marshalled on save does not model it, so the attribute is lost (e.g. TargetMode=\"External\" of a hyperlink relationship: the link comes back as an internal, dangling target)", tn, a))
		}
	}
}
