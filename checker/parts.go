package main

import (
	"encoding/xml"
	"fmt"
	"go/token"
	"go/types"
	"io"
	"os"
	"sort"
	"strings"

	"golang.org/x/tools/go/ssa"
)

// ---------------------------------------------------------------------------
// R-PART-PROV (C01): where do the bytes of every part come from?
// ---------------------------------------------------------------------------

func wellFormedXML(s string) error {
	d := xml.NewDecoder(strings.NewReader(s))
	for {
		_, err := d.Token()
		if err == io.EOF {
			return nil
		}
		if err != nil {
			return err
		}
	}
}

func classifyPartValue(p *Program, ps partStore) (string, bool, string) {
	v := ps.MU.Value
	res := newSlicer(p).Slice(v)
	hasCall := func(names ...string) bool {
		for x := range res.Vals {
			if c, ok := x.(*ssa.Call); ok {
				cn := calleeName(c)
				for _, n := range names {
					if cn == n {
						return true
					}
				}
			}
		}
		return false
	}
	key := ps.Key.norm()
	media := len(key) > 0 && key[0].Sym == nil && strings.HasPrefix(key[0].Const, "word/media/")
	if _, isParam := v.(*ssa.Parameter); isParam && media {
		return "media-bytes", true, "caller's image bytes stored unmodified under word/media/"
	}
	if hasCall("encoding/xml.Marshal", "encoding/xml.MarshalIndent", "(*encoding/xml.Encoder).Encode") {
		// constants appended around the marshalled bytes must themselves be well-formed prologues
		for x := range res.Vals {
			if c, ok := x.(*ssa.Const); ok {
				if s, ok := constString(c); ok && strings.Contains(s, "<") {
					if !strings.HasPrefix(strings.TrimSpace(s), "<?xml") {
						return "marshal+literal", false, fmt.Sprintf("literal %q is concatenated with marshalled XML", s)
					}
				}
			}
		}
		return "marshal", true, "bytes produced by encoding/xml (escapes text and attribute values)"
	}
	if hasCall("io.ReadAll") {
		// the reader handed to ReadAll must be the archive entry itself: a wrapper such as
		// io.LimitReader silently truncates (or otherwise alters) what is stored as the part
		for x := range res.Vals {
			c, ok := x.(*ssa.Call)
			if !ok || calleeName(c) != "io.ReadAll" {
				continue
			}
			arg := c.Call.Args[0]
			if mi, ok := arg.(*ssa.MakeInterface); ok {
				arg = mi.X
			}
			if ci, ok := arg.(*ssa.ChangeInterface); ok {
				arg = ci.X
			}
			direct := false
			if ex, ok := arg.(*ssa.Extract); ok {
				if oc, ok := ex.Tuple.(*ssa.Call); ok && strings.HasSuffix(calleeName(oc), "archive/zip.File).Open") {
					direct = true
				}
			}
			if wc, ok := arg.(*ssa.Call); ok {
				switch calleeName(wc) {
				case "bufio.NewReader", "bufio.NewReaderSize":
					direct = true // buffering does not change the bytes
				}
			}
			if _, isParam := arg.(*ssa.Parameter); isParam {
				direct = true
			}
			if !direct {
				return "copy-from-zip", false, "the bytes are read through " + symOf(arg).String() + " rather than from the archive entry itself: a limiting or transforming reader stores a truncated or altered part without reporting an error"
			}
		}
		return "copy-from-zip", true, "bytes read from the opened archive, stored unmodified"
	}
	// the same copy written with a bytes.Buffer: buf.ReadFrom(rc) / io.Copy(&buf, rc); buf.Bytes()
	if hasCall("(*bytes.Buffer).Bytes") {
		filled, other := false, false
		allInstrs(ps.Fn, func(in ssa.Instruction) {
			if c, ok := in.(ssa.CallInstruction); ok {
				switch cn := calleeName(c); {
				case cn == "(*bytes.Buffer).ReadFrom" || cn == "io.Copy" || cn == "io.CopyN":
					filled = true
				case strings.HasPrefix(cn, "(*bytes.Buffer).Write"):
					other = true
				}
			}
		})
		if filled && !other {
			return "copy-from-zip", true, "bytes copied from the opened archive through a bytes.Buffer, stored unmodified"
		}
	}
	// the same copy made by a module helper (readAllSized(rc, hint)): its result is everything read
	// from its reader parameter, and the reader handed in is the archive entry itself
	{
		var hc *ssa.Call
		switch x := v.(type) {
		case *ssa.Call:
			hc = x
		case *ssa.Extract:
			hc, _ = x.Tuple.(*ssa.Call)
		}
		if hc != nil {
			if cal := staticCallee(hc); cal != nil && p.inModule(cal) {
				if pi, ok := readAllHelper(p, cal); ok && pi < len(hc.Call.Args) {
					arg := hc.Call.Args[pi]
					for {
						if mi, ok := arg.(*ssa.MakeInterface); ok {
							arg = mi.X
						} else if ci, ok := arg.(*ssa.ChangeInterface); ok {
							arg = ci.X
						} else {
							break
						}
					}
					if ex, ok := arg.(*ssa.Extract); ok {
						if oc, ok := ex.Tuple.(*ssa.Call); ok && strings.HasSuffix(calleeName(oc), "archive/zip.File).Open") {
							return "copy-from-zip", true, "bytes read from the opened archive by " + shortName(cal) + ", stored unmodified"
						}
					}
					return "copy-from-zip", false, "the bytes are read by " + shortName(cal) + " through " + symOf(arg).String() + " rather than from the archive entry itself"
				}
			}
		}
	}
	// …or by a module helper that is handed the archive entry (*zip.File) and opens it itself:
	// what it returns is classified like a value stored directly
	{
		var hc *ssa.Call
		idx := 0
		switch x := v.(type) {
		case *ssa.Call:
			hc = x
		case *ssa.Extract:
			hc, _ = x.Tuple.(*ssa.Call)
			idx = x.Index
		}
		if hc != nil && ps.MU.Block() != nil {
			if cal := staticCallee(hc); cal != nil && p.inModule(cal) && len(cal.Blocks) > 0 {
				takesEntry := false
				for _, par := range cal.Params {
					if typeIs(par.Type(), "archive/zip", "File") {
						takesEntry = true
					}
				}
				if takesEntry {
					kind, okAll, why := "", true, ""
					n := 0
					for _, ret := range returnsOf(cal) {
						if idx >= len(ret.Results) || isNilConst(ret.Results[idx]) {
							continue
						}
						n++
						k, o, w := classifyPartValue(p, partStore{Fn: cal, Key: ps.Key, MU: &ssa.MapUpdate{Value: ret.Results[idx]}})
						if !o {
							okAll, why = false, w
						} else if why == "" {
							why = w
						}
						kind = k
					}
					if n > 0 {
						return kind, okAll, why + " (in " + shortName(cal) + ")"
					}
				}
			}
		}
	}
	if _, isMake := v.(*ssa.MakeSlice); isMake {
		return "copy", true, "fresh buffer filled by copy()"
	}
	if c, ok := v.(*ssa.Call); ok {
		if cal := staticCallee(c); cal != nil && p.inModule(cal) {
			// string surgery on an existing part: a raw sink decided by R-RAW-XML
			for _, par := range cal.Params {
				if par.Type().String() == "[]byte" {
					return "raw-surgery", true, "rewritten by " + shortName(cal) + " (raw sink: see raw-xml obligations)"
				}
			}
		}
	}
	if ex, ok := v.(*ssa.Extract); ok {
		if c, ok := ex.Tuple.(*ssa.Call); ok {
			if cal := staticCallee(c); cal != nil && p.inModule(cal) {
				for _, par := range cal.Params {
					if par.Type().String() == "[]byte" {
						return "raw-surgery", true, "rewritten by " + shortName(cal) + " (raw sink: see raw-xml obligations)"
					}
				}
			}
		}
	}
	// constant text
	for x := range res.Vals {
		if c, ok := x.(*ssa.Const); ok {
			if s, ok := constString(c); ok && strings.Contains(s, "<") {
				if err := wellFormedXML(s); err != nil {
					return "constant", false, "constant part text is not well-formed XML: " + err.Error()
				}
				return "constant", true, "constant text, parsed at analysis time: well-formed"
			}
		}
	}
	if _, isParam := v.(*ssa.Parameter); isParam {
		return "parameter", false, "bytes supplied by a caller are stored as a part without any check"
	}
	return "unknown", false, "origin of the part bytes is not one of: encoding/xml output, unmodified copy, media bytes, checked constant"
}

// readAllHelper: fn returns, as its []byte result, exactly what it read to EOF from one of its
// io.Reader parameters — io.ReadAll(r), or a bytes.Buffer filled only by ReadFrom(r) / io.Copy(buf, r).
// Returns the index of that parameter.
func readAllHelper(p *Program, fn *ssa.Function) (int, bool) {
	if len(fn.Blocks) == 0 || fn.Signature.Results().Len() == 0 || fn.Signature.Results().At(0).Type().String() != "[]byte" {
		return 0, false
	}
	strip := func(v ssa.Value) ssa.Value {
		for {
			switch x := v.(type) {
			case *ssa.MakeInterface:
				v = x.X
			case *ssa.ChangeInterface:
				v = x.X
			default:
				return v
			}
		}
	}
	pi := -1
	for _, ret := range returnsOf(fn) {
		v := retResult(ret, 0)
		if isNilConst(v) {
			continue
		}
		if ex, ok := v.(*ssa.Extract); ok {
			v = ex.Tuple
		}
		c, ok := v.(*ssa.Call)
		if !ok {
			// io.ReadAll written out: a buffer grown by append, filled only by r.Read(buf[len:cap]) and
			// returned when Read reports an error (EOF included)
			if k, ok := readLoopHelper(fn, v); ok && (pi < 0 || pi == k) {
				pi = k
				continue
			}
			return 0, false
		}
		switch calleeName(c) {
		case "io.ReadAll":
			par, ok := strip(c.Call.Args[0]).(*ssa.Parameter)
			if !ok {
				return 0, false
			}
			pi = paramIndex(fn, par)
		case "(*bytes.Buffer).Bytes":
			buf := c.Call.Args[0]
			filled := -1
			bad := false
			allInstrs(fn, func(in ssa.Instruction) {
				c2, ok := in.(ssa.CallInstruction)
				if !ok {
					return
				}
				args := c2.Common().Args
				switch cn := calleeName(c2); {
				case cn == "(*bytes.Buffer).ReadFrom" && len(args) == 2 && args[0] == buf:
					if par, ok := strip(args[1]).(*ssa.Parameter); ok {
						filled = paramIndex(fn, par)
					} else {
						bad = true
					}
				case (cn == "io.Copy" || cn == "io.CopyBuffer") && len(args) >= 2 && strip(args[0]) == buf:
					if par, ok := strip(args[1]).(*ssa.Parameter); ok {
						filled = paramIndex(fn, par)
					} else {
						bad = true
					}
				case strings.HasPrefix(cn, "(*bytes.Buffer).Write") || cn == "(*bytes.Buffer).Truncate" || cn == "(*bytes.Buffer).Reset" || cn == "(*bytes.Buffer).Next" || strings.HasPrefix(cn, "(*bytes.Buffer).Read") && cn != "(*bytes.Buffer).ReadFrom":
					if len(args) > 0 && args[0] == buf {
						bad = true
					}
				case cn == "io.CopyN" || cn == "io.LimitReader":
					bad = true
				}
			})
			if bad || filled < 0 {
				return 0, false
			}
			pi = filled
		default:
			return 0, false
		}
	}
	return pi, pi >= 0
}

func rulePartProv(r *Run) {
	p := r.P
	stores := collectPartStores(p)
	r.Min("part_store_key_patterns", distinctPartKeys(stores), 12) // distinct kinds of part written; robust to merging sibling store sites into one helper
	seen := map[string]int{}
	for _, ps := range stores {
		kind, ok, why := classifyPartValue(p, ps)
		base := fmt.Sprintf("%s:%s", shortName(topLevel(ps.Fn)), ps.Key.Pattern())
		seen[base]++
		key := base
		if seen[base] > 1 {
			key = fmt.Sprintf("%s#%d", base, seen[base])
		}
		r.Count("part_origin:"+kind, 1)
		r.Check("part-prov", key, ps.MU.Pos(), ok, fmt.Sprintf("part %q written by %s: %s", ps.Key.Pattern(), shortName(topLevel(ps.Fn)), why))
	}
}

// ---------------------------------------------------------------------------
// R-CT-MEDIA (C01): the extension of a media part is the one registered as a content-type default.
// ---------------------------------------------------------------------------

func ruleCTMedia(r *Run) {
	p := r.P
	sl := newSlicer(p)
	n := 0
	// format constant → string constants assigned in the region of `format == const`
	caseConsts := func(fn *ssa.Function, want func(string) bool) (map[string]string, bool) {
		out := map[string]string{}
		hasParam := false
		for _, par := range fn.Params {
			if nt, ok := par.Type().(*types.Named); ok && nt.Obj().Name() == "ImageFormat" {
				hasParam = true
				for _, c := range strCompares(fn) {
					if stripConv(c.Operand) != ssa.Value(par) {
						continue
					}
					for b := range c.Region {
						for _, in := range b.Instrs {
							for _, op := range in.Operands(nil) {
								if *op == nil {
									continue
								}
								if s, ok := constString(*op); ok && want(s) {
									out[c.Const] = s
								}
							}
						}
					}
					// values that only appear as phi inputs from the region
					for _, b := range fn.Blocks {
						for _, in := range b.Instrs {
							ph, ok := in.(*ssa.Phi)
							if !ok {
								continue
							}
							for i, e := range ph.Edges {
								if s, ok := constString(e); ok && want(s) && c.Region[b.Preds[i]] {
									out[c.Const] = s
								}
							}
						}
					}
				}
			}
		}
		return out, hasParam
	}
	for _, ps := range collectPartStores(p) {
		key := ps.Key.norm()
		if len(key) == 0 || key[0].Sym != nil || !strings.HasPrefix(key[0].Const, "word/media/") {
			continue
		}
		n++
		fn := ps.Fn
		// namer: module callee in the key's slice that switches on the image format
		var namer, registrar *ssa.Function
		for v := range sl.Slice(ps.MU.Key).Vals {
			if c, ok := v.(*ssa.Call); ok {
				if cal := staticCallee(c); cal != nil && p.inModule(cal) && isStringType(c.Type()) {
					if _, has := caseConsts(cal, func(string) bool { return true }); has {
						namer = cal
						// a wrapper that only hands the format on (an allocation loop around the
						// real namer): follow it to the function that decides by format
						for depth := 0; depth < 3; depth++ {
							m, _ := caseConsts(namer, func(string) bool { return true })
							if tg, _, _ := tableExtension(p, namer); len(m) > 0 || tg != nil {
								break
							}
							var inner *ssa.Function
							allInstrs(namer, func(in2 ssa.Instruction) {
								c2, ok := in2.(*ssa.Call)
								if !ok {
									return
								}
								if cal2 := staticCallee(c2); cal2 != nil && cal2 != namer && p.inModule(cal2) && isStringType(c2.Type()) {
									if _, has2 := caseConsts(cal2, func(string) bool { return true }); has2 {
										inner = cal2
									}
								}
							})
							if inner == nil {
								break
							}
							namer = inner
						}
					}
				}
			}
		}
		allInstrs(fn, func(in ssa.Instruction) {
			c, ok := in.(*ssa.Call)
			if !ok {
				return
			}
			cal := staticCallee(c)
			if cal == nil || !p.inModule(cal) {
				return
			}
			writesDefaults := false
			allInstrs(cal, func(in2 ssa.Instruction) {
				if st, ok := in2.(*ssa.Store); ok {
					if fv, _ := fieldOfAddr(st.Addr); fieldIs(p, fv, pkgDoc, "ContentTypes", "Defaults") {
						writesDefaults = true
					}
				}
			})
			if writesDefaults {
				registrar = cal
			}
		})
		if registrar == nil {
			r.Check("ct-media", shortName(fn)+":registers", ps.MU.Pos(), false, "a media part is stored but no content-type default is registered by the same operation")
			continue
		}
		if namer == nil {
			r.Check("ct-media", shortName(fn)+":namer", ps.MU.Pos(), false, "the media part name is not produced by a function of the image format: its extension cannot be matched with the registered content-type default")
			continue
		}
		// single-table idiom: namer and registrar both read the extension from the same field of the
		// same package-level table, indexed by the format — agreement by construction
		if os.Getenv("WZ_DEBUG_CT") != "" {
			ng, nf, _ := tableExtension(p, namer)
			rg, rf, _ := tableExtension(p, registrar)
			fmt.Fprintf(os.Stderr, "ct-media fn=%s namer=%s registrar=%s ng=%v nf=%v rg=%v rf=%v\n", shortName(fn), shortName(namer), shortName(registrar), ng, nf, rg, rf)
		}
		if ng, nf, nv := tableExtension(p, namer); ng != nil {
			if rg, rf, _ := tableExtension(p, registrar); rg == ng && rf == nf {
				dotted := false
				for _, ret := range returnsOf(namer) {
					if dottedSym(retResult(ret, 0), nv, 0) {
						dotted = true
					}
				}
				r.Check("ct-media", shortName(fn)+":table", ps.MU.Pos(), dotted,
					fmt.Sprintf("media part extension (%s) and registered content-type default (%s) are both read from field %s of the package-level table %s indexed by the image format; the part name must be \"<name>.\" + that extension (dot found: %v)", shortName(namer), shortName(registrar), nf.Name(), ng.Name(), dotted))
				continue
			}
		}
		names, _ := caseConsts(namer, func(s string) bool { return strings.HasPrefix(s, ".") })
		regs, _ := caseConsts(registrar, func(s string) bool { return !strings.Contains(s, "/") && !strings.HasPrefix(s, ".") && s != "" })
		var fmts []string
		for f := range regs {
			fmts = append(fmts, f)
		}
		for f := range names {
			if _, ok := regs[f]; !ok {
				fmts = append(fmts, f)
			}
		}
		sort.Strings(fmts)
		for _, f := range fmts {
			ok := names[f] != "" && regs[f] != "" && names[f] == "."+regs[f]
			r.Check("ct-media", fmt.Sprintf("%s:format=%s", shortName(fn), f), ps.MU.Pos(), ok,
				fmt.Sprintf("image format %q: media part extension chosen by %s is %q, content-type default registered by %s is %q — they must be the same extension or the part has no content type", f, shortName(namer), names[f], shortName(registrar), regs[f]))
		}
		r.Min("image_formats:"+shortName(fn), len(fmts), 3)
		// the caller's file name may determine the extension only in the default arm, i.e. where every
		// comparison with a format the registrar knows has already failed
		extFromName := false
		allInstrs(namer, func(in ssa.Instruction) {
			c, ok := in.(*ssa.Call)
			if !ok || calleeName(c) != "path/filepath.Ext" {
				return
			}
			for _, sc := range strCompares(namer) {
				if _, known := regs[sc.Const]; !known {
					continue
				}
				falseSucc := sc.If.Block().Succs[1]
				if bo, ok := sc.If.Cond.(*ssa.BinOp); ok && bo.Op == token.NEQ {
					falseSucc = sc.If.Block().Succs[0]
				}
				if !falseSucc.Dominates(c.Block()) {
					extFromName = true
				}
			}
		})
		r.Check("ct-media", shortName(fn)+":caller-extension", ps.MU.Pos(), !extFromName,
			fmt.Sprintf("%s takes the extension of a media part of a known format from the caller's file name (filepath.Ext): a name such as photo.jpg or logo.PNG then has no registered content type", shortName(namer)))
	}
	r.Min("media_part_stores", n, 1)
}

// ---------------------------------------------------------------------------
// R-PART-PASS (C04): every entry of the opened archive is kept; nothing is ever deleted.
// ---------------------------------------------------------------------------

func rulePartPass(r *Run) {
	p := r.P
	open := r.mustFunc(pkgDoc, "openFromZipReader")
	if open == nil {
		return
	}
	// (a) the loop over zipReader.File stores every entry under its own name or fails
	found := false
	var openLoops []*natLoop
	for _, g := range helperGroup(p, open) {
		openLoops = append(openLoops, naturalLoops(g)...)
	}
	for _, l := range openLoops {
		if !isBoundedRange(l) {
			continue
		}
		// a range over a []*zip.File
		isZip := false
		var stores []ssa.Instruction
		for b := range l.Body {
			for _, in := range b.Instrs {
				if ia, ok := in.(*ssa.IndexAddr); ok && strings.Contains(ia.X.Type().String(), "archive/zip.File") {
					isZip = true
				}
				if mu, ok := in.(*ssa.MapUpdate); ok {
					// the part map itself, or a local map[string][]byte that becomes it (a reading helper
					// may fill a fresh map and return it)
					isParts := false
					if ch, _ := addrChain(mu.Map); len(ch) > 0 && fieldIs(p, ch[len(ch)-1], pkgDoc, "Document", "parts") {
						isParts = true
					} else if mt, ok := mu.Map.Type().Underlying().(*types.Map); ok && mt.Elem().String() == "[]byte" {
						isParts = true
					}
					if isParts {
						// key must be the entry's own name
						kch, _ := valueChain(mu.Key)
						if len(kch) > 0 && kch[len(kch)-1] != nil && kch[len(kch)-1].Name() == "Name" {
							stores = append(stores, mu)
						}
					}
				}
			}
		}
		if !isZip {
			continue
		}
		found = true
		// every path from the loop body back to the header passes a store (or leaves the function)
		cut := map[*ssa.BasicBlock]bool{}
		for _, s := range stores {
			cut[s.Block()] = true
		}
		body := l.Header.Succs[0]
		ok := len(stores) > 0
		if !cut[body] {
			reach := reachableBlocks(body, cut)
			if reach[l.Header] {
				ok = false
			}
		}
		r.Check("part-pass", "openFromZipReader:loop", l.Header.Instrs[0].Pos(), ok,
			"every archive entry must be stored into Document.parts under its own name (or Open must fail): an entry skipped here is silently dropped from the next save")
	}
	if !found {
		r.Unresolved("range over zip.Reader.File in openFromZipReader")
	}
	// (b) every relationship parsed from the document relationship part is retained (id, type, target)
	if fn := p.Func(pkgDoc, "(*Document).parseDocumentRelationships"); fn != nil {
		checked := false
		for _, l := range naturalLoops(fn) {
			if !isBoundedRange(l) {
				continue
			}
			var apps []*ssa.Call
			for b := range l.Body {
				for _, in := range b.Instrs {
					if c, ok := in.(*ssa.Call); ok {
						if bi, ok := c.Call.Value.(*ssa.Builtin); ok && bi.Name() == "append" && strings.Contains(c.Type().String(), "Relationship") {
							apps = append(apps, c)
						}
					}
				}
			}
			if len(apps) == 0 {
				continue
			}
			checked = true
			cut := map[*ssa.BasicBlock]bool{}
			for _, a := range apps {
				cut[a.Block()] = true
			}
			body := l.Header.Succs[0]
			ok := cut[body] || !reachableBlocks(body, cut)[l.Header]
			r.Check("rel-keep", "parseDocumentRelationships", apps[0].Pos(), ok,
				"every relationship read from word/_rels/document.xml.rels must be kept as it is; the loop drops the styles relationship (re-added with the constant id rId1 at save time), so its original id is not preserved and can collide with another relationship that already uses rId1")
		}
		if !checked {
			// no filtering loop at all: the parsed list is stored as is
			r.Check("rel-keep", "parseDocumentRelationships", fn.Pos(), true, "parsed relationship list stored without filtering")
		}
	} else {
		r.Unresolved("document.(*Document).parseDocumentRelationships")
	}
	// (c) delete on Document.parts occurs nowhere
	nDel := 0
	for _, fn := range p.ModFuncs() {
		allInstrs(fn, func(in ssa.Instruction) {
			c, ok := in.(*ssa.Call)
			if !ok {
				return
			}
			if b, ok := c.Call.Value.(*ssa.Builtin); ok && (b.Name() == "delete" || b.Name() == "clear") {
				if ch, _ := addrChain(c.Call.Args[0]); len(ch) > 0 && fieldIs(p, ch[len(ch)-1], pkgDoc, "Document", "parts") {
					nDel++
					r.Check("part-pass", "delete:"+shortName(topLevel(fn)), c.Pos(), false, shortName(topLevel(fn))+" deletes entries from Document.parts: parts of an opened package would be lost")
				}
			}
			// replacing the whole map outside constructors
		})
		allInstrs(fn, func(in ssa.Instruction) {
			st, ok := in.(*ssa.Store)
			if !ok {
				return
			}
			if fv, base := fieldOfAddr(st.Addr); fieldIs(p, fv, pkgDoc, "Document", "parts") {
				if _, fresh := stripLoads(base).(*ssa.Alloc); fresh {
					return
				}
				// allowed only when guarded by a nil test of the same field (lazy init)
				guarded := false
				for _, t := range fieldNilTestsAny(fn) {
					if t.Field == fv {
						guarded = true
					}
				}
				r.Check("part-pass", "replace-map:"+shortName(topLevel(fn)), st.Pos(), guarded, shortName(topLevel(fn))+" replaces the whole part map; allowed only as nil-guarded lazy initialisation")
			}
		})
	}
	r.Trivial("part-pass", "no-delete", open.Pos(), nDel == 0, "no delete()/clear() on Document.parts anywhere in the module (positive control for the matcher is part of the self-test)")
	// (d) functions reachable from Save/ToBytes store only the regenerated constant keys
	allowed := map[string]bool{"word/document.xml": true, "[Content_Types].xml": true, "_rels/.rels": true, "word/_rels/document.xml.rels": true, "word/styles.xml": true}
	for _, name := range []string{"(*Document).Save", "(*Document).ToBytes"} {
		fn := p.Func(pkgDoc, name)
		if fn == nil {
			continue
		}
		reach := p.staticReach(fn)
		for _, ps := range collectPartStores(p) {
			if !reach[ps.Fn] {
				continue
			}
			k, isConst := ps.Key.isConst()
			r.Check("part-pass", fmt.Sprintf("%s:regenerates:%s", name, ps.Key.Pattern()), ps.MU.Pos(), isConst && allowed[k],
				fmt.Sprintf("saving may regenerate only the parts the library owns %v; %s (reachable from %s) stores %q", keysOf(allowed), shortName(ps.Fn), name, ps.Key.Pattern()))
		}
	}
}

// ---------------------------------------------------------------------------
// R-SCHEMA-OPC (C04): the OPC structs model every attribute of their element.
// ---------------------------------------------------------------------------

// opcAttrs: ECMA-376 Part 2 (OPC) §9.3.2 Relationship, §10.1.2.2 Default / Override.
var opcAttrs = map[string][]string{
	"Relationship": {"Id", "Type", "Target", "TargetMode"},
	"Default":      {"Extension", "ContentType"},
	"Override":     {"PartName", "ContentType"},
}

func ruleSchemaOPC(r *Run) {
	p := r.P
	for _, tn := range []string{"Default", "Override", "Relationship"} {
		n := p.Named(pkgDoc, tn)
		if n == nil {
			r.Unresolved("document." + tn)
			continue
		}
		st := n.Underlying().(*types.Struct)
		have := map[string]bool{}
		for i := 0; i < st.NumFields(); i++ {
			t := parseXMLTag(st.Tag(i))
			// encoding/xml ignores unexported fields whatever their tag says
			if t.Attr && st.Field(i).Exported() {
				have[t.Name] = true
			}
		}
		for _, a := range opcAttrs[tn] {
			r.Check("schema-opc", tn+"."+a, n.Obj().Pos(), have[a],
				fmt.Sprintf("OPC element <%s> has attribute %s; the struct that is parsed on open and re-marshalled on save does not model it, so the attribute is lost (e.g. TargetMode=\"External\" of a hyperlink relationship: the link comes back as an internal, dangling target)", tn, a))
		}
	}
}

// dottedSym: the string v contains "." immediately followed by (a value derived from) nv — also
// when the dotted extension is first put into a variable that has other sources on other paths
// (ext = "." + info.extension in the known-format branch, the caller's extension otherwise).
func dottedSym(v, nv ssa.Value, depth int) bool {
	sym := symOf(v).norm()
	for i, part := range sym {
		if part.Sym == nil || !(derivesFrom(part.Sym, nv) || flowsFrom(part.Sym, nv, 0)) {
			continue
		}
		if i > 0 && sym[i-1].Sym == nil && strings.HasSuffix(sym[i-1].Const, ".") {
			return true
		}
		if ph, ok := part.Sym.(*ssa.Phi); ok && depth < 3 {
			for _, e := range ph.Edges {
				if flowsFrom(e, nv, 0) && dottedSym(e, nv, depth+1) {
					return true
				}
			}
		}
	}
	return false
}

// flowsFrom: target is v or an operand of the string expression that computes v.
func flowsFrom(v, target ssa.Value, depth int) bool {
	if v == target {
		return true
	}
	if depth > 6 {
		return false
	}
	switch x := v.(type) {
	case *ssa.Phi:
		for _, e := range x.Edges {
			if flowsFrom(e, target, depth+1) {
				return true
			}
		}
	case *ssa.BinOp:
		return flowsFrom(x.X, target, depth+1) || flowsFrom(x.Y, target, depth+1)
	case *ssa.MakeInterface:
		return flowsFrom(x.X, target, depth+1)
	case *ssa.ChangeType:
		return flowsFrom(x.X, target, depth+1)
	case *ssa.Convert:
		return flowsFrom(x.X, target, depth+1)
	}
	return false
}

// tableExtension: fn looks its ImageFormat parameter up in a package-level map of structs and uses
// a string field of the entry.  Returns the table, the field and the SSA value of the field read.
func tableExtension(p *Program, fn *ssa.Function) (*ssa.Global, *types.Var, ssa.Value) {
	var g *ssa.Global
	var fld *types.Var
	var val ssa.Value
	allInstrs(fn, func(in ssa.Instruction) {
		lk, ok := in.(*ssa.Lookup)
		if !ok || g != nil {
			return
		}
		ld, ok := lk.X.(*ssa.UnOp)
		if !ok {
			return
		}
		gl, ok := ld.X.(*ssa.Global)
		if !ok {
			return
		}
		keyIsFormat := false
		for rt := range rootsOf(lk.Index) {
			if par, ok := rt.(*ssa.Parameter); ok {
				if nt, ok := par.Type().(*types.Named); ok && nt.Obj().Name() == "ImageFormat" {
					keyIsFormat = true
				}
			}
		}
		if !keyIsFormat {
			return
		}
		// string fields read from the entry; prefer the one whose name mentions the extension
		seen := map[ssa.Value]bool{}
		var walk func(v ssa.Value)
		walk = func(v ssa.Value) {
			if v == nil || seen[v] || v.Referrers() == nil {
				return
			}
			seen[v] = true
			for _, u := range *v.Referrers() {
				switch x := u.(type) {
				case *ssa.Extract:
					walk(x)
				case *ssa.Phi:
					walk(x)
				case *ssa.Field:
					if isStringType(x.Type()) {
						fv, _ := fieldOfVal(x)
						if fv != nil && (fld == nil || strings.Contains(strings.ToLower(fv.Name()), "ext")) {
							g, fld, val = gl, fv, x
						}
					} else {
						walk(x)
					}
				case *ssa.Store:
					// spilled into a local struct variable: follow its field reads
					if al, ok := x.Addr.(*ssa.Alloc); ok && x.Val == v && al.Referrers() != nil {
						for _, u2 := range *al.Referrers() {
							if fa, ok := u2.(*ssa.FieldAddr); ok && fa.Referrers() != nil {
								for _, u3 := range *fa.Referrers() {
									if ld2, ok := u3.(*ssa.UnOp); ok && isStringType(ld2.Type()) {
										fv, _ := fieldOfAddr(fa)
										if fv != nil && (fld == nil || strings.Contains(strings.ToLower(fv.Name()), "ext")) {
											g, fld, val = gl, fv, ld2
										}
									}
								}
							}
						}
					}
				}
			}
		}
		walk(lk)
	})
	if g != nil {
		return g, fld, val
	}
	// the table may be read through a small look-up helper (spec, ok := lookupSpec(format)): the
	// helper indexes the package-level table by its format parameter and hands the entry back
	allInstrs(fn, func(in ssa.Instruction) {
		c, ok := in.(*ssa.Call)
		if !ok || g != nil {
			return
		}
		cal := staticCallee(c)
		if cal == nil || cal == fn || !p.inModule(cal) || len(cal.Blocks) == 0 {
			return
		}
		var gl *ssa.Global
		allInstrs(cal, func(in2 ssa.Instruction) {
			lk, ok := in2.(*ssa.Lookup)
			if !ok {
				return
			}
			ld, ok := lk.X.(*ssa.UnOp)
			if !ok {
				return
			}
			g2, ok := ld.X.(*ssa.Global)
			if !ok {
				return
			}
			for rt := range rootsOf(lk.Index) {
				if par, ok := rt.(*ssa.Parameter); ok {
					if nt, ok := par.Type().(*types.Named); ok && nt.Obj().Name() == "ImageFormat" {
						// the entry must be what the helper returns
						for _, ret := range returnsOf(cal) {
							for i := range ret.Results {
								if flowsFromLookup(retResult(ret, i), lk, 0) {
									gl = g2
								}
							}
						}
					}
				}
			}
		})
		if gl == nil {
			return
		}
		keyIsFormat := false
		for _, a := range c.Call.Args {
			for rt := range rootsOf(a) {
				if par, ok := rt.(*ssa.Parameter); ok {
					if nt, ok := par.Type().(*types.Named); ok && nt.Obj().Name() == "ImageFormat" {
						keyIsFormat = true
					}
				}
			}
		}
		if !keyIsFormat {
			return
		}
		seen := map[ssa.Value]bool{}
		var walk func(v ssa.Value)
		walk = func(v ssa.Value) {
			if v == nil || seen[v] || v.Referrers() == nil {
				return
			}
			seen[v] = true
			for _, u := range *v.Referrers() {
				switch x := u.(type) {
				case *ssa.Extract:
					walk(x)
				case *ssa.Phi:
					walk(x)
				case *ssa.Field:
					if isStringType(x.Type()) {
						fv, _ := fieldOfVal(x)
						if fv != nil && (fld == nil || strings.Contains(strings.ToLower(fv.Name()), "ext")) {
							g, fld, val = gl, fv, x
						}
					} else {
						walk(x)
					}
				case *ssa.Store:
					if al, ok := x.Addr.(*ssa.Alloc); ok && x.Val == v && al.Referrers() != nil {
						for _, u2 := range *al.Referrers() {
							if fa, ok := u2.(*ssa.FieldAddr); ok && fa.Referrers() != nil {
								for _, u3 := range *fa.Referrers() {
									if ld2, ok := u3.(*ssa.UnOp); ok && isStringType(ld2.Type()) {
										fv, _ := fieldOfAddr(fa)
										if fv != nil && (fld == nil || strings.Contains(strings.ToLower(fv.Name()), "ext")) {
											g, fld, val = gl, fv, ld2
										}
									}
								}
							}
						}
					}
				}
			}
		}
		walk(c)
	})
	return g, fld, val
}

// flowsFromLookup: v is the lookup, one of its extracted members, or a phi/local holding them.
func flowsFromLookup(v ssa.Value, lk *ssa.Lookup, depth int) bool {
	if v == ssa.Value(lk) {
		return true
	}
	if depth > 6 || v == nil {
		return false
	}
	switch x := v.(type) {
	case *ssa.Extract:
		return flowsFromLookup(x.Tuple, lk, depth+1)
	case *ssa.Phi:
		for _, e := range x.Edges {
			if flowsFromLookup(e, lk, depth+1) {
				return true
			}
		}
	case *ssa.UnOp:
		if al, ok := x.X.(*ssa.Alloc); ok && al.Referrers() != nil {
			for _, u := range *al.Referrers() {
				if st, ok := u.(*ssa.Store); ok && st.Addr == al && flowsFromLookup(st.Val, lk, depth+1) {
					return true
				}
			}
		}
	}
	return false
}

// readLoopHelper: the []byte value v returned by fn is a buffer that (1) starts as make([]byte, …),
// (2) is only ever re-sliced, grown by append(buf, <constant>) and handed to the Read method of ONE
// io.Reader parameter, and (3) is returned only on a path where that Read's error is non-nil — the
// loop of io.ReadAll.  Returns the index of the reader parameter.
func readLoopHelper(fn *ssa.Function, v ssa.Value) (int, bool) {
	seen := map[ssa.Value]bool{}
	var reads []*ssa.Call
	okShape := true
	madeSlice := false
	var walk func(x ssa.Value, depth int)
	walk = func(x ssa.Value, depth int) {
		if x == nil || seen[x] || !okShape {
			return
		}
		seen[x] = true
		if depth > 40 {
			okShape = false
			return
		}
		switch y := x.(type) {
		case *ssa.Phi:
			for _, e := range y.Edges {
				walk(e, depth+1)
			}
		case *ssa.Slice:
			walk(y.X, depth+1)
		case *ssa.MakeSlice:
			madeSlice = true
		case *ssa.Call:
			b, isB := y.Call.Value.(*ssa.Builtin)
			if !isB || b.Name() != "append" || len(y.Call.Args) != 2 {
				okShape = false
				return
			}
			// appended elements must be constants (growth only; cut back by the re-slice that follows)
			for _, e := range varargElems(y.Call.Args[1]) {
				if _, isC := e.(*ssa.Const); !isC {
					okShape = false
				}
			}
			walk(y.Call.Args[0], depth+1)
		default:
			okShape = false
		}
	}
	walk(v, 0)
	if !okShape || !madeSlice {
		return 0, false
	}
	// every use of a buffer value is one of: slice, len/cap, phi, append (first arg), return, Read
	pi := -1
	var work []ssa.Value
	for x := range seen {
		work = append(work, x)
	}
	inWork := map[ssa.Value]bool{}
	for len(work) > 0 {
		x := work[len(work)-1]
		work = work[:len(work)-1]
		refs := x.Referrers()
		if refs == nil {
			continue
		}
		for _, u := range *refs {
			switch z := u.(type) {
			case *ssa.Slice:
				// a window of the buffer (buf[len(buf):cap(buf)]) handed on: same rules
				if !seen[z] && !inWork[z] {
					inWork[z] = true
					work = append(work, z)
				}
			case *ssa.Phi, *ssa.Return, *ssa.DebugRef:
			case *ssa.Call:
				if b, isB := z.Call.Value.(*ssa.Builtin); isB {
					switch b.Name() {
					case "len", "cap", "append":
						continue
					}
					return 0, false
				}
				if z.Call.IsInvoke() && z.Call.Method.Name() == "Read" && len(z.Call.Args) == 1 {
					par, isPar := z.Call.Value.(*ssa.Parameter)
					if !isPar {
						return 0, false
					}
					k := paramIndex(fn, par)
					if pi >= 0 && pi != k {
						return 0, false
					}
					pi = k
					reads = append(reads, z)
					continue
				}
				return 0, false
			default:
				return 0, false
			}
		}
	}
	if pi < 0 || len(reads) == 0 {
		return 0, false
	}
	// returns of the buffer are guarded by the Read error being non-nil
	for _, ret := range returnsOf(fn) {
		if !seen[retResult(ret, 0)] {
			continue
		}
		guarded := false
		for _, rd := range reads {
			ev := errValueOf(rd)
			if ev == nil || ev.Referrers() == nil {
				continue
			}
			for _, u := range *ev.Referrers() {
				bo, ok := u.(*ssa.BinOp)
				if !ok || bo.Op != token.NEQ || (!isNilConst(bo.X) && !isNilConst(bo.Y)) || bo.Referrers() == nil {
					continue
				}
				for _, u2 := range *bo.Referrers() {
					if iff, ok := u2.(*ssa.If); ok && iff.Block().Succs[0].Dominates(ret.Block()) {
						guarded = true
					}
				}
			}
		}
		if !guarded {
			return 0, false
		}
	}
	return pi, true
}
