package main

import (
	"fmt"
	"go/token"
	"go/types"
	"os"
	"sort"
	"strings"

	"golang.org/x/tools/go/ssa"
)

// fieldIs: fv is field `name` of struct `owner` in package pkg.
func fieldIs(p *Program, fv *types.Var, pkg, owner, name string) bool {
	if fv == nil || fv.Name() != name {
		return false
	}
	o := fieldOwner(p, fv)
	return o != nil && o.Obj().Name() == owner && o.Obj().Pkg().Path() == pkg
}

// relLiteral is one Relationship value built by the library.
type relLiteral struct {
	Fn            *ssa.Function
	Base          ssa.Value // the object (alloc or in-place address) the fields are stored to
	ID            *ssa.Store
	Type          string // constant type, "" if not constant
	Target        ssa.Value
	TargetSym     symString // specialised copy: the target read from a field of a package-level descriptor, as a constant
	TargetSt      *ssa.Store
	TypeVal       ssa.Value           // the value stored as the type (constant or not)
	Home          *ssa.Function       // the function that contains the stores (== Fn unless specialised)
	Via           ssa.CallInstruction // specialised copy: the call in Fn to Home for which Type was resolved
	IDInFn        ssa.Value           // specialised copy: the value in Fn that equals the id (Home's result or the argument handed in)
	IDArg         ssa.Value           // specialised copy: the id is computed by the caller and handed to Home
	Specialised   bool                // generic literal whose id comes in as a parameter: its per-call-site copies are checked instead
	TargetCarried bool                // generic literal whose target is built from fields of a struct parameter: the copies carry the resolved target
	List          string              // field of Document the relationship is appended to ("" = fresh literal list)
	Appended      bool                // appended to an existing list (vs. element of a fresh slice literal)
	Pos           token.Pos
}

func collectRelLiterals(p *Program) []*relLiteral {
	reader := buildReaderModel(p)
	var out []*relLiteral
	for _, fn := range p.ModFuncs() {
		if reader.IsReader[fn] {
			continue
		}
		byBase := map[ssa.Value]*relLiteral{}
		var order []ssa.Value
		allInstrs(fn, func(in ssa.Instruction) {
			st, ok := in.(*ssa.Store)
			if !ok {
				return
			}
			fa, ok := st.Addr.(*ssa.FieldAddr)
			if !ok {
				return
			}
			fv, base := fieldOfAddr(fa)
			if fv == nil || !fieldIs(p, fv, pkgDoc, "Relationship", fv.Name()) {
				return
			}
			rl := byBase[base]
			if rl == nil {
				rl = &relLiteral{Fn: fn, Home: fn, Base: base, Pos: st.Pos()}
				byBase[base] = rl
				order = append(order, base)
			}
			switch fv.Name() {
			case "ID":
				rl.ID = st
			case "Type":
				rl.TypeVal = st.Val
				if s, ok := constString(st.Val); ok {
					rl.Type = s
				}
			case "Target":
				rl.Target = st.Val
				rl.TargetSt = st
			}
		})
		for _, b := range order {
			rl := byBase[b]
			if rl.ID == nil {
				continue
			}
			// where does the object go?
			switch x := b.(type) {
			case *ssa.IndexAddr:
				// element of a slice literal / make'd slice: fresh list unless the slice is a field load
				if _, isAlloc := x.X.(*ssa.Alloc); !isAlloc {
					if chain, _ := addrChain(x.X); len(chain) > 0 {
						rl.Appended = true
						rl.List = listName(chain)
					}
				}
			case *ssa.Alloc:
				// loaded and passed to append, whose result is stored into a field
				for use := range forwardFlow(x, nil) {
					c, ok := use.(*ssa.Call)
					if !ok {
						continue
					}
					if bi, ok := c.Call.Value.(*ssa.Builtin); !ok || bi.Name() != "append" {
						continue
					}
					// first argument: existing list?
					if chain, _ := addrChain(c.Call.Args[0]); len(chain) > 0 {
						rl.Appended = true
						rl.List = listName(chain)
					} else if refs := c.Referrers(); refs != nil {
						for _, in2 := range *refs {
							if st2, ok := in2.(*ssa.Store); ok {
								if chain, _ := addrChain(st2.Addr); len(chain) > 0 {
									rl.List = listName(chain)
								}
							}
						}
					}
				}
			}
			out = append(out, rl)
		}
	}
	out = append(out, specialiseRelLiterals(p, out)...)
	sort.SliceStable(out, func(i, j int) bool { return out[i].Pos < out[j].Pos })
	return out
}

// specialiseRelLiterals: a relationship built by a shared helper whose type is not a constant there
// — registerPart(kind partKind, …) storing kind.relType, or a plain string parameter — stands for one
// relationship per call site, typed by what that call passes (a constant, or a field of an
// immutable package-level descriptor).  The copy lives in the caller (Fn), keeps Home = the helper,
// and knows which value of the caller carries the new id when the helper returns it.
func specialiseRelLiterals(p *Program, lits []*relLiteral) []*relLiteral {
	var out []*relLiteral
	callers := p.callersIndex()
	for _, rl := range lits {
		if rl.ID == nil {
			continue
		}
		h := rl.Home
		// which of type / id / target come in through parameters of the helper?
		var typePar *ssa.Parameter
		typeField := -1
		if rl.Type == "" && rl.TypeVal != nil {
			if par, fi := paramFieldOf(rl.TypeVal); par != nil && par.Parent() == h {
				typePar, typeField = par, fi
			}
		}
		idPar, _ := rl.ID.Val.(*ssa.Parameter)
		tgtPar, _ := rl.Target.(*ssa.Parameter)
		var tgtDescPar *ssa.Parameter
		tgtField := -1
		if tgtPar == nil && rl.Target != nil {
			if par, fi := paramFieldOf(rl.Target); par != nil && fi >= 0 && par.Parent() == h {
				tgtDescPar, tgtField = par, fi
			}
		}
		// id and target read from fields of a struct-valued parameter (a value receiver that carries
		// what an allocation step returned: func (s imageSlot) relationship() Relationship)
		var idFldPar *ssa.Parameter
		idFld := -1
		if idPar == nil {
			if par, fi := paramFieldOf(rl.ID.Val); par != nil && fi >= 0 && par.Parent() == h {
				if _, isStruct := derefType(par.Type()).Underlying().(*types.Struct); isStruct {
					idFldPar, idFld = par, fi
				}
			}
		}
		var tgtInner symString
		tgtCarried := false
		if tgtPar == nil && tgtDescPar == nil && rl.Target != nil {
			tgtInner = symOf(rl.Target)
			for _, part := range tgtInner {
				if part.Sym != nil {
					if prm, fi := paramFieldRead(part.Sym); prm != nil && fi >= 0 && prm.Parent() == h {
						tgtCarried = true
					}
				}
			}
		}
		if typePar == nil && idPar == nil && tgtPar == nil && tgtDescPar == nil && idFldPar == nil && !tgtCarried {
			continue
		}
		if rl.Type == "" && typePar == nil {
			continue
		}
		// which result of the helper is the id?
		idRes := -1
		for _, ret := range returnsOf(h) {
			for i := range ret.Results {
				if retResult(ret, i) == rl.ID.Val {
					idRes = i
				}
			}
		}
		for _, caller := range sortedFuncs(callers[h]) {
			allInstrs(caller, func(in ssa.Instruction) {
				c, ok := in.(ssa.CallInstruction)
				if !ok || staticCallee(c) != h {
					return
				}
				args := c.Common().Args
				cp := *rl
				cp.Fn, cp.Via = caller, c
				if typePar != nil {
					pi := paramIndex(h, typePar)
					if pi >= len(args) {
						return
					}
					typ, ok := constOrGlobalField(p, args[pi], typeField)
					if !ok {
						return
					}
					cp.Type = typ
				}
				if idPar != nil {
					if pi := paramIndex(h, idPar); pi < len(args) {
						cp.IDInFn, cp.IDArg = args[pi], args[pi]
					}
				} else if cv, ok := c.(*ssa.Call); ok && idRes >= 0 {
					if h.Signature.Results().Len() == 1 {
						cp.IDInFn = cv
					} else if cv.Referrers() != nil {
						for _, u := range *cv.Referrers() {
							if ex, ok := u.(*ssa.Extract); ok && ex.Index == idRes {
								cp.IDInFn = ex
							}
						}
					}
				}
				if tgtPar != nil {
					if pi := paramIndex(h, tgtPar); pi < len(args) {
						cp.Target = args[pi]
					}
				}
				if tgtDescPar != nil {
					if pi := paramIndex(h, tgtDescPar); pi < len(args) {
						if t, ok := constOrGlobalField(p, args[pi], tgtField); ok {
							cp.TargetSym = symString{{Const: t}}
						}
					}
				}
				// the helper RETURNS the relationship: where the caller appends it is where it goes
				if cv, ok := c.(*ssa.Call); ok && !cp.Appended && typeIs(cv.Type(), pkgDoc, "Relationship") {
					for use := range forwardFlow(cv, nil) {
						ac, ok := use.(*ssa.Call)
						if !ok {
							continue
						}
						if bi, ok := ac.Call.Value.(*ssa.Builtin); !ok || bi.Name() != "append" {
							continue
						}
						if chain, _ := addrChain(ac.Call.Args[0]); len(chain) > 0 {
							cp.Appended = true
							cp.List = listName(chain)
						} else if gc, ok := ac.Call.Args[0].(*ssa.UnOp); ok {
							// rels := d.ensureDocumentRelationships(); rels.Relationships = append(rels.Relationships, …)
							if chain, _, ok := getterChainOfLoad(gc); ok && len(chain) > 0 {
								cp.Appended = true
								cp.List = listName(chain)
							}
						}
					}
				}
				if idFldPar != nil {
					if pi := paramIndex(h, idFldPar); pi < len(args) {
						if rep, _ := structFieldOf(args[pi], idFld, 0); rep != nil {
							// the value the allocation step put into that field
							cp.IDInFn, cp.IDArg = rep, rep
						} else {
							return
						}
					}
				}
				if tgtCarried {
					var ts symString
					okT := true
					for _, part := range tgtInner {
						if part.Sym == nil {
							ts = append(ts, part)
							continue
						}
						prm, fi := paramFieldRead(part.Sym)
						if prm == nil || prm.Parent() != h {
							ts = append(ts, part)
							continue
						}
						pi := paramIndex(h, prm)
						if pi < 0 || pi >= len(args) {
							okT = false
							break
						}
						rep, call2 := structFieldOf(args[pi], fi, 0)
						if rep == nil {
							okT = false
							break
						}
						ts = append(ts, substParams(symOfD(rep, 1), call2, 1)...)
					}
					if okT {
						cp.TargetSym = ts.norm()
					}
				}
				out = append(out, &cp)
			})
		}
		if len(out) > 0 && (idPar != nil || idFldPar != nil) {
			rl.Specialised = true
		}
		if len(out) > 0 && tgtCarried {
			rl.TargetCarried = true
		}
	}
	return out
}

// paramFieldOf: v is a parameter (fieldIdx -1) or field fieldIdx read from a struct-typed /
// pointer-to-struct parameter.
func paramFieldOf(v ssa.Value) (*ssa.Parameter, int) {
	switch x := v.(type) {
	case *ssa.Parameter:
		return x, -1
	case *ssa.Field:
		if par, ok := x.X.(*ssa.Parameter); ok {
			return par, x.Field
		}
	case *ssa.UnOp:
		if x.Op == token.MUL {
			if fa, ok := x.X.(*ssa.FieldAddr); ok {
				if par, ok := fa.X.(*ssa.Parameter); ok {
					return par, fa.Field
				}
				// a by-value struct parameter spilled to a local: `*t0 = kind; &t0.relType`
				if al, ok := fa.X.(*ssa.Alloc); ok && al.Referrers() != nil {
					var par *ssa.Parameter
					n := 0
					for _, u := range *al.Referrers() {
						if st, ok := u.(*ssa.Store); ok && st.Addr == ssa.Value(al) {
							n++
							par, _ = st.Val.(*ssa.Parameter)
						}
					}
					if n == 1 && par != nil {
						return par, fa.Field
					}
				}
			}
		}
	}
	return nil, 0
}

// constOrGlobalField: the string constant that arg (fieldIdx < 0) or field fieldIdx of arg denotes,
// when arg is a constant or (a load / the address of) a package-level struct variable that is only
// written by its initialiser.
func constOrGlobalField(p *Program, arg ssa.Value, fieldIdx int) (string, bool) {
	if fieldIdx < 0 {
		return constString(arg)
	}
	var g *ssa.Global
	switch x := arg.(type) {
	case *ssa.Global:
		g = x
	case *ssa.UnOp:
		if x.Op == token.MUL {
			g, _ = x.X.(*ssa.Global)
		}
	}
	if g == nil {
		return "", false
	}
	var val string
	found, dirty := false, false
	for fn := range p.Funcs {
		isInit := fn.Name() == "init" && fn.Parent() == nil
		allInstrs(fn, func(in ssa.Instruction) {
			st, ok := in.(*ssa.Store)
			if !ok {
				return
			}
			if st.Addr == ssa.Value(g) {
				dirty = true // whole-variable store: not handled
				return
			}
			fa, ok := st.Addr.(*ssa.FieldAddr)
			if !ok || fa.X != ssa.Value(g) {
				return
			}
			if !isInit {
				dirty = true
				return
			}
			if fa.Field == fieldIdx {
				if s, ok := constString(st.Val); ok && !found {
					val, found = s, true
				} else {
					dirty = true
				}
			}
		})
	}
	if dirty || !found {
		return "", false
	}
	return val, true
}

func listName(chain []*types.Var) string {
	var names []string
	for _, f := range chain {
		if f != nil {
			names = append(names, f.Name())
		}
	}
	return strings.Join(names, ".")
}

func relKind(typ string) string {
	if i := strings.LastIndex(typ, "/"); i >= 0 {
		return typ[i+1:]
	}
	return typ
}

// ---------------------------------------------------------------------------
// R-FRESH-DEP/relid
// ---------------------------------------------------------------------------

func ruleFreshRelID(r *Run) { freshRelID(r, "", 4) }

func ruleFreshRelIDImage(r *Run) { freshRelID(r, "image", 1) }

func freshRelID(r *Run, onlyKind string, min int) {
	p := r.P
	lits := collectRelLiterals(p)
	sl := newSlicer(p)
	n := 0
	existingLits := map[*relLiteral]bool{}
	for _, rl := range lits {
		if rl.Via != nil && rl.IDArg == nil {
			continue // per-call-site copy of a helper's literal: the helper's own literal is checked
		}
		if rl.Via == nil && rl.Specialised {
			continue // the id is computed by each caller: the per-call-site copies are checked
		}
		kind := relKind(rl.Type)
		if kind == "" {
			kind = "?"
		}
		// a relationship placed into a list that can already hold arbitrary ids
		intoExisting := rl.Appended
		// the styles relationship re-inserted in front of the existing ones
		if !intoExisting {
			// element of a fresh literal that is then extended with existing relationships
			if ia, ok := rl.Base.(*ssa.IndexAddr); ok {
				if al, ok := ia.X.(*ssa.Alloc); ok {
					for use := range forwardFlow(al, nil) {
						if c, ok := use.(*ssa.Call); ok {
							if bi, ok := c.Call.Value.(*ssa.Builtin); ok && bi.Name() == "append" && len(c.Call.Args) == 2 {
								if chain, _ := addrChain(c.Call.Args[1]); len(chain) > 0 {
									intoExisting = true
									rl.List = listName(chain) + "(prepended)"
								}
							}
						}
					}
				}
			}
		}
		if !intoExisting {
			// the literal is first appended to a fresh slice which is then extended with an existing
			// list (relationships = append(relationships, Relationship{…}); … append(relationships, existing...))
			var al *ssa.Alloc
			switch b := rl.Base.(type) {
			case *ssa.Alloc:
				al = b
			case *ssa.IndexAddr:
				al, _ = b.X.(*ssa.Alloc)
			}
			if al != nil {
				flow := forwardFlow(al, nil)
				for use := range flow {
					c, ok := use.(*ssa.Call)
					if !ok {
						continue
					}
					if bi, ok := c.Call.Value.(*ssa.Builtin); !ok || bi.Name() != "append" || len(c.Call.Args) != 2 {
						continue
					}
					for _, a := range c.Call.Args {
						if ai, isInstr := a.(ssa.Instruction); isInstr && flow[ai] {
							continue // the literal's own flow
						}
						if chain, _ := addrChain(a); len(chain) > 0 {
							intoExisting = true
							rl.List = listName(chain) + "(merged)"
						}
					}
				}
			}
		}
		if !intoExisting {
			continue // a fresh list with only library-chosen ids
		}
		if onlyKind != "" && kind != onlyKind {
			continue
		}
		n++
		idVal := rl.ID.Val
		if rl.IDArg != nil {
			idVal = rl.IDArg
		}
		existingLits[rl] = true
		res := sl.Slice(idVal)
		dep := res.readsField(p, pkgDoc, "Relationship", "ID")
		fp := res.fingerprint(p)
		key := fmt.Sprintf("relid:%s:%s#%s", shortName(rl.Fn), kind, fp)
		r.Check("fresh-dep", key, rl.ID.Pos(), dep,
			fmt.Sprintf("%s gives the new %s relationship (list %s) an id computed from {%s}; a fresh id for a list with arbitrary existing ids must be computed from those ids: reads existing Relationship.ID = %v",
				shortName(rl.Fn), kind, rl.List, fp, dep))
	}
	r.Min("relationship_id_allocations", n, min)
	// one allocation scheme per list: an id taken from a stored counter is only fresh if EVERY
	// relationship added to that list advances the same counter; mixed with allocations that scan
	// the list (and do not touch the counter) the counter falls behind and hands out a taken id
	type alloc struct {
		rl     *relLiteral
		fields map[*types.Var]bool
	}
	byList := map[string][]alloc{}
	dsl := newSlicer(p)
	dsl.dataOnly = true
	dsl.stop = func(v ssa.Value) bool {
		// the list itself is a leaf (what is appended to it later is not an input of the id)
		if u, ok := v.(*ssa.UnOp); ok && u.Op == token.MUL {
			if fv, _ := fieldOfAddr(u.X); fv != nil && fieldIs(p, fv, pkgDoc, "Relationships", "Relationships") {
				return true
			}
		}
		return false
	}
	for _, rl := range lits {
		if !(rl.Appended || existingLits[rl]) || (rl.Via != nil && rl.IDArg == nil) || (rl.Via == nil && rl.Specialised) {
			continue
		}
		idVal := rl.ID.Val
		if rl.IDArg != nil {
			idVal = rl.IDArg
		}
		res := dsl.Slice(idVal)
		a := alloc{rl, map[*types.Var]bool{}}
		for v := range res.Vals {
			fa, ok := v.(*ssa.FieldAddr)
			if !ok {
				continue
			}
			fv, _ := fieldOfAddr(fa)
			if fv == nil {
				continue
			}
			if b, ok := fv.Type().Underlying().(*types.Basic); !ok || b.Info()&(types.IsInteger|types.IsString) == 0 {
				continue
			}
			o := fieldOwner(p, fv)
			if o == nil || o.Obj().Pkg() == nil || !strings.HasPrefix(o.Obj().Pkg().Path(), modPath) || o.Obj().Name() == "Relationship" {
				continue
			}
			loaded := false
			if refs := fa.Referrers(); refs != nil {
				for _, in := range *refs {
					if u, ok := in.(*ssa.UnOp); ok && u.Op == token.MUL && res.Vals[u] {
						loaded = true
					}
				}
			}
			if loaded && fieldStoredSomewhere(p, fv) {
				a.fields[fv] = true
			}
		}
		list := strings.TrimSuffix(strings.TrimSuffix(rl.List, "(merged)"), "(prepended)")
		byList[list] = append(byList[list], a)
	}
	for list, as := range byList {
		for _, a := range as {
			for fv := range a.fields {
				for _, b := range as {
					if !b.fields[fv] {
						r.Check("fresh-dep", fmt.Sprintf("relid-scheme:%s:%s", shortName(a.rl.Fn), fv.Name()), a.rl.ID.Pos(), false,
							fmt.Sprintf("%s takes the id of a new relationship in %s from the stored field %s (state kept between calls), but %s adds relationships to the same list without consulting or advancing it: the stored value falls behind the list and an id is handed out twice",
								shortName(a.rl.Fn), list, fv.Name(), shortName(b.rl.Fn)))
						break
					}
				}
			}
		}
	}
}

// fieldStoredSomewhere: some module function assigns the field (it is state, not a constant of
// construction).
func fieldStoredSomewhere(p *Program, fv *types.Var) bool {
	if p.storedFields == nil {
		p.storedFields = map[*types.Var]bool{}
		for _, fn := range p.ModFuncs() {
			allInstrs(fn, func(in ssa.Instruction) {
				if st, ok := in.(*ssa.Store); ok {
					if f, _ := fieldOfAddr(st.Addr); f != nil {
						p.storedFields[f] = true
					}
				}
			})
		}
	}
	return p.storedFields[fv]
}

// ---------------------------------------------------------------------------
// R-REL-ATTACH: relationship type → owning list and base directory; target ↔ part key.
// ---------------------------------------------------------------------------

// relOwner: frozen from ECMA-376 Part 1 §11.3 / Part 2 §9: which part owns a relationship type.
var relOwner = map[string]struct{ list, base string }{
	"officeDocument":      {"relationships", ""},
	"core-properties":     {"relationships", ""},
	"extended-properties": {"relationships", ""},
	"custom-properties":   {"relationships", ""},
	"styles":              {"documentRelationships", "word/"},
	"header":              {"documentRelationships", "word/"},
	"footer":              {"documentRelationships", "word/"},
	"image":               {"documentRelationships", "word/"},
	"numbering":           {"documentRelationships", "word/"},
	"footnotes":           {"documentRelationships", "word/"},
	"endnotes":            {"documentRelationships", "word/"},
	"settings":            {"documentRelationships", "word/"},
	"fontTable":           {"documentRelationships", "word/"},
	"theme":               {"documentRelationships", "word/"},
	"webSettings":         {"documentRelationships", "word/"},
	"hyperlink":           {"documentRelationships", "word/"},
}

// partKeyStores: all symbolic keys stored into Document.parts, per function.
type partStore struct {
	Fn  *ssa.Function
	Key symString
	MU  *ssa.MapUpdate
}

func collectPartStores(p *Program) []partStore {
	var out []partStore
	for _, fn := range p.ModFuncs() {
		allInstrs(fn, func(in ssa.Instruction) {
			mu, ok := in.(*ssa.MapUpdate)
			if !ok {
				return
			}
			chain, _ := addrChain(mu.Map)
			if len(chain) == 0 || !fieldIs(p, chain[len(chain)-1], pkgDoc, "Document", "parts") {
				return
			}
			out = append(out, partStore{fn, symOf(mu.Key), mu})
		})
	}
	// A store whose key is (built from) a parameter of a private helper — storeXMLPart(name, v) —
	// stands for one store per call site, with the caller's argument as the key.
	callers := p.callersIndex()
	for depth := 0; depth < 3; depth++ {
		var next []partStore
		expanded := false
		for _, ps := range out {
			top := topLevel(ps.Fn)
			var par *ssa.Parameter
			descField := -1
			var descSym ssa.Value
			for _, part := range ps.Key {
				if q, ok := part.Sym.(*ssa.Parameter); ok && q.Parent() == top {
					par = q
				}
			}
			if par == nil {
				// a field of a part descriptor handed in by value or by pointer (info.partName)
				for _, part := range ps.Key {
					if part.Sym == nil {
						continue
					}
					if q, fi := paramFieldOf(part.Sym); q != nil && fi >= 0 && q.Parent() == top {
						par, descField, descSym = q, fi, part.Sym
					}
				}
			}
			if par == nil || len(callers[top]) == 0 {
				next = append(next, ps)
				continue
			}
			pi := paramIndex(top, par)
			did := false
			if descField >= 0 {
				for _, caller := range sortedFuncs(callers[top]) {
					allInstrs(caller, func(in ssa.Instruction) {
						c, ok := in.(ssa.CallInstruction)
						if !ok || staticCallee(c) != top || pi >= len(c.Common().Args) {
							return
						}
						a := c.Common().Args[pi]
						var key symString
						if cs, ok := constOrGlobalField(p, a, descField); ok {
							for _, part := range ps.Key {
								if part.Sym == descSym {
									key = append(key, symPart{Const: cs})
								} else {
									key = append(key, part)
								}
							}
							next = append(next, partStore{caller, key.norm(), ps.MU})
							did = true
							return
						}
					})
				}
				if did {
					expanded = true
				} else {
					next = append(next, ps)
				}
				continue
			}
			for _, caller := range sortedFuncs(callers[top]) {
				allInstrs(caller, func(in ssa.Instruction) {
					c, ok := in.(ssa.CallInstruction)
					if !ok || staticCallee(c) != top || pi >= len(c.Common().Args) {
						return
					}
					arg := symOf(c.Common().Args[pi])
					var key symString
					for _, part := range ps.Key {
						if part.Sym == ssa.Value(par) {
							key = append(key, arg...)
						} else {
							key = append(key, part)
						}
					}
					next = append(next, partStore{caller, key, ps.MU})
					did = true
				})
			}
			if did {
				expanded = true
			} else {
				next = append(next, ps)
			}
		}
		out = next
		if !expanded {
			break
		}
	}
	return out
}

func distinctPartKeys(ps []partStore) int {
	seen := map[string]bool{}
	for _, s := range ps {
		seen[s.Key.Pattern()] = true
	}
	return len(seen)
}

func ruleRelAttach(r *Run) { relAttach(r, nil, 5) }

func ruleRelAttachImage(r *Run) { relAttach(r, map[string]bool{"image": true}, 1) }

func relAttach(r *Run, kinds map[string]bool, min int) {
	p := r.P
	lits := collectRelLiterals(p)
	parts := collectPartStores(p)
	r.Min("part_store_key_patterns", distinctPartKeys(parts), 12) // distinct kinds of part written; robust to merging sibling store sites into one helper
	n := 0
	for _, rl := range lits {
		if rl.Type == "" {
			continue
		}
		kind := relKind(rl.Type)
		if kinds != nil && !kinds[kind] {
			continue
		}
		own, ok := relOwner[kind]
		n++
		key := fmt.Sprintf("%s:%s", shortName(rl.Fn), kind)
		if !ok {
			r.Undecided("rel-attach", key, rl.Pos, "relationship type "+rl.Type+" is not in the checker's ECMA-376 ownership table")
			continue
		}
		// list
		list := rl.List
		if list == "" {
			// fresh literal: find the struct field the literal list is stored to
			list = freshListOwner(p, rl)
		}
		if !strings.HasPrefix(list, "relationships") && !strings.HasPrefix(list, "documentRelationships") {
			// built into a local list that the same function serialises into a relationship part
			for _, ps := range parts {
				if ps.Fn != rl.Home {
					continue
				}
				switch k, _ := ps.Key.isConst(); k {
				case "word/_rels/document.xml.rels":
					list = "documentRelationships(serialised)"
				case "_rels/.rels":
					list = "relationships(serialised)"
				}
			}
		}
		if !strings.HasPrefix(list, "relationships") && !strings.HasPrefix(list, "documentRelationships") {
			// built by a helper that returns it (fallbackPackageRelationships(), missingStylesRelationship()):
			// the owner is whatever the callers do with the result
			if l2 := ownerViaCallers(p, parts, rl.Home, 0); l2 != "" {
				list = l2
			}
		}
		listOK := strings.HasPrefix(list, own.list+".") || list == own.list || strings.HasPrefix(list, own.list+"(")
		r.Check("rel-attach-owner", key, rl.Pos, listOK,
			fmt.Sprintf("a %s relationship belongs to %s (part directory %q) but %s attaches it to %q", kind, own.list, own.base, shortName(rl.Fn), list))
		// target resolves to a stored part
		if rl.Target == nil || (rl.Via == nil && rl.TargetCarried) {
			continue
		}
		tsym := symOf(rl.Target)
		if rl.TargetSym != nil {
			tsym = rl.TargetSym
		}
		want := prefixed(own.base, tsym)
		found := false
		var where string
		for _, ps := range parts {
			if _, isC := want.isConst(); !isC && ps.Fn != rl.Home && ps.Fn != rl.Fn {
				continue // symbolic targets must match a store in the same operation
			}
			if ps.Key.equal(want) {
				found = true
				where = p.pos(ps.MU.Pos())
				break
			}
		}
		r.Check("rel-attach-target", key, rl.TargetSt.Pos(), found,
			fmt.Sprintf("relationship target %q resolved against %q must name a part the library stores: want part key %q; found=%v %s", tsym.String(), own.base, want.String(), found, where))
	}
	r.Min("typed_relationship_literals", n, min)
}

// freshListOwner: for a relationship that is an element of a fresh slice literal, the
// Document field the enclosing Relationships object ends up in.
func freshListOwner(p *Program, rl *relLiteral) string {
	ia, ok := rl.Base.(*ssa.IndexAddr)
	if !ok {
		return ""
	}
	find := func(v ssa.Value) (string, []ssa.Value) {
		var next []ssa.Value
		for use := range forwardFlow(v, nil) {
			if st, ok := use.(*ssa.Store); ok {
				chain, root := addrChain(st.Addr)
				for _, f := range chain {
					if f != nil && (f.Name() == "relationships" || f.Name() == "documentRelationships") && fieldIs(p, f, pkgDoc, "Document", f.Name()) {
						return f.Name(), nil
					}
				}
				// stored into a field of a local Relationships object: continue from that object
				if al, ok := root.(*ssa.Alloc); ok && typeIs(al.Type(), pkgDoc, "Relationships") {
					next = append(next, al)
				}
			}
		}
		return "", next
	}
	name, next := find(ia.X)
	for depth := 0; name == "" && len(next) > 0 && depth < 3; depth++ {
		var nn []ssa.Value
		for _, v := range next {
			n2, more := find(v)
			if n2 != "" {
				return n2
			}
			nn = append(nn, more...)
		}
		next = nn
	}
	return name
}

// ---------------------------------------------------------------------------
// R-REF-FLOW: ids placed in the body are the ids of the relationship just created.
// ---------------------------------------------------------------------------

func ruleRefFlow(r *Run) { refFlow(r, true, true) }

func ruleRefFlowImage(r *Run) { refFlow(r, false, true) }

func ruleRefFlowHF(r *Run) { refFlow(r, true, false) }

func refFlow(r *Run, wantHF, wantImg bool) {
	p := r.P
	lits := collectRelLiterals(p)
	byFn := map[*ssa.Function][]*relLiteral{}
	for _, rl := range lits {
		byFn[rl.Fn] = append(byFn[rl.Fn], rl)
	}
	// (a) reference helpers: functions storing a parameter into HeaderFooterReference.ID / FooterReference.ID
	type helper struct {
		fn   *ssa.Function
		pi   int
		kind string
	}
	var helpers []helper
	for _, fn := range p.ModFuncs() {
		allInstrs(fn, func(in ssa.Instruction) {
			st, ok := in.(*ssa.Store)
			if !ok {
				return
			}
			fv, _ := fieldOfAddr(st.Addr)
			kind := ""
			if fieldIs(p, fv, pkgDoc, "HeaderFooterReference", "ID") {
				kind = "header"
			} else if fieldIs(p, fv, pkgDoc, "FooterReference", "ID") {
				kind = "footer"
			}
			if kind == "" {
				return
			}
			if pi := paramIndex(fn, st.Val); pi >= 0 {
				helpers = append(helpers, helper{fn, pi, kind})
			}
		})
	}
	// a function that merely forwards one of its own parameters to a reference helper is a
	// reference helper itself (addHeaderReference(kind, id) → sectPr.setHeaderReference(kind, id))
	forwarding := map[ssa.Instruction]bool{}
	for changed := true; changed; {
		changed = false
		for _, fn := range p.ModFuncs() {
			allInstrs(fn, func(in ssa.Instruction) {
				c, ok := in.(ssa.CallInstruction)
				if !ok {
					return
				}
				cal := staticCallee(c)
				for _, h := range helpers {
					if h.fn != cal || h.pi >= len(c.Common().Args) {
						continue
					}
					pi := paramIndex(fn, c.Common().Args[h.pi])
					if pi < 0 {
						continue
					}
					forwarding[in] = true
					known := false
					for _, h2 := range helpers {
						if h2.fn == fn && h2.pi == pi {
							known = true
						}
					}
					if !known {
						helpers = append(helpers, helper{fn, pi, h.kind})
						changed = true
					}
				}
			})
		}
	}
	if !wantHF {
		helpers = nil
	} else {
		r.Min("reference_helpers", len(helpers), 2)
	}
	nSites := 0
	for _, fn := range p.ModFuncs() {
		allInstrs(fn, func(in ssa.Instruction) {
			c, ok := in.(ssa.CallInstruction)
			if !ok {
				return
			}
			cal := staticCallee(c)
			var dyn map[*ssa.Function]bool
			if cal == nil && len(helpers) > 0 {
				// a call through a function value (a field of a part-kind descriptor holding the reference
				// helper as a method expression): resolved by the VTA call graph
				if _, isB := c.Common().Value.(*ssa.Builtin); !isB && !c.Common().IsInvoke() {
					dyn = p.dynamicCallees(fn, c)
				}
			}
			for _, h := range helpers {
				if h.fn != cal && !dyn[h.fn] {
					continue
				}
				if dyn[h.fn] && h.pi >= len(c.Common().Args) {
					continue
				}
				if forwarding[in] {
					continue // the obligation lies with the callers of the forwarding function
				}
				nSites++
				arg := c.Common().Args[h.pi]
				okFlow := false
				skipped := false
				if dyn[h.fn] {
					// The helper is chosen by a part-kind descriptor (kind.addReference), and so is the
					// relationship type (kind.relType).  The reference gets the right kind of id iff (1) every
					// descriptor pairs a relationship type with the reference helper of the same kind and
					// (2) the id handed over is the id of the relationship this function creates.
					consistent, whyD := descriptorKindsAgree(p, fn, c, func() map[*ssa.Function]string {
						m := map[*ssa.Function]string{}
						for _, h2 := range helpers {
							m[h2.fn] = h2.kind
						}
						return m
					}())
					for _, rl := range byFn[fn] {
						if rl.Via == nil && rl.ID.Val == arg && mustPassThrough(fn, c, []ssa.Instruction{rl.ID}) {
							okFlow = true
						}
					}
					why := fmt.Sprintf("%s passes an id to the reference helper selected by its part-kind descriptor; it must be the id stored in the relationship created by the same call, and each descriptor must pair the %s relationship type with the %s reference helper (%s)", shortName(fn), h.kind, h.kind, whyD)
					r.Check("ref-flow", fmt.Sprintf("%s:%s-reference", shortName(fn), h.kind), c.Pos(), okFlow && consistent, why)
					continue
				}
				for _, rl := range byFn[fn] {
					if relKind(rl.Type) != h.kind {
						continue
					}
					if rl.Via == nil && sameCarried(rl.ID.Val, arg) {
						okFlow = true
						// …and that relationship is created on EVERY path that reaches the reference
						// (a path that re-uses an existing id skips the creation: the id then belongs to a
						// relationship whose target nobody checked)
						if !mustPassThrough(fn, c, []ssa.Instruction{rl.ID}) {
							skipped = true
						}
					}
					// created by a shared helper that returns the new id: the argument is that result,
					// and the helper creates the relationship on every path on which it succeeds
					if rl.Via != nil && rl.IDInFn != nil && rl.IDInFn == arg {
						okFlow = true
						if !mustPassThrough(fn, c, []ssa.Instruction{rl.Via}) || !createsOnSuccess(p, rl.Home, rl.ID) {
							skipped = true
						}
					}
				}
				why := fmt.Sprintf("%s passes an id to %s; it must be the very id stored in the %s relationship created by the same call", shortName(fn), shortName(h.fn), h.kind)
				if okFlow && skipped {
					okFlow = false
					why += " — on some path the reference is set without that relationship being created (an existing id is re-used: it may point at a differently named part of an opened package)"
				}
				r.Check("ref-flow", fmt.Sprintf("%s:%s-reference", shortName(fn), h.kind), c.Pos(), okFlow, why)
			}
		})
	}
	if wantHF {
		r.Min("reference_call_sites", nSites, 2)
	}
	if !wantImg {
		return
	}
	// (b) ImageInfo.RelationID ← id of the image relationship created in the same function
	nImg := 0
	for _, fn := range p.ModFuncs() {
		allInstrs(fn, func(in ssa.Instruction) {
			st, ok := in.(*ssa.Store)
			if !ok {
				return
			}
			fv, _ := fieldOfAddr(st.Addr)
			if !fieldIs(p, fv, pkgDoc, "ImageInfo", "RelationID") {
				return
			}
			nImg++
			okFlow := false
			for _, rl := range byFn[fn] {
				if relKind(rl.Type) == "image" && sameCarried(rl.ID.Val, st.Val) {
					okFlow = true
				}
				// the relationship is built by a method of the value that carries the id: both read the
				// same field of the same allocation result
				if relKind(rl.Type) == "image" && rl.Via != nil && rl.IDArg != nil {
					if rb, _ := structFieldRep(st.Val); rb != nil && rb == rl.IDArg {
						okFlow = true
					}
				}
			}
			r.Check("ref-flow", shortName(fn)+":ImageInfo.RelationID", st.Pos(), okFlow,
				"ImageInfo.RelationID must be the id stored in the image relationship created by the same call")
		})
	}
	r.Min("image_info_relation_sites", nImg, 1)
	// (c) Blip.Embed ← ImageInfo.RelationID (outside the reader)
	reader := buildReaderModel(p)
	nEmb := 0
	for _, fn := range p.ModFuncs() {
		if reader.IsReader[fn] {
			continue
		}
		allInstrs(fn, func(in ssa.Instruction) {
			st, ok := in.(*ssa.Store)
			if !ok {
				return
			}
			fv, _ := fieldOfAddr(st.Addr)
			if !fieldIs(p, fv, pkgDoc, "Blip", "Embed") {
				return
			}
			nEmb++
			chain, _ := valueChain(st.Val)
			okFlow := len(chain) > 0 && fieldIs(p, chain[len(chain)-1], pkgDoc, "ImageInfo", "RelationID")
			r.Check("ref-flow", shortName(fn)+":Blip.Embed", st.Pos(), okFlow, "a:blip r:embed must be loaded from ImageInfo.RelationID")
		})
	}
	r.Min("blip_embed_sites", nEmb, 1)
	// (d) the ImageInfo a picture is built from was produced for THIS document by the same call:
	// it is the result of a registering call (or a parameter handed down from one), never an
	// object kept in storage that outlives the call (caller data, a global, a cache): its
	// relationship id and media name are only meaningful in the document that allocated them
	embedders := map[*ssa.Function]int{}
	for _, fn := range p.ModFuncs() {
		if reader.IsReader[fn] {
			continue
		}
		allInstrs(fn, func(in ssa.Instruction) {
			st, ok := in.(*ssa.Store)
			if !ok {
				return
			}
			fv, _ := fieldOfAddr(st.Addr)
			if !fieldIs(p, fv, pkgDoc, "Blip", "Embed") {
				return
			}
			for root := range rootsOf(st.Val) {
				if pi := paramIndex(fn, root); pi >= 0 && typeIs(root.Type(), pkgDoc, "ImageInfo") {
					embedders[fn] = pi
				}
			}
		})
	}
	nPic := 0
	for changed := true; changed; {
		changed = false
		for _, fn := range p.ModFuncs() {
			allInstrs(fn, func(in ssa.Instruction) {
				c, ok := in.(ssa.CallInstruction)
				if !ok {
					return
				}
				cal := staticCallee(c)
				pi, isEmb := embedders[cal]
				if !isEmb || pi >= len(c.Common().Args) {
					return
				}
				arg := c.Common().Args[pi]
				for root := range rootsOf(arg) {
					if qi := paramIndex(fn, root); qi >= 0 && typeIs(root.Type(), pkgDoc, "ImageInfo") {
						if _, ok := embedders[fn]; !ok {
							embedders[fn] = qi
							changed = true
						}
					}
				}
			})
		}
	}
	for _, fn := range p.ModFuncs() {
		allInstrs(fn, func(in ssa.Instruction) {
			c, ok := in.(ssa.CallInstruction)
			if !ok {
				return
			}
			cal := staticCallee(c)
			pi, isEmb := embedders[cal]
			if !isEmb || pi >= len(c.Common().Args) {
				return
			}
			nPic++
			bad := ""
			for root := range rootsOf(c.Common().Args[pi]) {
				switch x := root.(type) {
				case *ssa.Parameter:
					if !typeIs(x.Type(), pkgDoc, "ImageInfo") {
						bad = fmt.Sprintf("loaded out of parameter %s (%s): storage owned by the caller, which outlives this document", x.Name(), typeName(x.Type()))
					}
				case *ssa.Global:
					bad = "loaded from package variable " + x.Name()
				case *ssa.FreeVar:
					bad = "captured from an enclosing function"
				case *ssa.Call:
					if cc := staticCallee(x); cc == nil || !p.inModule(cc) {
						bad = "the result of a call the analysis cannot see into"
					}
				}
			}
			r.Check("ref-flow", fmt.Sprintf("%s:picture-from-registration@%s", shortName(fn), shortName(cal)), c.Pos(), bad == "",
				fmt.Sprintf("%s builds a picture from an ImageInfo; it must be the one registered (media part + relationship) in this document by the same call: %s", shortName(fn), map[bool]string{true: "it is a registering call's result or a parameter handed down", false: bad}[bad == ""]))
		})
	}
	r.Min("picture_builder_call_sites", nPic, 3)
}

// createsOnSuccess: every return of h that may report success is preceded by instruction st.
func createsOnSuccess(p *Program, h *ssa.Function, st ssa.Instruction) bool {
	ei := failIndex(h.Signature)
	for _, ret := range returnsOf(h) {
		if ei >= 0 && !mayReportSuccess(p, h, ret, ei) {
			continue
		}
		if !mustPassThrough(h, ret, []ssa.Instruction{st}) {
			return false
		}
	}
	return true
}

// ---------------------------------------------------------------------------
// R-FRESH-DEP/media + R-COUNTER-INC
// ---------------------------------------------------------------------------

func ruleMediaFresh(r *Run) {
	p := r.P
	sl := newSlicer(p)
	open := p.Func(pkgDoc, "openFromZipReader")
	if open == nil {
		r.Unresolved("document.openFromZipReader")
		return
	}
	// (1) counter restored on open: every nil-error return of openFromZipReader is preceded by a call
	// to a function that stores nextImageID from a value depending on a range over parts.
	var restoreCalls []ssa.Instruction
	allInstrs(open, func(in ssa.Instruction) {
		c, ok := in.(ssa.CallInstruction)
		if !ok {
			return
		}
		cal := staticCallee(c)
		if cal == nil || !p.inModule(cal) {
			return
		}
		good := false
		allInstrs(cal, func(in2 ssa.Instruction) {
			st, ok := in2.(*ssa.Store)
			if !ok {
				return
			}
			fv, _ := fieldOfAddr(st.Addr)
			if !fieldIs(p, fv, pkgDoc, "Document", "nextImageID") {
				return
			}
			res := sl.Slice(st.Val)
			for v := range res.Vals {
				if rg, ok := v.(*ssa.Range); ok {
					if chain, _ := addrChain(rg.X); len(chain) > 0 && fieldIs(p, chain[len(chain)-1], pkgDoc, "Document", "parts") {
						good = true
					}
				}
			}
		})
		if good {
			restoreCalls = append(restoreCalls, in)
		}
	})
	okAll := len(restoreCalls) > 0
	for _, ret := range returnsOf(open) {
		if len(ret.Results) == 2 && isNilConst(retResult(ret, 1)) {
			if !mustPassThrough(open, ret, restoreCalls) {
				okAll = false
			}
		}
	}
	r.Check("fresh-dep", "media:openFromZipReader:nextImageID", open.Pos(), okAll,
		"every successful return of openFromZipReader must pass a call that recomputes nextImageID from the names in parts (so new media never reuse an existing name)")
	// (2) every store of a word/media/ part: the key depends on nextImageID and the counter is incremented first
	nMedia := 0
	for _, ps := range collectPartStores(p) {
		ks := ps.Key.norm()
		if len(ks) == 0 || ks[0].Sym != nil || !strings.HasPrefix(ks[0].Const, "word/media/") {
			continue
		}
		nMedia++
		res := sl.Slice(ps.MU.Key)
		dep := res.readsField(p, pkgDoc, "Document", "nextImageID")
		if dep && !mustReadCounter(p, sl, ps.MU.Key, nil, 0) {
			// the name depends on the counter on some path only: a path that takes the name from
			// somewhere else (the caller's file name) can produce a name a later counter value produces too
			dep = false
		}
		r.Check("fresh-dep", "media:"+shortName(ps.Fn)+":name", ps.MU.Pos(), dep,
			"the name of a new media part must be derived from the per-document counter nextImageID on every path that produces it (a name taken from elsewhere can coincide with a later counter-made name, and the earlier picture's bytes are overwritten)")
		// increment
		var incs []ssa.Instruction
		allInstrs(ps.Fn, func(in ssa.Instruction) {
			st, ok := in.(*ssa.Store)
			if !ok {
				return
			}
			fv, _ := fieldOfAddr(st.Addr)
			if !fieldIs(p, fv, pkgDoc, "Document", "nextImageID") {
				return
			}
			if bo, ok := st.Val.(*ssa.BinOp); ok && bo.Op == token.ADD {
				if c, ok := constInt(bo.Y); ok && c > 0 {
					if ch, _ := valueChain(bo.X); len(ch) > 0 && fieldIs(p, ch[len(ch)-1], pkgDoc, "Document", "nextImageID") {
						incs = append(incs, st)
					}
				}
			}
		})
		// …or a helper that increments the counter on every path (an allocation function)
		allInstrs(ps.Fn, func(in ssa.Instruction) {
			c, ok := in.(*ssa.Call)
			if !ok {
				return
			}
			if cal := staticCallee(c); cal != nil && p.inModule(cal) && alwaysIncrements(p, cal, "nextImageID", 0) {
				incs = append(incs, c)
			}
		})
		r.Check("counter-inc", "media:"+shortName(ps.Fn), ps.MU.Pos(), len(incs) > 0 && mustPassThrough(ps.Fn, ps.MU, incs),
			"nextImageID must be incremented on every path before the media part is stored")
	}
	r.Min("media_part_stores", nMedia, 1)
	// (3) media bytes unmodified: the stored value is the function's []byte parameter itself
	for _, ps := range collectPartStores(p) {
		ks := ps.Key.norm()
		if len(ks) == 0 || ks[0].Sym != nil || !strings.HasPrefix(ks[0].Const, "word/media/") {
			continue
		}
		_, isParam := ps.MU.Value.(*ssa.Parameter)
		r.Check("media-bytes", shortName(ps.Fn), ps.MU.Pos(), isParam,
			"the media part must hold the caller's image bytes unmodified (the stored value is the data parameter itself)")
	}
}

// alwaysIncrements: every path of fn from entry to a return passes a store `x.field = x.field + k`
// (k > 0) of the Document counter, directly or in a callee with the same property.
func alwaysIncrements(p *Program, fn *ssa.Function, field string, depth int) bool {
	if depth > 2 || len(fn.Blocks) == 0 {
		return false
	}
	var incs []ssa.Instruction
	allInstrs(fn, func(in ssa.Instruction) {
		switch x := in.(type) {
		case *ssa.Store:
			fv, _ := fieldOfAddr(x.Addr)
			if !fieldIs(p, fv, pkgDoc, "Document", field) {
				return
			}
			if bo, ok := x.Val.(*ssa.BinOp); ok && bo.Op == token.ADD {
				if c, ok := constInt(bo.Y); ok && c > 0 {
					if ch, _ := valueChain(bo.X); len(ch) > 0 && fieldIs(p, ch[len(ch)-1], pkgDoc, "Document", field) {
						incs = append(incs, x)
					}
				}
			}
		case *ssa.Call:
			if cal := staticCallee(x); cal != nil && cal != fn && p.inModule(cal) && alwaysIncrements(p, cal, field, depth+1) {
				incs = append(incs, x)
			}
		}
	})
	if len(incs) == 0 {
		return false
	}
	rets := returnsOf(fn)
	if len(rets) == 0 {
		return false
	}
	for _, ret := range rets {
		if !mustPassThrough(fn, ret, incs) {
			return false
		}
	}
	return true
}

// mustPassThrough: every path from fn's entry to target contains one of the instructions in via.
func mustPassThrough(fn *ssa.Function, target ssa.Instruction, via []ssa.Instruction) bool {
	if len(via) == 0 {
		return false
	}
	viaIdx := map[*ssa.BasicBlock]int{} // earliest via index per block
	for _, v := range via {
		b := v.Block()
		idx := instrIndex(v)
		if old, ok := viaIdx[b]; !ok || idx < old {
			viaIdx[b] = idx
		}
	}
	tb := target.Block()
	ti := instrIndex(target)
	// same block, via before target
	if vi, ok := viaIdx[tb]; ok && vi < ti {
		// still need: is tb reachable avoiding via?  any path reaching tb passes via inside tb → fine
		return true
	}
	cut := map[*ssa.BasicBlock]bool{}
	for b := range viaIdx {
		cut[b] = true
	}
	if len(fn.Blocks) == 0 {
		return false
	}
	reach := reachableBlocks(fn.Blocks[0], cut)
	return !reach[tb]
}

func instrIndex(in ssa.Instruction) int {
	for i, x := range in.Block().Instrs {
		if x == in {
			return i
		}
	}
	return -1
}

// ---------------------------------------------------------------------------
// R-KEYED-INSERT
// ---------------------------------------------------------------------------

type keyedColl struct{ owner, field, elem, key string }

var keyedColls = []keyedColl{
	{"SectionProperties", "HeaderReferences", "HeaderFooterReference", "Type"},
	{"SectionProperties", "FooterReferences", "FooterReference", "Type"},
	{"ContentTypes", "Overrides", "Override", "PartName"},
	{"ContentTypes", "Defaults", "Default", "Extension"},
}

func ruleKeyedInsert(r *Run, only map[string]bool) {
	p := r.P
	reader := buildReaderModel(p)
	clones := map[*ssa.Function]bool{}
	for _, c := range discoverClones(p, pkgDoc) {
		clones[c.Fn] = true
	}
	n := 0
	for _, kc := range keyedColls {
		if only != nil && !only[kc.field] {
			continue
		}
		for _, fn := range p.ModFuncs() {
			if reader.IsReader[fn] || clones[fn] {
				continue
			}
			allInstrs(fn, func(in ssa.Instruction) {
				st, ok := in.(*ssa.Store)
				if !ok {
					return
				}
				fv, _ := fieldOfAddr(st.Addr)
				if !fieldIs(p, fv, pkgDoc, kc.owner, kc.field) {
					return
				}
				c, ok := st.Val.(*ssa.Call)
				if !ok {
					return
				}
				if bi, ok := c.Call.Value.(*ssa.Builtin); !ok || bi.Name() != "append" {
					return
				}
				// appending to the existing collection?
				if ch, _ := addrChain(c.Call.Args[0]); len(ch) == 0 || !fieldIs(p, ch[len(ch)-1], pkgDoc, kc.owner, kc.field) {
					return
				}
				n++
				// look for a key comparison over elements of the same collection whose equal-branch
				// returns or overwrites, and that does not contain the append itself
				guarded := false
				allInstrs(fn, func(in2 ssa.Instruction) {
					bo, ok := in2.(*ssa.BinOp)
					if !ok || (bo.Op != token.EQL && bo.Op != token.NEQ) {
						return
					}
					for _, side := range []ssa.Value{bo.X, bo.Y} {
						ch, _ := valueChain(side)
						if len(ch) < 1 || !fieldIs(p, ch[len(ch)-1], pkgDoc, kc.elem, kc.key) {
							continue
						}
						// the element comes from the collection
						fromColl := false
						for rt := range rootsOf(side) {
							_ = rt
						}
						res := newSlicer(p).Slice(side)
						if res.readsField(p, pkgDoc, kc.owner, kc.field) {
							fromColl = true
						}
						if !fromColl {
							continue
						}
						// find the If using this comparison
						if refs := bo.Referrers(); refs != nil {
							for _, u := range *refs {
								iff, ok := u.(*ssa.If)
								if !ok {
									continue
								}
								eq := iff.Block().Succs[0]
								if bo.Op == token.NEQ {
									eq = iff.Block().Succs[1]
								}
								region := edgeRegion(iff.Block(), eq)
								if region[st.Block()] {
									continue
								}
								for b := range region {
									for _, x := range b.Instrs {
										switch y := x.(type) {
										case *ssa.Return:
											guarded = true
										case *ssa.Store:
											if ch2, _ := addrChain(y.Addr); len(ch2) > 0 {
												guarded = true
											}
										}
									}
								}
							}
						}
					}
				})
				// …or the search lives in a finder helper — find(coll, key) returning the element
				// (nil when absent) or a found flag — whose "found" branch here returns or overwrites
				if !guarded {
					allInstrs(fn, func(in2 ssa.Instruction) {
						c2, ok := in2.(*ssa.Call)
						if !ok || guarded {
							return
						}
						cal := staticCallee(c2)
						if cal == nil || !p.inModule(cal) || !isKeyFinder(p, cal, kc.owner, kc.field, kc.elem, kc.key) {
							return
						}
						// the tested value: the call result itself or one of its components
						cands := []ssa.Value{c2}
						if c2.Referrers() != nil {
							for _, u := range *c2.Referrers() {
								if ex, ok := u.(*ssa.Extract); ok {
									cands = append(cands, ex)
								}
							}
						}
						for _, cv := range cands {
							var foundSuccs []struct{ from, to *ssa.BasicBlock }
							if bt, isBasic := cv.Type().Underlying().(*types.Basic); isBasic {
								if cv.Referrers() != nil {
									for _, u := range *cv.Referrers() {
										if iff, ok := u.(*ssa.If); ok {
											foundSuccs = append(foundSuccs, struct{ from, to *ssa.BasicBlock }{iff.Block(), iff.Block().Succs[0]})
										}
										// an index result: found means i >= 0 (i != -1, !(i < 0), !(i == -1))
										cmp, ok := u.(*ssa.BinOp)
										if !ok || bt.Info()&types.IsInteger == 0 || cmp.X != cv || cmp.Referrers() == nil {
											continue
										}
										k, isK := constInt(cmp.Y)
										if !isK {
											continue
										}
										foundOnTrue, known := false, true
										switch {
										case cmp.Op == token.GEQ && k == 0, cmp.Op == token.GTR && k == -1, cmp.Op == token.NEQ && k == -1:
											foundOnTrue = true
										case cmp.Op == token.LSS && k == 0, cmp.Op == token.LEQ && k == -1, cmp.Op == token.EQL && k == -1:
											foundOnTrue = false
										default:
											known = false
										}
										if !known {
											continue
										}
										for _, u2 := range *cmp.Referrers() {
											if iff, ok := u2.(*ssa.If); ok {
												to := iff.Block().Succs[0]
												if !foundOnTrue {
													to = iff.Block().Succs[1]
												}
												foundSuccs = append(foundSuccs, struct{ from, to *ssa.BasicBlock }{iff.Block(), to})
											}
										}
									}
								}
							} else {
								nilTests(fn, cv, func(b, nilS, nonNilS *ssa.BasicBlock) {
									foundSuccs = append(foundSuccs, struct{ from, to *ssa.BasicBlock }{b, nonNilS})
								})
							}
							for _, fs := range foundSuccs {
								region := edgeRegion(fs.from, fs.to)
								if region[st.Block()] {
									continue
								}
								for b := range region {
									for _, x := range b.Instrs {
										switch y := x.(type) {
										case *ssa.Return:
											guarded = true
										case *ssa.Store:
											if ch2, _ := addrChain(y.Addr); len(ch2) > 0 {
												guarded = true
											}
										}
									}
								}
							}
						}
					})
				}
				r.Check("keyed-insert", fmt.Sprintf("%s:%s.%s", shortName(fn), kc.owner, kc.field), st.Pos(), guarded,
					fmt.Sprintf("%s appends to %s.%s (unique by %s) without first looking for an element with the same %s: a second call for the same key leaves two entries",
						shortName(fn), kc.owner, kc.field, kc.key, kc.key))
			})
		}
	}
	r.Min("keyed_appends", n, 2)
}

// isKeyFinder: fn searches the keyed collection owner.field for an element whose key equals
// something and reports "found" through a non-nil / true result in the equal branch only: every
// return outside the equal branch of the key comparison yields nil / false.
func isKeyFinder(p *Program, fn *ssa.Function, owner, field, elem, key string) bool {
	if len(fn.Blocks) == 0 || fn.Signature.Results().Len() == 0 {
		return false
	}
	found := map[*ssa.BasicBlock]bool{}
	any := false
	allInstrs(fn, func(in ssa.Instruction) {
		bo, ok := in.(*ssa.BinOp)
		if !ok || (bo.Op != token.EQL && bo.Op != token.NEQ) || bo.Referrers() == nil {
			return
		}
		for _, side := range []ssa.Value{bo.X, bo.Y} {
			ch, _ := valueChain(side)
			if len(ch) < 1 || !fieldIs(p, ch[len(ch)-1], pkgDoc, elem, key) {
				continue
			}
			if !newSlicer(p).Slice(side).readsField(p, pkgDoc, owner, field) {
				continue
			}
			// the comparison may be one conjunct of the condition (ref != nil && ref.Type == t):
			// follow the If that consumes it
			for _, u := range *bo.Referrers() {
				iff, ok := u.(*ssa.If)
				if !ok {
					continue
				}
				eq := iff.Block().Succs[0]
				if bo.Op == token.NEQ {
					eq = iff.Block().Succs[1]
				}
				for b := range edgeRegion(iff.Block(), eq) {
					found[b] = true
				}
				found[eq] = true
				any = true
			}
		}
	})
	if !any {
		return false
	}
	sawFound := false
	for _, ret := range returnsOf(fn) {
		isFound := false
		for i := range ret.Results {
			v := retResult(ret, i)
			if isNilConst(v) {
				continue
			}
			if c, ok := v.(*ssa.Const); ok {
				if c.Value == nil || c.Value.String() == "false" || c.Value.String() == "-1" || c.Value.String() == "0" || c.Value.String() == `""` {
					continue
				}
			}
			isFound = true
		}
		if isFound && !found[ret.Block()] {
			return false // reports "found" without having matched the key
		}
		if isFound {
			sawFound = true
		}
	}
	return sawFound
}

// ---------------------------------------------------------------------------
// kind-injective (C11): the header/footer kinds map to pairwise distinct part names.
// ---------------------------------------------------------------------------

func ruleKindInjective(r *Run) {
	_ = r.P
	fn := r.mustFunc(pkgDoc, "getFileNameForType")
	if fn == nil {
		return
	}
	// every declared kind constant is pushed through the function (partial evaluation of the SSA
	// body, following helpers): the resulting part-name patterns must be pairwise distinct
	kinds := constsOfType(fn.Pkg.Pkg, "HeaderFooterType")
	r.Min("header_footer_kinds", len(kinds), 3)
	kindIdx := -1
	for i, prm := range fn.Params {
		if nt, ok := prm.Type().(*types.Named); ok && nt.Obj().Name() == "HeaderFooterType" {
			kindIdx = i
		}
	}
	if kindIdx < 0 {
		r.Unresolved("document.getFileNameForType(kind HeaderFooterType)")
		return
	}
	seen := map[string]string{}
	ok := true
	detail := ""
	var names []string
	for n := range kinds {
		names = append(names, n)
	}
	sort.Strings(names)
	for _, n := range names {
		args := make([]pv, len(fn.Params))
		args[kindIdx] = pv{kinds[n], true}
		res, complete := pevalCall(fn, args, 0, &pevalCtx{})
		if !complete || len(res) == 0 {
			r.Undecided("kind-injective", "getFileNameForType", fn.Pos(), fmt.Sprintf("the part name for kind %s could not be evaluated symbolically", n))
			return
		}
		for _, pat := range res {
			pat = showPV(pat)
			if other, dup := seen[pat]; dup && other != n {
				ok = false
				detail = fmt.Sprintf("kinds %s and %s both map to part name pattern %q: one definition overwrites the other", other, n, pat)
			}
			seen[pat] = n
		}
	}
	r.Check("kind-injective", "getFileNameForType", fn.Pos(), ok, "each header/footer kind has its own part name: "+map[bool]string{true: fmt.Sprintf("%d kinds, %d distinct patterns", len(kinds), len(seen)), false: detail}[ok])
}

// ownerViaCallers: a relationship (list) built in fn and returned: which Document list do the
// callers put it into, or which relationship part do they serialise it into?
func ownerViaCallers(p *Program, parts []partStore, fn *ssa.Function, depth int) string {
	if depth > 2 {
		return ""
	}
	top := topLevel(fn)
	for _, caller := range sortedFuncs(p.callersIndex()[top]) {
		found := ""
		allInstrs(caller, func(in ssa.Instruction) {
			c, ok := in.(*ssa.Call)
			if !ok || staticCallee(c) != top || found != "" {
				return
			}
			for use := range forwardFlow(c, nil) {
				switch x := use.(type) {
				case *ssa.Store:
					chain, _ := addrChain(x.Addr)
					for _, f := range chain {
						if f != nil && (f.Name() == "relationships" || f.Name() == "documentRelationships") && fieldIs(p, f, pkgDoc, "Document", f.Name()) {
							found = f.Name()
						}
					}
				case *ssa.Call:
					if bi, ok := x.Call.Value.(*ssa.Builtin); ok && bi.Name() == "append" {
						if chain, _ := addrChain(x.Call.Args[0]); len(chain) > 0 {
							for _, f := range chain {
								if f != nil && (f.Name() == "relationships" || f.Name() == "documentRelationships") {
									found = listName(chain)
								}
							}
						}
					}
				}
			}
		})
		if found == "" {
			// serialised by the caller into a relationship part
			for _, ps := range parts {
				if topLevel(ps.Fn) != topLevel(caller) {
					continue
				}
				switch k, _ := ps.Key.isConst(); k {
				case "word/_rels/document.xml.rels":
					found = "documentRelationships(serialised)"
				case "_rels/.rels":
					found = "relationships(serialised)"
				}
			}
		}
		if found == "" {
			found = ownerViaCallers(p, parts, caller, depth+1)
		}
		if found != "" {
			return found
		}
	}
	return ""
}

// descriptorKindsAgree: the dynamic call c in fn goes through a function-valued field of a
// descriptor object handed to fn as a parameter (or a package-level variable).  Every package-level
// descriptor that reaches that parameter must hold, side by side, a relationship-type constant and a
// reference helper of the same kind (…/header with the header-reference helper, …/footer with the
// footer-reference helper).
func descriptorKindsAgree(p *Program, fn *ssa.Function, c ssa.CallInstruction, kinds map[*ssa.Function]string) (bool, string) {
	ld, ok := c.Common().Value.(*ssa.UnOp)
	if !ok {
		return false, "the function value is not read from a descriptor field"
	}
	fa, ok := ld.X.(*ssa.FieldAddr)
	if !ok {
		return false, "the function value is not read from a descriptor field"
	}
	var globals []*ssa.Global
	base := fa.X
	// a descriptor passed BY VALUE is spilled to a local: `*t0 = kind; &t0.addReference`
	if al, ok := base.(*ssa.Alloc); ok && al.Referrers() != nil {
		var par *ssa.Parameter
		n := 0
		for _, u := range *al.Referrers() {
			if st, ok := u.(*ssa.Store); ok && st.Addr == ssa.Value(al) {
				n++
				par, _ = st.Val.(*ssa.Parameter)
			}
		}
		if n == 1 && par != nil {
			base = par
		}
	}
	switch x := base.(type) {
	case *ssa.Global:
		globals = append(globals, x)
	case *ssa.Parameter:
		idx := paramIndex(fn, x)
		for _, cs := range staticCallSites(p, fn) {
			if idx < 0 || idx >= len(cs.Common().Args) {
				return false, "descriptor argument not found at a call site"
			}
			a := cs.Common().Args[idx]
			if ld2, ok := a.(*ssa.UnOp); ok && ld2.Op == token.MUL {
				a = ld2.X // the value of a package-level descriptor
			}
			g, isG := a.(*ssa.Global)
			if !isG {
				return false, fmt.Sprintf("the descriptor handed in at %s is not a package-level variable", p.pos(cs.Pos()))
			}
			globals = append(globals, g)
		}
	default:
		return false, "the descriptor is neither a parameter nor a package-level variable"
	}
	if len(globals) == 0 {
		return false, "no descriptor reaches the call"
	}
	n := 0
	for _, g := range globals {
		relK, helpK := "", ""
		writers := 0
		for _, f := range p.ModFuncs() {
			allInstrs(f, func(in ssa.Instruction) {
				st, ok := in.(*ssa.Store)
				if !ok {
					return
				}
				fa2, ok := st.Addr.(*ssa.FieldAddr)
				if !ok || fa2.X != ssa.Value(g) {
					return
				}
				if f.Name() != "init" {
					writers++ // a descriptor that is modified after initialisation proves nothing
				}
				if cs, ok := constString(st.Val); ok && strings.Contains(cs, "/relationships/") {
					relK = relKind(cs)
				}
				var target *ssa.Function
				switch v := st.Val.(type) {
				case *ssa.Function:
					target = v
				case *ssa.MakeClosure:
					target, _ = v.Fn.(*ssa.Function)
				}
				for d := 0; d < 3 && target != nil && target.Synthetic != "" && !p.inModule(target); d++ {
					var inner *ssa.Function
					allInstrs(target, func(in2 ssa.Instruction) {
						if ci, ok := in2.(ssa.CallInstruction); ok {
							if h := ci.Common().StaticCallee(); h != nil {
								inner = h
							}
						}
					})
					target = inner
				}
				if k, ok := kinds[target]; ok && target != nil {
					helpK = k
				}
			})
		}
		if writers > 0 || relK == "" || helpK == "" || relK != helpK {
			return false, fmt.Sprintf("descriptor %s pairs relationship kind %q with the %q reference helper", g.Name(), relK, helpK)
		}
		n++
	}
	return true, fmt.Sprintf("%d descriptor(s) checked", n)
}

// mustReadCounter: on every path that produces string value v, v contains (a conversion of) a read
// of Document.nextImageID.  Concatenation and Sprintf contain all their operands; a phi or a callee
// with several returns must satisfy it on every edge / return.  call/cal give the calling context
// for values that live in a callee (its parameters stand for the call's arguments).
type mrcCtx struct {
	call *ssa.Call
	cal  *ssa.Function
	up   *mrcCtx
}

func mustReadCounter(p *Program, sl *slicer, v ssa.Value, ctx *mrcCtx, depth int) (res bool) {
	if v == nil || depth > 10 {
		return false
	}
	if os.Getenv("WZ_DEBUG_MRC") != "" {
		defer func() { fmt.Fprintf(os.Stderr, "%*smrc %T %v -> %v\n", depth*2, "", v, v, res) }()
	}
	v = stripConv(v)
	switch x := v.(type) {
	case *ssa.Phi:
		for _, e := range x.Edges {
			if !mustReadCounter(p, sl, e, ctx, depth+1) {
				return false
			}
		}
		return true
	case *ssa.BinOp:
		if x.Op == token.ADD {
			return mustReadCounter(p, sl, x.X, ctx, depth+1) || mustReadCounter(p, sl, x.Y, ctx, depth+1)
		}
	case *ssa.MakeInterface:
		return mustReadCounter(p, sl, x.X, ctx, depth+1)
	case *ssa.Parameter:
		for c := ctx; c != nil; c = c.up {
			if c.cal == x.Parent() {
				if i := paramIndex(c.cal, x); i >= 0 && i < len(c.call.Call.Args) {
					return mustReadCounter(p, sl, c.call.Call.Args[i], c.up, depth+1)
				}
			}
		}
		return false
	case *ssa.UnOp:
		if x.Op == token.MUL {
			if prm, fidx := paramFieldRead(x); prm != nil {
				for c := ctx; c != nil; c = c.up {
					if c.cal == prm.Parent() {
						if i := paramIndex(c.cal, prm); i >= 0 && i < len(c.call.Call.Args) {
							if rep, c2 := structFieldOf(c.call.Call.Args[i], fidx, 0); rep != nil {
								return mustReadCounter(p, sl, rep, &mrcCtx{c2, staticCallee(c2), c.up}, depth+1)
							}
						}
					}
				}
			}
			if al, ok := x.X.(*ssa.Alloc); ok && al.Referrers() != nil {
				n, okAll := 0, true
				for _, u := range *al.Referrers() {
					if st, ok := u.(*ssa.Store); ok && st.Addr == ssa.Value(al) {
						n++
						if !mustReadCounter(p, sl, st.Val, ctx, depth+1) {
							okAll = false
						}
					}
				}
				if n > 0 {
					return okAll
				}
			}
			if rep, c2 := structFieldRep(x); rep != nil {
				return mustReadCounter(p, sl, rep, &mrcCtx{c2, staticCallee(c2), ctx}, depth+1)
			}
		}
	case *ssa.Field:
		if prm, fidx := paramFieldRead(x); prm != nil {
			for c := ctx; c != nil; c = c.up {
				if c.cal == prm.Parent() {
					if i := paramIndex(c.cal, prm); i >= 0 && i < len(c.call.Call.Args) {
						if rep, c2 := structFieldOf(c.call.Call.Args[i], fidx, 0); rep != nil {
							return mustReadCounter(p, sl, rep, &mrcCtx{c2, staticCallee(c2), c.up}, depth+1)
						}
					}
				}
			}
		}
		if rep, c2 := structFieldRep(x); rep != nil {
			return mustReadCounter(p, sl, rep, &mrcCtx{c2, staticCallee(c2), ctx}, depth+1)
		}
	case *ssa.Extract:
		if c, ok := x.Tuple.(*ssa.Call); ok {
			if g := staticCallee(c); g != nil && p.inModule(g) && len(g.Blocks) > 0 {
				rets := returnsOf(g)
				if len(rets) == 0 {
					return false
				}
				for _, ret := range rets {
					if x.Index >= len(ret.Results) || !mustReadCounter(p, sl, ret.Results[x.Index], &mrcCtx{c, g, ctx}, depth+1) {
						return false
					}
				}
				return true
			}
		}
	case *ssa.Call:
		if g := staticCallee(x); g != nil && p.inModule(g) && len(g.Blocks) > 0 {
			rets := returnsOf(g)
			if len(rets) == 0 {
				return false
			}
			for _, ret := range rets {
				if len(ret.Results) == 0 || !mustReadCounter(p, sl, ret.Results[0], &mrcCtx{x, g, ctx}, depth+1) {
					return false
				}
			}
			return true
		}
		// a formatting function of another package (Sprintf, Itoa …): its result contains its arguments;
		// anything else (filepath.Ext, strings.TrimSuffix …) may keep only a part that is not the counter
		switch calleeName(x) {
		case "fmt.Sprintf", "fmt.Sprint", "strconv.Itoa", "strconv.FormatInt", "strconv.FormatUint", "strings.ToLower", "strings.ToUpper", "strings.TrimSpace", "path.Join", "path/filepath.Join", "strings.Join":
		default:
			return false
		}
		for _, a := range x.Call.Args {
			if elems := varargElems(a); elems != nil {
				for _, e := range elems {
					if mustReadCounter(p, sl, e, ctx, depth+1) {
						return true
					}
				}
				continue
			}
			if mustReadCounter(p, sl, a, ctx, depth+1) {
				return true
			}
		}
		return false
	}
	// a plain value: does its (data) slice read the counter?
	if sl.Slice(v).readsField(p, pkgDoc, "Document", "nextImageID") {
		return true
	}
	return false
}

// getterChainOfLoad: the access path of a loaded field whose base object came out of a getter
// (rels := d.ensureDocumentRelationships(); rels.Relationships).
func getterChainOfLoad(ld *ssa.UnOp) ([]*types.Var, ssa.Value, bool) {
	if ld.Op != token.MUL {
		return nil, nil, false
	}
	fa, ok := ld.X.(*ssa.FieldAddr)
	if !ok {
		return nil, nil, false
	}
	fv, base := fieldOfAddr(fa)
	if fv == nil {
		return nil, nil, false
	}
	if c, ok := stripLoads(base).(*ssa.Call); ok {
		if ch, root, ok := getterChain(c); ok {
			return append(append([]*types.Var{}, ch...), fv), root, true
		}
	}
	return nil, nil, false
}
