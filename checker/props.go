package main

var props = map[string]PropSpec{}

func init() {
	props["C03"] = PropSpec{
		Title:       "Saving then opening a document loses nothing the library can express",
		Explanation: "Decides the structural clause 'the hand-written reader covers the struct-tag driven writer': for every struct reachable from the body element kinds, every element field has a reader case for its local name that stores into that field, every attribute field is filled from the attribute of the same name, every body element kind the API can append is constructed by the reader, and hand-written MarshalXML methods pass every tagged field to the encoder. A necessary condition of the round trip, not the round trip itself.",
		NotDecided:  "value-level fidelity (whitespace inside w:t, numeric formatting), cycle stability beyond reader ⊇ writer",
		Rules: []Rule{
			{"schema-read/attr/body", "reader covers writer struct tags (regions of StartElement.Name.Local comparisons, attribute provenance)", ruleSchema},
			{"marshal-cover", "custom MarshalXML methods encode every tagged field", ruleMarshalCover},
		},
		Assumptions: []string{"encoding/xml marshals exactly the tagged fields", "reader functions are those statically reachable from (*Document).parseDocument"},
	}
}

func init() {
	props["C18"] = PropSpec{Title: "Rendering a document template changes only its placeholders", Explanation: "tmp", Rules: []Rule{{"clone-cover/map/pure", "template clone functions copy every field", ruleCloneDocument}}}
	props["C14"] = PropSpec{Title: "Style inheritance", Explanation: "tmp", Rules: []Rule{{"clone", "style clone", ruleCloneStyle}, {"merge", "m", ruleMerge}, {"recur", "r", ruleRecurGuard}, {"noreg", "n", ruleNoRegistryWrite}}}
	props["C09"] = PropSpec{Title: "Tables", Explanation: "tmp", Rules: []Rule{{"copy", "CopyTable", ruleCopyTable}, {"err-atomic", "e", ruleErrAtomicTable}, {"index-adeq", "i", ruleIndexAdeq}, {"nil-guard", "n", ruleNilGuardGrid}}}
}

func init() {
	props["C02"] = PropSpec{Title: "rels", Explanation: "tmp", Rules: []Rule{{"fresh", "f", ruleFreshRelID}, {"attach", "a", ruleRelAttach}, {"refflow", "r", ruleRefFlow}}}
	props["C10"] = PropSpec{Title: "img", Explanation: "tmp", Rules: []Rule{{"media", "m", ruleMediaFresh}}}
	props["C11"] = PropSpec{Title: "hf", Explanation: "tmp", Rules: []Rule{{"keyed", "k", func(r *Run) { ruleKeyedInsert(r, nil) }}}}
}

func init() {
	props["C05"] = PropSpec{Title: "save", Explanation: "tmp", Rules: []Rule{{"save-err", "f", ruleSaveErr}, {"save-sibling", "a", ruleSaveSibling}}}
}

func init() {
	props["C06"] = PropSpec{Title: "open", Explanation: "tmp", Rules: []Rule{{"loop-token", "f", ruleLoopToken}, {"recursion", "a", ruleReaderRecursion}, {"init-body", "i", ruleInitBody}}}
	props["C04"] = PropSpec{Title: "nondestructive", Explanation: "tmp", Rules: []Rule{{"run-container", "f", ruleRunContainer}}}
}

func init() {
	props["C07"] = PropSpec{Title: "indep", Explanation: "tmp", Rules: []Rule{{"global-state", "f", func(r *Run) { ruleGlobalState(r, nil) }}}}
	props["C17"] = PropSpec{Title: "pure", Explanation: "tmp", Rules: []Rule{{"lock", "f", ruleLock}, {"publish", "p", rulePublishImmut}, {"render-pure", "p", ruleRenderPure}}}
}

func init() {
	props["C08"] = PropSpec{Title: "body", Explanation: "tmp", Rules: []Rule{{"body-write", "f", ruleBodyWrite}, {"err-atomic", "p", ruleErrAtomicRemove}, {"sectpr-last", "p", ruleSectPrLast}}}
	props["C12"] = PropSpec{Title: "page", Explanation: "tmp", Rules: []Rule{{"err-atomic", "p", ruleErrAtomicPage}, {"field-bij", "b", ruleFieldBij}, {"setter-scope", "s", ruleSetterScope}}}
}

func init() {
	props["C13"] = PropSpec{Title: "ids", Explanation: "tmp", Rules: []Rule{{"style-id", "f", func(r *Run) { ruleStyleID(r, "") }}, {"part-dep", "p", rulePartDep}, {"must-update", "p", ruleMustUpdate}}}
	props["C15"] = PropSpec{Title: "lists", Explanation: "tmp", Rules: []Rule{{"memo-key", "f", ruleMemoKey}, {"global-state", "g", func(r *Run) {
		ruleGlobalState(r, map[string]bool{"globalFootnoteManager": true, "globalNumberingManager": true})
	}}}}
}

func init() {
	props["C16"] = PropSpec{Title: "tmpl", Explanation: "tmp", Rules: []Rule{{"regex-lazy", "f", ruleRegexLazy}, {"pass-order", "p", rulePassOrder}, {"closure-ret", "p", ruleClosureRet}}}
	props["C01"] = PropSpec{Title: "wf", Explanation: "tmp", Rules: []Rule{{"raw-xml", "f", ruleRawXML}}}
}

func init() {
	p := props["C01"]
	p.Rules = append(p.Rules, Rule{"part-prov", "p", rulePartProv}, Rule{"ct-media", "c", ruleCTMedia})
	props["C01"] = p
}

func init() {
	p := props["C04"]
	p.Rules = append(p.Rules, Rule{"part-pass", "p", rulePartPass}, Rule{"schema-opc", "c", ruleSchemaOPC}, Rule{"media-fresh", "m", ruleMediaFresh})
	props["C04"] = p
}
