package main

// Property → rules.  Each explanation states the structural clause that is decided (a
// necessary condition of the behavioural property) and, separately, what is NOT decided.

var props = map[string]PropSpec{}

var commonAssumptions = []string{
	"the Go type checker and go/ssa (x/tools v0.29.0) represent the source faithfully",
	"analysis is path-insensitive except where a must-pass-through / region query is stated",
	"callers of the library do not edit Document.parts / Body.Elements behind its back",
}

func init() {
	props["C01"] = PropSpec{
		Title:       "Every saved document is a well-formed OOXML package",
		Explanation: "Decides: (part-prov) every value stored into Document.parts comes from encoding/xml marshalling, an unmodified copy, the caller's image bytes under word/media/, or a constant that parses as XML; (raw-xml) every data value spliced into raw XML text, and every value stored into an ,innerxml field, passes an encoding/xml escaper; (ct-media) the extension used to name a media part is the one registered as content-type default by the same operation; (save-complete/sibling) both save entry points regenerate [Content_Types].xml, _rels/.rels, the document relationships and the main part before writing, and the only officeDocument relationship is the one in the initial literal list.",
		NotDecided:  "what encoding/xml and archive/zip emit for pathological values (trusted); parts of opened foreign packages that are already ill-formed",
		Rules: []Rule{
			{"part-prov", "provenance of every Document.parts store (dependence slice of the stored value)", rulePartProv},
			{"raw-xml", "data values reaching raw XML sinks pass an encoding/xml escaper", ruleRawXML},
			{"ct-media", "media part extension = registered content-type default extension (same symbolic source)", ruleCTMedia},
			{"save-complete", "Save and ToBytes run the same regeneration sequence incl. content types and relationships", ruleSaveSibling},
			{"clone-alias", "a rendered document does not share its content-type lists with the template (mutability-aware alias analysis of cloneDocument)", ruleCloneAliasFor("ContentTypes", "Document")},
			{"save-truncate", "the target file is created/truncated, never opened for in-place overwrite", ruleSaveTruncate},
			{"keyed-insert", "content-type defaults (by extension) and overrides (by part name) are found-or-added by their key alone, so every stored part keeps exactly one content type", func(r *Run) {
				ruleKeyedInsert(r, map[string]bool{"Defaults": true, "Overrides": true})
			}},
			{"rel-append-only", "relationship lists of an existing package are only appended to: the officeDocument relationship that locates the main part is never replaced or dropped", ruleRelAppendOnly},
			{"fresh-dep/relid", "ids given to relationships added to an existing list depend on the ids already there (a constant id can take over the officeDocument relationship's id)", ruleFreshRelID},
			{"clone-cover (package state)", "a document derived from another carries over every field of Document that decides what the package parts contain (content types, relationships, parts and any flag that gates their regeneration): a field left behind makes the derived package's structure parts disagree with its contents", filtered(ruleCloneDocument, "cloneDocument:Document.")},
		},
		Assumptions: append([]string{"encoding/xml escapes text and attribute values and replaces invalid characters"}, commonAssumptions...),
	}
	props["C02"] = PropSpec{
		Title:       "Relationships and relationship references always resolve, uniquely",
		Explanation: "Decides: (fresh-dep) the id of every relationship added to a list that may already hold arbitrary ids is computed from the ids in that list (its backward dependence slice reads Relationship.ID), not from len() or a constant; (rel-attach) every relationship literal with a constant type is attached to the relationship list of the part that owns that type (ECMA-376 table) and its target, resolved against that part's directory, equals the key of a part the library stores (symbolic string equality); (ref-flow) ids written into header/footer references, ImageInfo.RelationID and a:blip r:embed are the very SSA value stored as the id of the relationship of the matching kind created by the same call.",
		NotDecided:  "references inside opened foreign packages; uniqueness after callers edit the relationship lists themselves",
		Rules: []Rule{
			{"fresh-dep/relid", "new relationship ids depend on existing ids (dependence slice)", ruleFreshRelID},
			{"rel-attach", "relationship type → owning list and target ↔ stored part key", ruleRelAttach},
			{"ref-flow", "body references carry the id of the relationship just created", ruleRefFlow},
			{"clone-alias", "a rendered document does not share its relationship lists with the template (mutability-aware alias analysis of cloneDocument)", ruleCloneAliasFor("Relationships", "Document")},
			{"rel-append-only", "relationship lists of an existing document are only appended to (shape of every store)", ruleRelAppendOnly},
			{"alloc-scans-all", "the id allocator's scanning loop has no early exit", ruleAllocScansAll},
			{"alloc-append-atomic", "between taking a relationship id from the allocator and adding the relationship that carries it, nothing runs that can add another relationship (which would be given the same id)", ruleAllocAppendAtomic},
			{"part-pass/rel-keep", "every relationship and every part of an opened package is retained (what the body refers to stays resolvable)", rulePartPass},
			{"rel-serialise-all", "the relationship parts written on save contain every relationship of the in-memory lists", ruleRelSerialiseAll},
		},
		Assumptions: commonAssumptions,
	}
	props["C03"] = PropSpec{
		Title:       "Saving then opening a document loses nothing the library can express",
		Explanation: "Decides 'the hand-written reader covers the struct-tag driven writer': for every struct reachable from the body element kinds, every element field has a reader case for its local name whose region stores into that field, every attribute field is filled from the attribute of the same name (provenance of the stored value), every body element kind the API can append is constructed by the reader, hand-written MarshalXML methods pass every tagged field to the encoder, and the body marshaller collects every element of the list in order. A necessary condition of the round trip, not the round trip itself.",
		NotDecided:  "value-level fidelity (whitespace inside w:t, numeric formatting), cycle stability beyond reader ⊇ writer",
		Rules: []Rule{
			{"schema-read/attr/body", "reader covers writer struct tags (regions of StartElement.Name.Local comparisons, attribute provenance)", ruleSchema},
			{"marshal-cover", "custom MarshalXML methods encode every tagged field", ruleMarshalCover},
			{"sectpr-last", "Body.MarshalXML collects every non-section element, in order (shape of the collecting loop)", ruleSectPrLast},
			{"chardata-verbatim", "character data is stored as read (no transformation in the value's slice)", ruleCharDataVerbatim},
			{"reader-keeps-all", "a list the reader has collected is only replaced by the result of a function that keeps every element of it (no merging or filtering pass over what was read)", ruleReaderKeepsAll},
			{"marshal-guard", "custom marshalers skip a field only when the field itself is absent (guard predicates cover every field)", ruleMarshalGuard},
			{"marshal-pure", "serialising does not modify the model", ruleMarshalPure},
			{"result-fresh", "the bytes returned by ToBytes are backed by memory of that call only (not by a buffer the document keeps and overwrites on the next save)", ruleResultFresh},
			{"marshal-attr-unique", "hand-written marshallers add no attribute that the encoded struct's tags emit as well", ruleMarshalAttrUnique},
			{"reader-input-only", "whether a parsed element is kept depends on the element, not on other state of the document under construction (dependence slice of the branch conditions inside the reader's element cases)", ruleReaderInputOnly},
			{"attr-presence", "where the reader keeps an element only for a non-empty attribute, no library code builds that element with the attribute empty (regions of attr != \"\" tests vs composite literals)", ruleAttrPresence},
			{"part-prov", "parts (pictures included) are stored exactly as read from the archive on Open", rulePartProv},
			{"sectpr-singleton", "section settings are kept in one element: a second one is never appended (full search before the append), so none is lost when the body is written", ruleSectPrSingleton},
			{"fresh-dep/media", "pictures keep their bytes when more are added after a reopen: media names come from a counter restored from the existing names on Open", ruleMediaFresh},
			{"counter-numeric", "the restored image counter is a numeric maximum, not a lexicographic one", ruleCounterNumeric},
		},
		Assumptions: append([]string{"encoding/xml marshals exactly the tagged fields", "reader functions are those statically reachable from (*Document).parseDocument"}, commonAssumptions...),
	}
	props["C04"] = PropSpec{
		Title:       "Opening and re-saving an existing package is non-destructive",
		Explanation: "Decides: (part-pass) every archive entry is stored under its own name on every loop iteration of Open, nothing ever deletes from the part map, and the functions reachable from Save/ToBytes overwrite only the five parts the library regenerates; (rel-keep) every relationship parsed from the document relationship part is retained; (schema-opc) the OPC structs that are parsed and re-marshalled model every attribute of their element (ECMA-376 Part 2 table, incl. TargetMode); (fresh-dep/media, counter-inc, media-bytes) new media names are derived from a counter that is recomputed from the existing part names on every successful Open and incremented before use, and media bytes are stored unmodified; (run-container) the paragraph reader descends into every element that may contain runs (hyperlink, smartTag, ins, moveTo, sdt, fldSimple, customXml, dir, bdo) instead of skipping it.",
		NotDecided:  "byte identity of ZIP entry metadata; content types of parts the library never touches beyond keeping [Content_Types].xml entries",
		Rules: []Rule{
			{"part-pass/rel-keep", "loop-body must-pass-through, who-may-write Document.parts", rulePartPass},
			{"schema-opc", "OPC attribute table vs struct tags", ruleSchemaOPC},
			{"fresh-dep/media", "media naming depends on a restored, incremented counter", ruleMediaFresh},
			{"run-container", "paragraph reader descends into run containers", ruleRunContainer},
			{"rel-append-only", "relationship lists of an opened document are only appended to", ruleRelAppendOnly},
			{"skip-balanced", "the element skipper balances start and end tags (depth counter or recursion)", ruleSkipBalanced},
			{"part-prov", "parts are stored exactly as read from the archive on Open (no limiting/transforming reader)", rulePartProv},
			{"counter-numeric", "the restored image counter is a numeric maximum, not a lexicographic one", ruleCounterNumeric},
			{"rel-serialise-all", "the relationship parts written on save contain every relationship of the in-memory lists (collects-all analysis of the marshalled slice)", ruleRelSerialiseAll},
			{"marshal-guard", "run text read from the package is written back whenever it is non-empty (custom marshalers test the field itself, not a trimmed copy)", ruleMarshalGuard},
			{"reader-input-only", "whether parsed content is kept depends on the element read, not on other state of the document under construction", ruleReaderInputOnly},
			{"reader-keeps-all", "a list the reader has collected is only replaced by the result of a function that keeps every element of it", ruleReaderKeepsAll},
			{"marshal-cover (run text)", "the run marshaller writes the run's text as it is held in the model (the encoded value is the field, not a filtered copy of it)", filtered(ruleMarshalCover, "document.Run.")},
		},
		Assumptions: commonAssumptions,
	}
	props["C05"] = PropSpec{
		Title:       "Save reports success only for a completely written, faithful file",
		Explanation: "Decides: (save-err) in Save and ToBytes every call that returns an error has that error tested, and the non-nil branch reaches only error returns; (save-close) on every path to a nil-error return the zip writer's Close — and in Save the file's Close — has been called with its result checked (a deferred Close whose result is dropped does not count), zip before file; (part-pass) every iteration over the part map reaches Create and Write; (save-sibling) Save and ToBytes perform the same ordered sequence of part-regenerating calls.",
		NotDecided:  "durability after Close (no fsync is claimed); behaviour of the OS for device files",
		Rules: []Rule{
			{"save-err/save-close", "error discipline and must-pass-through of checked Close on success paths (CFG)", ruleSaveErr},
			{"save-sibling", "sibling agreement of the two save entry points", ruleSaveSibling},
			{"save-verbatim", "each part is written with exactly the bytes of the part map", ruleSaveVerbatim},
			{"save-truncate", "the target file is created/truncated, never opened for in-place overwrite", ruleSaveTruncate},
			{"marshal-pure", "serialising does not modify the model: Save followed by ToBytes (or the reverse) sees the same document", ruleMarshalPure},
			{"result-fresh", "the bytes returned by ToBytes are backed by memory of that call only (not by a buffer the document keeps and overwrites on the next save)", ruleResultFresh},
		},
		Assumptions: commonAssumptions,
	}
	props["C06"] = PropSpec{
		Title:       "Opening never crashes or hangs, whatever the input bytes",
		Explanation: "Decides: (loop-token) every non-range loop of the reader consumes a token on every cycle (Decoder.Token or a reader that always does) and every Token error branch leaves the loop — with a finite input every loop terminates; (reader-recursion) the reader's call graph has no cycle, or recursive calls are guarded by a consumed start element AND carry a depth bound (an integer that is compared with a limit and incremented around the call); (init-body) every nil-error return of Open is preceded by a store of a non-nil Body (must-store summaries); (nil-guard) Table.Grid — set by the reader only inside the tblGrid case — is nil-checked before every dereference.",
		NotDecided:  "panics inside encoding/xml / archive/zip; memory exhaustion; nil dereferences of optional pointers other than Table.Grid and Document.Body",
		Rules: []Rule{
			{"loop-token", "token loops terminate (CFG cycles vs consuming calls, error exits)", ruleLoopToken},
			{"reader-recursion", "reader call graph acyclic or token-guarded", ruleReaderRecursion},
			{"init-body", "Body initialised on every successful Open path", ruleInitBody},
			{"nil-guard", "Table.Grid dereferences are nil-guarded", ruleNilGuardGrid},
			{"typed-nil", "readers whose result becomes an interface value never return (nil, nil)", ruleTypedNil},
			{"sized-by-row", "a slice sized by one row's cell count is not indexed by a counter over another row's cells without a guard", ruleSizedByRow},
			{"div-guard", "no integer division or remainder on the Open path has a divisor that can be zero (constant, or kept from zero by dominating comparisons)", ruleDivGuard},
			{"untrusted-size", "no allocation on the Open path is sized from archive directory fields", ruleUntrustedSize},
			{"iter-progress", "iterator loops are left when the advancing call fails without progress", ruleIterProgress},
			{"grid-bound", "index and slice bounds on t.Grid.Cols follow from the dominating comparisons (difference-bound proof per use)", ruleGridBound},
			{"marshal-attr-unique", "hand-written marshallers add no attribute that the encoded struct's tags emit as well (a re-saved main part stays well-formed)", ruleMarshalAttrUnique},
			{"first-elem", "constant-index accesses to slices of received model objects are preceded by a length test or a filling store on every path (forward must-analysis per access path)", ruleFirstElem},
			{"part-prov", "the regenerated main part of a re-saved document comes out of the escaping marshaller (no text spliced into the marshalled bytes)", filtered(rulePartProv, "word/document.xml", "serializeDocument")},
		},
		Assumptions: append([]string{"Decoder.Token returns an error at end of input and consumes input on every successful call"}, commonAssumptions...),
	}
	props["C07"] = PropSpec{
		Title:       "Documents are independent of each other, sequentially and concurrently",
		Explanation: "Decides: every package-level variable of the three packages is either never written (directly or through pointers derived from it, interprocedurally, incl. getters that return it) from code reachable from the exported API, or is the logger configuration written only by the logging API. A shared, mutable, unsynchronised package-level registry reachable from per-document methods is both a leak between documents and a data race.",
		NotDecided:  "races between goroutines using the SAME document; third-party packages",
		Rules: []Rule{
			{"global-state", "classification of every package-level variable by reachable writers (mutation summaries over the VTA call graph)", func(r *Run) { ruleGlobalState(r, nil) }},
			{"clone-alias", "documents derived from one another (template rendering) share no object the library can later change", ruleCloneAliasFor()},
			{"clone-pure", "deriving a document from another (template rendering) never writes to the source document: two goroutines rendering from one template work on distinct documents and must not meet in the shared base", ruleClonePure},
			{"shared-writer-sync", "methods of a struct with a process-wide instance (the logger) never write to its io.Writer field directly without the object's mutex", ruleSharedWriterSync},
			{"pool-escape", "nothing taken from a package-level sync.Pool is returned to callers", rulePoolEscape(pkgDoc, pkgSty, pkgMd)},
		},
		Assumptions: commonAssumptions,
	}
	props["C08"] = PropSpec{
		Title:       "Body editing behaves like an ordered list of elements",
		Explanation: "Decides: (body-write) every store to Body.Elements is an append at the end, except removal of exactly one element in the Remove* functions and a frozen, reasoned list of rewriters (TOC, section-properties replacement, reader/constructors, template functions working on their clone); (err-atomic) the Remove* functions never write before returning false; (sectpr-last) Body.MarshalXML encodes non-section elements by one in-order range and the section properties exactly once, outside any loop, after it and before the end token.",
		NotDecided:  "index arithmetic (which element index a paragraph index maps to) beyond the shape of the splice",
		Rules: []Rule{
			{"body-write", "who may write Body.Elements and in which shape", ruleBodyWrite},
			{"err-atomic", "failure returns precede all writes (Remove*)", ruleErrAtomicRemove},
			{"sectpr-last", "shape of Body.MarshalXML", ruleSectPrLast},
			{"no-element-cache", "no Document field other than Body points at body elements", ruleNoElementCache},
			{"marshal-pure", "serialising does not modify the model (mutation summaries + append into a reslice of the receiver)", ruleMarshalPure},
			{"sectpr-singleton", "a section-properties element is appended to the body only after all elements were searched for an existing one", ruleSectPrSingleton},
			{"index-range-exact", "removal by element index tests the index against 0 and len(Body.Elements) only (no adjusted bound)", ruleIndexRangeExact},
			{"remove-typed", "RemoveParagraph* splice the body only at a position where a *Paragraph was found (ok-branch of the type assertion on that element, through finder helpers)", ruleRemoveTyped},
		},
		Assumptions: commonAssumptions,
	}
	props["C09"] = PropSpec{
		Title:       "Tables stay well-formed grids under every sequence of structural edits",
		Explanation: "Decides: (err-atomic) in every *Table method that writes structure or content and returns an error, no write to the receiver can be followed by a failure return (callee writes attributed to the success continuation when the callee is itself atomic); (index-adeq) an index or slice bound applied to the cells of one row is not guarded only by the cell count of a different row (rows differ in length after horizontal merges); (nil-guard) t.Grid is nil-checked before use; (copy-cover/alias) CopyTable sets every field of every struct it constructs and stores no pointer, slice or map taken from the source.",
		NotDecided:  "the reference-grid semantics (which cell ends up where), vMerge continuation consistency, 'every cell has a paragraph'",
		Rules: []Rule{
			{"range-copy", "the address of a by-value range variable never reaches a function that assigns to its fields without the variable being written back (an update of a row or cell would be applied to a copy and lost)", ruleRangeCopy},
			{"err-atomic", "validate-then-mutate on all paths (CFG reachability, write summaries)", ruleErrAtomicTable},
			{"index-adeq", "guard row = use row", ruleIndexAdeq},
			{"nil-guard", "Table.Grid dereferences are nil-guarded", ruleNilGuardGrid},
			{"copy-cover/alias", "CopyTable is complete and alias-free", ruleCopyTable},
			{"loop-fresh", "table elements inserted in a loop are constructed in that loop", ruleLoopFresh},
			{"prefix-append", "no append of new elements to a prefix of a slice whose tail is still needed", rulePrefixAppend},
			{"grid-bound", "index and slice bounds on t.Grid.Cols follow from the dominating comparisons (difference-bound proof per use)", ruleGridBound},
			{"col-all-rows", "column insertions/deletions rewrite every row (no skipping iteration in the loop over t.Rows)", ruleColAllRows},
			{"sized-by-row", "a slice sized by one row's cell count is not indexed by a counter over another row's cells without a guard", ruleSizedByRow},
			{"delete-content-pure", "row/column deletions never store into the paragraphs or nested tables of a remaining cell", ruleDeleteContentPure},
		},
		Assumptions: commonAssumptions,
	}
	props["C10"] = PropSpec{
		Title:       "Every picture shows exactly the image bytes it was given, at the requested size",
		Explanation: "Decides the chain picture → relationship → part by construction: (media-bytes) the media part holds the data parameter itself; (ref-flow) ImageInfo.RelationID is the id stored in the image relationship created by the same call and a:blip r:embed is loaded from it; (rel-attach) the relationship target media/X and the part key word/media/X share the same symbolic X; (fresh-dep) media names depend on a counter restored from existing names on Open, incremented before use and copied by cloneDocument; relationship ids must depend on existing ids (shared with C02); (schema-read) the drawing structs survive reopen.",
		NotDecided:  "the EMU sizing arithmetic (numeric); image decoding",
		Rules: []Rule{
			{"fresh-dep/media", "media naming, counter restore/increment, bytes unmodified", ruleMediaFresh},
			{"ref-flow", "embed id = relationship id", ruleRefFlowImage},
			{"rel-attach", "target ↔ part key", ruleRelAttachImage},
			{"fresh-dep/relid", "image relationship ids depend on existing ids", ruleFreshRelIDImage},
			{"config-pure", "image API never writes into the caller's ImageConfig/ImageSize (mutation summaries)", ruleConfigPure},
			{"alloc-scans-all", "the relationship id allocator's scanning loop has no early exit", ruleAllocScansAll},
			{"alloc-append-atomic", "between taking a relationship id from the allocator and adding the relationship that carries it, nothing runs that can add another relationship (which would be given the same id)", ruleAllocAppendAtomic},
			{"counter-numeric", "the restored image counter is a numeric maximum, not a lexicographic one", ruleCounterNumeric},
			{"counter-monotonic", "the image counter only ever increases after Open", ruleCounterMonotonic("Document")},
			{"rel-append-only", "image relationships are only ever added: the relationship an earlier picture resolves through is never removed or rewritten", ruleRelAppendOnly},
			{"part-pass/no-delete", "no media part is ever deleted from the package while drawings that are not enumerated (nested tables, content controls, headers) may still refer to it", filtered(rulePartPass, "part-pass:delete", "part-pass:no-delete")},
			{"cross-call-state", "format and pixel size handed to the image registration are those of the bytes given in this call: the template engine keeps nothing from earlier renders", ruleCrossCallStateEngine},
			{"axis-dim", "dimensional analysis over the picture axes: what is stored as a horizontal extent has unit width, as a vertical extent unit height, on every path where the unit is determined", ruleAxisDim},
			{"size-precedence", "explicit width+height is decided before the aspect-ratio flag is consulted (dominance)", ruleSizePrecedence},
			{"scale-before-trunc", "the requested millimetres are scaled to EMU before the float→integer conversion (no conversion applied to the raw size)", ruleScaleBeforeTrunc},
			{"clone-alias", "a rendered document does not share relationship, content-type or part tables with its template", ruleCloneAliasFor("Relationships", "ContentTypes", "Document")},
		},
		Assumptions: commonAssumptions,
	}
	props["C11"] = PropSpec{
		Title:       "Each header/footer kind has exactly one, current, resolvable definition",
		Explanation: "Decides: (keyed-insert) every append to a collection that is keyed (header/footer references by type, content-type overrides by part name, defaults by extension) is preceded by a search for the key whose equal branch returns or overwrites; (kind-injective) the three kinds map to pairwise distinct part names; (ref-flow) the reference carries the id of the relationship just created; header/footer references are read back (schema) and cloned (clone-cover).",
		NotDecided:  "that the part content equals the most recent call's formatting (value-level)",
		Rules: []Rule{
			{"keyed-insert", "find-or-replace before append on keyed collections", func(r *Run) { ruleKeyedInsert(r, nil) }},
			{"kind-injective", "getFileNameForType maps kinds to distinct constants", ruleKindInjective},
			{"ref-flow", "reference id = relationship id", ruleRefFlowHF},
			{"rel-keep", "the reader keeps every relationship of the main part: the (newest) relationship a header/footer reference resolves through is not dropped on reopen", filtered(rulePartPass, "rel-keep")},
			{"rel-attach (header/footer)", "every header/footer relationship the Add* calls create is added to the document's relationship list on every path and targets the part written in the same call", filtered(ruleRelAttach, ":header", ":footer")},
			{"clone-alias", "rendered documents do not share header/footer reference objects with the template", ruleCloneAliasFor("SectionProperties", "HeaderFooterReference", "FooterReference")},
			{"alloc-scans-all", "the relationship id allocator's scanning loop has no early exit", ruleAllocScansAll},
			{"alloc-append-atomic", "between taking a relationship id from the allocator and adding the relationship that carries it, nothing runs that can add another relationship (which would be given the same id)", ruleAllocAppendAtomic},
			{"rel-serialise-all", "every relationship of the in-memory list (the newest header/footer relationship included) is written to the relationship part on save", ruleRelSerialiseAll},
			{"rel-append-only", "relationships are only ever added: the relationship the current reference of a kind resolves through is never removed or rewritten by a later call or by saving", ruleRelAppendOnly},
			{"part-pass/no-delete", "no part is ever deleted from the package: the header/footer part a reference resolves to stays (a second definition of a kind overwrites the part, it does not orphan it)", filtered(rulePartPass, "part-pass:delete", "part-pass:no-delete")},
			{"sectpr-singleton", "header/footer calls find the one section-properties element wherever it is (full search before a new one is appended)", ruleSectPrSingleton},
			{"fresh-dep/relid", "header/footer relationship ids are computed from the ids already in the list, with one allocation scheme for all relationships of that list (a private counter next to list-scanning allocators falls behind)", ruleFreshRelID},
		},
		Assumptions: commonAssumptions,
	}
	props["C12"] = PropSpec{
		Title:       "Page-setting calls change only what they name, and settings read back as set",
		Explanation: "Decides: (field-bij) for every PageSettings field GetPageSettings computes from section XML attributes, SetPageSettings writes those attributes from that very field, with inverse unit conversions, and every field Set consumes is read back; (inv-dep) because the written width/height depend on Orientation, the read-back custom width/height must depend on w:orient; (setter-scope) each convenience setter stores exactly the fields it names, from its arguments, on the object returned by GetPageSettings, and passes it to SetPageSettings; (err-atomic) no page setter writes before a failure return.",
		NotDecided:  "rounding, the 1 mm recognition tolerance, range bounds (numeric)",
		Rules: []Rule{
			{"field-bij/inv-dep", "set/get field maps are inverse (dependence slices with control dependence)", ruleFieldBij},
			{"setter-scope", "convenience setters touch only their fields", ruleSetterScope},
			{"err-atomic", "validate before write", ruleErrAtomicPage},
			{"round-nearest", "mm→twips on the write path rounds to nearest (no truncating conversion)", ruleRoundNearest},
			{"sectpr-singleton", "page-setting calls find the one section-properties element wherever it is (full search before a new one is appended)", ruleSectPrSingleton},
			{"xml-object-total", "pgSz/pgMar/docGrid are rebuilt (or fully reassigned) by every SetPageSettings", ruleXMLObjectTotal},
			{"schema-read/attr (section)", "the reader fills every attribute of pgSz, pgMar and docGrid from the attribute of the same name (same values after save and reopen)", filtered(ruleSchema, "PageSizeXML.", "PageMargin.", "DocGrid.", "SectionProperties.PageSize", "SectionProperties.PageMargins", "SectionProperties.DocGrid")},
		},
		Assumptions: commonAssumptions,
	}
	props["C13"] = PropSpec{
		Title:       "Everything a document refers to by id is defined in the same package",
		Explanation: "Decides: (style-id) every constant or bounded-integer-pattern style id the library itself writes into w:pStyle / w:tblStyle (and every exported table-style-template constant) is a StyleID registered by style.NewStyleManager(); (part-dep) the styles part is regenerated from the registry on every successful path of serializeStyles and the regenerated numbering part depends on the document's own state; (must-update) getOrCreateNumbering registers the instance and regenerates the part on every path and the instance refers to the abstract definition selected in that call.",
		NotDecided:  "ids in opened foreign documents; ids passed in by the caller",
		Rules: []Rule{
			{"registry-keeps", "nothing is ever removed from the numbering registry (ids in use cannot be enumerated by the library: list paragraphs live in nested tables, content controls, headers)", ruleRegistryKeeps},
			{"style-id", "emitted style ids ⊆ registry (constant-set inclusion with loop/range expansion)", func(r *Run) { ruleStyleID(r, "") }},
			{"exists-by-id", "a predicate wrapping the registry's id look-up that guards a style reference says yes only on the found-edge of that look-up", ruleExistsByID},
			{"lookup-guarded", "an id that was looked up in the style registry and not found is not written as a style reference on that path", ruleLookupGuarded},
			{"part-dep", "regenerated parts depend on registry / replaced part", rulePartDep},
			{"must-update", "registrations on every path", ruleMustUpdate},
			{"part-from-registry", "regenerated styles/numbering parts contain every registry entry (unfiltered range loop)", rulePartFromRegistry("stylesXML", "Numbering")},
			{"clone-cover (registries)", "the per-document note and numbering registries are copied field by field when a document is derived from another (a flag or counter left behind desynchronises ids and parts)", filtered(ruleCloneDocument, "FootnoteManager", "NumberingManager")},
			{"registry-key-fresh", "ids under which notes and numbering instances are registered come from a counter of the registry, never from its current size", ruleRegistryKeyFresh},
			{"save-sibling", "both package producers (Save and ToBytes) run the same part-regenerating calls: a part flushed by only one of them is stale in the other's output", ruleSaveSibling},
		},
		Assumptions: append([]string{"unbounded integer parts of a style-id pattern are expanded over heading/TOC levels 1..9"}, commonAssumptions...),
	}
	props["C14"] = PropSpec{
		Title:       "Style inheritance resolves to the nearest definition and always terminates",
		Explanation: "Decides: (merge-cover/prec) the merge functions carry every field of their struct from both arguments, the parent's value only where the child's is nil, the child being the argument that does not come from the recursive resolution; (resolve-recursive) the parent handed to the merge is itself resolved with inheritance; (recur-guard) recursion along based-on carries a visited set or depth bound; (no-registry-write) lookup functions never write through the registry; (clone-cover/alias) StyleManager.Clone and its helpers copy every field and share nothing.",
		NotDecided:  "nothing value-level is claimed",
		Rules: []Rule{
			{"merge-cover/prec", "per-field coverage and precedence (nil-test regions)", ruleMerge},
			{"recur-guard", "based-on recursion guarded", ruleRecurGuard},
			{"no-registry-write", "lookups are read-only (mutation summaries)", ruleNoRegistryWrite},
			{"clone-cover/alias", "style clone complete and alias-free", ruleCloneStyle},
		},
		Assumptions: commonAssumptions,
	}
	props["C15"] = PropSpec{
		Title:       "Lists, notes and tables of contents reflect exactly the calls made",
		Explanation: "Decides: (memo-key) the key under which an abstract numbering definition is memoised contains every ListConfig field the memoised computation reads; (global-state) the note and numbering registries from which parts are rebuilt are not process-wide; (must-update) numbering registrations happen on every path.",
		NotDecided:  "TOC content and idempotence, note texts and counts (runtime values)",
		Rules: []Rule{
			{"memo-key", "memo key ⊇ inputs of the memoised function", ruleMemoKey},
			{"global-state", "note/numbering registries are per document", func(r *Run) {
				ruleGlobalState(r, map[string]bool{"globalFootnoteManager": true, "globalNumberingManager": true})
			}},
			{"must-update", "registrations on every path", ruleMustUpdate},
			{"part-from-registry", "regenerated notes/numbering parts contain every registry entry (unfiltered range loop over the registry map)", rulePartFromRegistry("Footnotes", "Endnotes", "Numbering")},
			{"toc-config-flow", "functions given a TOC configuration collect headings with that configuration's level on every path", ruleTOCConfigFlow},
			{"counter-monotonic", "note and numbering id counters only ever increase", ruleCounterMonotonic("FootnoteManager", "NumberingManager")},
			{"item-config-flow", "each list item's numbering comes from that item's own configuration on every path", ruleItemConfigFlow},
			{"registry-key-fresh", "ids under which notes and numbering instances are registered come from a counter of the registry, never from its current size", ruleRegistryKeyFresh},
			{"save-sibling", "both package producers (Save and ToBytes) run the same part-regenerating calls (notes and numbering parts flushed by only one of them are stale in the other's output)", ruleSaveSibling},
			{"heading-per-element", "whether a heading becomes a TOC entry depends on that heading and the requested level only (no loop-carried filter in the collecting loops)", ruleHeadingPerElement},
			{"toc-entry-per-heading", "every iteration of a loop over the collected headings adds its entry to the table of contents", ruleTOCEntryPerHeading},
			{"clone-cover (registries)", "the per-document note and numbering registries are copied field by field when a document is derived from another", filtered(ruleCloneDocument, "FootnoteManager", "NumberingManager")},
		},
		Assumptions: commonAssumptions,
	}
	props["C16"] = PropSpec{
		Title:       "Text templates render according to the documented substitution semantics",
		Explanation: "Decides: (regex-lazy) no capture group that is read from a submatch can only ever be empty (lazy quantifier with nothing after it that must match, decided on the regexp/syntax tree); (pass-order) no directive-interpreting pass re-scans text into which an earlier pass inserted data values; (closure-ret) a substitution closure returns the matched placeholder unchanged when the variable is absent.",
		NotDecided:  "everything else about what the regular expressions match (nesting, adjacency, greedy interaction)",
		Rules: []Rule{
			{"regex-lazy", "always-empty capture groups that are consumed", ruleRegexLazy},
			{"nested-match", "a loop that skips from closing tag to closing tag to find the matching {{/each}} also searches for opening tags inside that loop (CFG cycles)", ruleNestedMatch},
			{"regex-dotall-nested", "a pattern applied to text captured by a dot-all group is itself dot-all (regexp/syntax trees + data flow from the submatch)", ruleRegexDotallNested},
			{"pass-order", "value-inserting passes precede no directive-interpreting pass", rulePassOrder},
			{"closure-ret", "unknown variables stay", ruleClosureRet},
			{"regex-repl-literal", "run-time strings never become an expanding regexp replacement ($-interpretation)", ruleRegexReplLiteral},
			{"nested-untainted", "nested loop expansion happens before the item's scalar fields are substituted (data-flow)", ruleNestedUntainted},
			{"token-agreement", "block openers are recognised by the compiled pattern only (no second hand-written recogniser)", ruleTokenAgreement},
			{"scope-precedence", "a scope map filled from a loop item and from the outer variables lets the item's fields win", ruleScopePrecedence},
			{"load-parses", "every successful return of LoadTemplate / LoadTemplateFromDocument has passed the parse step that links the template to its parent", ruleLoadParses},
			{"line-verbatim", "the run text created for a rendered line is the line itself (no trimming on the data path)", ruleLineVerbatim},
			{"pass-unconditional", "no directive pass of renderTemplate is skipped under a condition on the Template object (its own parse) rather than on the rendered text", rulePassUnconditional},
			{"cross-call-state", "the engine keeps no render results between calls except its guarded template cache", ruleCrossCallStateEngine},
		},
		Assumptions: append([]string{"RE2 leftmost-first semantics as documented by package regexp"}, commonAssumptions...),
	}
	props["C17"] = PropSpec{
		Title:       "Template rendering is pure, repeatable and safe to use concurrently",
		Explanation: "Decides: (lock) every access to the engine's guarded fields happens with the mutex held in the accessing function or in every caller (write access needs the write lock), and every acquisition is released on all exits; (publish-immut) no function writes Template/TemplateBlock memory it did not create — in particular a template obtained from the cache is never passed to a writer; (render-pure) the render entry points never write through their data or template parameters and never pass template.BaseDoc to a function that writes through it; (clone-pure) clone functions never write to their source.",
		NotDecided:  "equality of concurrent and sequential results beyond race freedom of the engine's own state; aliasing between a rendered document and its base through shallow-copied sub-objects",
		Rules: []Rule{
			{"lock", "lock discipline on TemplateEngine fields", ruleLock},
			{"publish-immut", "published templates are immutable", rulePublishImmut},
			{"render-pure", "rendering writes only the clone", ruleRenderPure},
			{"load-parses", "every successful template load has passed the parse step: the parent link is the one of this load, not of an earlier one", ruleLoadParses},
			{"clone-pure", "clone functions do not write their source", ruleClonePure},
			{"render-cache-free", "the rendering of a looked-up template never consults the template cache again (reachability)", ruleRenderCacheFree},
			{"clone-alias", "the clone shares no library-mutable object with the base document", ruleCloneAliasFor()},
			{"cross-call-state", "the engine keeps no render results between calls except its guarded template cache", ruleCrossCallStateEngine},
		},
		Assumptions: commonAssumptions,
	}
	props["C18"] = PropSpec{
		Title:       "Rendering a document template changes only its placeholders",
		Explanation: "Decides: (clone-cover/map) every clone function of the template engine sets every field of every struct it constructs from the same-named source field — a field missing from a clone is content or formatting silently dropped from every rendered document; (raw-xml) header/footer substitution escapes values with an encoding/xml escaper; (closure-ret) placeholders without data stay visible.",
		NotDecided:  "placeholder location across run boundaries (byte offsets), row expansion contents, which run's formatting a value inherits",
		Rules: []Rule{
			{"range-copy", "the address of a by-value range variable never reaches a function that assigns to its fields without the variable being written back (an in-place update of a table cell, row or paragraph would be applied to a copy and lost)", ruleRangeCopy},
			{"clone-cover/map", "clone functions cover every field (object groups over access paths)", ruleCloneDocument},
			{"raw-xml", "values spliced into header/footer XML are escaped", ruleRawXMLSplice},
			{"closure-ret", "unknown variables stay", ruleClosureRet},
			{"regex-repl-literal", "values never become an expanding regexp replacement ($-interpretation)", ruleRegexReplLiteral},
			{"prefix-append", "no append of new elements to a prefix of a slice whose tail is still needed", rulePrefixAppend},
			{"split-aware", "tests for template syntax on the document-template path are made on joined text, never on a single run's text", ruleSplitAware},
			{"runs-kept", "helpers that map a run list to a run list keep every run (collects-all analysis)", ruleRunsKept},
			{"scope-precedence", "a scope map filled from a loop item and from the outer variables lets the item's fields win", ruleScopePrecedence},
		},
		Assumptions: commonAssumptions,
	}
	props["C19"] = PropSpec{
		Title:       "Markdown converts to Word totally and without losing or inventing text",
		Explanation: "Decides: (dispatch-exh) every goldmark node type the parser can produce is classified; every block kind that needs its own rendering has a case in Render; every inline kind that carries its own text (no Text children) has a case in the shared text extractor; the inline renderer's default arm falls back to that extractor; (style-id) style ids the renderer emits are defined.",
		NotDecided:  "totality (no panic for any byte string: index arithmetic in the LaTeX conversion is value-level), goldmark's own behaviour, table dimensions, code indentation",
		Rules: []Rule{
			{"format-param", "no function of the Markdown renderer modifies a *TextFormat it was handed (nested emphasis must work on a copy, or the rest of the enclosing span inherits the nested formatting)", ruleFormatParam},
			{"dispatch-exh", "node-kind classification vs type switches", ruleDispatchExh},
			{"style-id", "emitted style ids ⊆ registry", func(r *Run) { ruleStyleID(r, pkgMd) }},
			{"cross-call-state", "no renderer field carries values from one block to the next except the frozen, reasoned ones", ruleCrossCallState("WordRenderer", "(*WordRenderer).Render")},
			{"softbreak", "every Text node reaches the soft-break test (must-pass-through in the Text case)", ruleSoftBreak},
			{"code-verbatim", "code block lines are taken from the source without trimming leading whitespace", ruleCodeVerbatim},
			{"child-order", "block renderers handle the children of a node in one in-order pass (no deferral of some kinds to a second loop)", ruleChildOrder},
			{"softbreak-space", "a true SoftLineBreak() always leads to the emission of a space (must-pass-through)", ruleSoftBreakSpace},
			{"fixpoint-progress", "rewrite-until-no-match loops make progress: the replacement callback never returns its argument unchanged on a feasible path", ruleFixpointProgress},
			{"source-agree", "the renderer reads node text from the very buffer that was parsed (same SSA value)", ruleSourceAgree},
			{"child-filter", "a loop over the children of a list item, block quote or document that hands children on behind a type test leaves no child of another kind unhandled", ruleChildFilter},
			{"parse-context-fresh", "a parser.Context handed to goldmark's Parse is created for that call (link reference definitions do not survive into the next conversion)", ruleParseContextFresh},
			{"segment-value", "segment text is read through Segment.Value (padding of indented code kept), never cut out of the source by raw offsets", ruleSegmentValue},
		},
		Assumptions: append([]string{"goldmark v1.7.8 node set; classification table in the checker (one reason per kind)"}, commonAssumptions...),
	}
	props["C20"] = PropSpec{
		Title:       "Word-to-Markdown export keeps reading order and text, and is stable",
		Explanation: "Decides: (export-order) paragraphs and tables are emitted from one loop over Body.Elements; (export-text) every non-empty result of the run formatter contains the run's text; (export-esc) run text passes a Markdown escaper before markers are added.",
		NotDecided:  "the export/import fixpoint as a whole",
		Rules: []Rule{
			{"single-line", "the text of a table cell loses its line breaks on every path; the text of a heading never passes a function that inserts line breaks (both are one-line constructs: a break splits the row / cuts the heading)", ruleSingleLine},
			{"export-order", "emission driven by the ordered element list", ruleExportOrder},
			{"fence-verbatim", "a function that writes a fenced code block never reaches a backslash-escaper (text between fences is literal)", ruleFenceVerbatim},
			{"export-esc/text", "run text escaped and emitted once", ruleExportEsc},
			{"export-pure", "exporting never writes into the document (mutation summaries)", ruleExportPure},
			{"pool-escape", "nothing taken from a package-level sync.Pool is returned to callers", rulePoolEscape(pkgMd)},
			{"cross-call-state", "no writer field carries content from one element to the next except the frozen, reasoned ones", ruleCrossCallState("MarkdownWriter", "(*MarkdownWriter).Write")},
			{"marshal-pure", "saving a document does not modify it: what is exported after a save is what was built", ruleMarshalPure},
			{"softbreak-space", "re-import: a soft line break (where the exporter wrapped a line at a space) always becomes a space again", ruleSoftBreakSpace},
			{"export-all-cells", "every cell of every table row is exported: cells are visited by a range over the row's own cell list", ruleExportAllCells},
		},
		Assumptions: commonAssumptions,
	}
}
