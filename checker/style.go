package main

import (
	"fmt"
	"go/token"
	"go/types"

	"golang.org/x/tools/go/ssa"
)

// ---------------------------------------------------------------------------
// R-MERGE-COVER / R-MERGE-PREC (C14)
// ---------------------------------------------------------------------------

// mergeFns: functions f(a, b *T) *T in pkg/style (T a module struct) that allocate a T.
func discoverMerges(p *Program) []*ssa.Function {
	var out []*ssa.Function
	for _, fn := range p.ModFuncs() {
		if fn.Parent() != nil || fn.Pkg == nil || fn.Pkg.Pkg.Path() != pkgSty || fn.Signature.Recv() != nil {
			continue
		}
		if len(fn.Params) == 2 && fn.Signature.Results().Len() == 0 && inPlaceMergeDst(p, fn) >= 0 {
			out = append(out, fn) // fill-in-place form: inherit(dst, ancestor *T)
			continue
		}
		if len(fn.Params) != 2 || fn.Signature.Results().Len() != 1 {
			continue
		}
		t := isModStruct(p, fn.Params[0].Type())
		if t == nil || isModStruct(p, fn.Params[1].Type()) != t || isModStruct(p, fn.Signature.Results().At(0).Type()) != t {
			continue
		}
		out = append(out, fn)
	}
	return out
}

// nilTests: If instructions testing `load(&P.f) != nil` (or == nil) for parameter P.
type nilTest struct {
	Param    ssa.Value
	Field    *types.Var
	NonNil   map[*ssa.BasicBlock]bool // region where the field is known non-nil
	NilBlock map[*ssa.BasicBlock]bool // region where the field is known nil
}

func fieldNilTests(fn *ssa.Function) []nilTest {
	var out []nilTest
	for _, b := range fn.Blocks {
		if len(b.Instrs) == 0 {
			continue
		}
		iff, ok := b.Instrs[len(b.Instrs)-1].(*ssa.If)
		if !ok {
			continue
		}
		bin, ok := iff.Cond.(*ssa.BinOp)
		if !ok || (bin.Op != token.NEQ && bin.Op != token.EQL) {
			continue
		}
		var v ssa.Value
		if isNilConst(bin.Y) {
			v = bin.X
		} else if isNilConst(bin.X) {
			v = bin.Y
		} else {
			continue
		}
		chain, root := addrChain(v)
		if len(chain) != 1 || chain[0] == nil {
			continue
		}
		if _, ok := root.(*ssa.Parameter); !ok {
			continue
		}
		t, f := b.Succs[0], b.Succs[1]
		if bin.Op == token.EQL {
			t, f = f, t
		}
		out = append(out, nilTest{Param: root, Field: chain[0], NonNil: edgeRegion(b, t), NilBlock: edgeRegion(b, f)})
	}
	return out
}

// edgeRegion: blocks that can only be reached through the edge from→to.
func edgeRegion(from, to *ssa.BasicBlock) map[*ssa.BasicBlock]bool {
	if len(to.Preds) == 1 {
		return domSubtree(to)
	}
	return map[*ssa.BasicBlock]bool{}
}

// ---------------------------------------------------------------------------
// R-RECUR-GUARD: recursion along based-on must be guarded by a visited set or depth.
// ---------------------------------------------------------------------------

func ruleRecurGuard(r *Run) {
	p := r.P
	n := 0
	for _, fn := range p.ModFuncs() {
		if fn.Pkg == nil || fn.Pkg.Pkg.Path() != pkgSty {
			continue
		}
		// direct or mutual recursion through static calls inside pkg/style
		var recCalls []*ssa.Call
		allInstrs(fn, func(in ssa.Instruction) {
			if c, ok := in.(*ssa.Call); ok {
				cal := staticCallee(c)
				if cal == nil {
					return
				}
				if cal == fn || (p.inModule(cal) && p.staticReach(cal)[fn]) {
					recCalls = append(recCalls, c)
				}
			}
		})
		if len(recCalls) == 0 {
			continue
		}
		n++
		// guarded if the function (or a caller-supplied parameter) carries a map that is both
		// consulted and updated, or an integer that strictly changes across the call and is compared.
		guarded := false
		detail := "no visited set and no depth bound: a cycle in the based-on graph recurses forever"
		for _, par := range fn.Params {
			switch par.Type().Underlying().(type) {
			case *types.Map:
				looked, updated := false, false
				allInstrs(fn, func(in ssa.Instruction) {
					switch x := in.(type) {
					case *ssa.Lookup:
						if x.X == ssa.Value(par) {
							looked = true
						}
					case *ssa.MapUpdate:
						if x.Map == ssa.Value(par) {
							updated = true
						}
					}
				})
				if looked && updated {
					guarded = true
					detail = "visited-set parameter " + par.Name() + " is consulted and updated"
				}
			case *types.Basic:
				if b := par.Type().Underlying().(*types.Basic); b.Info()&types.IsInteger != 0 {
					compared, stepped := false, false
					allInstrs(fn, func(in ssa.Instruction) {
						if bo, ok := in.(*ssa.BinOp); ok {
							if bo.X == ssa.Value(par) || bo.Y == ssa.Value(par) {
								switch bo.Op {
								case token.LSS, token.GTR, token.LEQ, token.GEQ, token.EQL, token.NEQ:
									compared = true
								case token.ADD, token.SUB:
									for _, rc := range recCalls {
										for _, a := range rc.Call.Args {
											if a == ssa.Value(bo) {
												stepped = true
											}
										}
									}
								}
							}
						}
					})
					if compared && stepped {
						guarded = true
						detail = "depth parameter " + par.Name() + " is compared and stepped"
					}
				}
			}
		}
		// is the recursion data-driven through a registry lookup?  (argument derived from a field of
		// an object obtained from a map)
		r.Check("recur-guard", shortName(fn), recCalls[0].Pos(), guarded,
			fmt.Sprintf("%s calls itself at %s; %s", shortName(fn), p.pos(recCalls[0].Pos()), detail))
	}
	r.Count("recursive_style_functions", n)
	// The same walk written as a loop: `for { s = registry[s.BasedOn.Val] … }`.  A loop that follows
	// based-on (it reads Style.BasedOn and is not a range over a finite collection) needs a visited
	// set that it consults and extends, or a step counter with a bound — stopping only "when the walk
	// is back at the start" does not terminate on a cycle that does not contain the start.
	nl := 0
	for _, fn := range p.ModFuncs() {
		if fn.Pkg == nil || (fn.Pkg.Pkg.Path() != pkgSty && fn.Pkg.Pkg.Path() != pkgDoc) {
			continue
		}
		for li, l := range naturalLoops(fn) {
			if rangeOf(l) != nil || isBoundedRange(l) {
				continue
			}
			readsBasedOn := false
			for b := range l.Body {
				for _, in := range b.Instrs {
					var fv *types.Var
					switch x := in.(type) {
					case *ssa.FieldAddr:
						fv, _ = fieldOfAddr(x)
					case *ssa.Field:
						fv, _ = fieldOfVal(x)
					}
					if fv != nil && fv.Name() == "BasedOn" {
						if o := fieldOwner(p, fv); o != nil && o.Obj().Pkg().Path() == pkgSty && o.Obj().Name() == "Style" {
							readsBasedOn = true
						}
					}
				}
			}
			if !readsBasedOn {
				continue
			}
			nl++
			guard := ""
			// (a) a map consulted and updated inside the loop
			looked, updated := map[string]bool{}, map[string]bool{}
			for b := range l.Body {
				for _, in := range b.Instrs {
					switch x := in.(type) {
					case *ssa.Lookup:
						if _, isMap := x.X.Type().Underlying().(*types.Map); isMap {
							looked[mapIdent(x.X)] = true
						}
					case *ssa.MapUpdate:
						updated[mapIdent(x.Map)] = true
					}
				}
			}
			for k := range looked {
				if updated[k] && k != "" {
					guard = "a visited set (map) is consulted and extended on every step"
				}
			}
			// (b) an integer counter of the loop, stepped in the body and compared
			if guard == "" {
				for _, in := range l.Header.Instrs {
					ph, ok := in.(*ssa.Phi)
					if !ok {
						continue
					}
					if bt, ok := ph.Type().Underlying().(*types.Basic); !ok || bt.Info()&types.IsInteger == 0 {
						continue
					}
					stepped, compared := false, false
					for _, e := range ph.Edges {
						if bo, ok := e.(*ssa.BinOp); ok && (bo.Op == token.ADD || bo.Op == token.SUB) && bo.X == ssa.Value(ph) && l.Body[bo.Block()] {
							stepped = true
						}
					}
					if ph.Referrers() != nil {
						for _, u := range *ph.Referrers() {
							if bo, ok := u.(*ssa.BinOp); ok && l.Body[bo.Block()] {
								switch bo.Op {
								case token.LSS, token.GTR, token.LEQ, token.GEQ:
									compared = true
								}
							}
						}
					}
					if stepped && compared {
						guard = "a step counter is advanced and compared with a bound"
					}
				}
			}
			// (c) a list of the ids seen so far, searched and extended
			if guard == "" {
				appended := map[string]bool{}
				searched := map[string]bool{}
				for b := range l.Body {
					for _, in := range b.Instrs {
						if c, ok := in.(*ssa.Call); ok {
							if bi, ok := c.Call.Value.(*ssa.Builtin); ok && bi.Name() == "append" && len(c.Call.Args) > 0 {
								if sl, ok := c.Call.Args[0].Type().Underlying().(*types.Slice); ok && isStringType(sl.Elem()) {
									appended["[]string"] = true
								}
							}
						}
					}
				}
				for _, inner := range naturalLoops(fn) {
					if inner == l || !l.Body[inner.Header] {
						continue
					}
					if ri := rangeOf(inner); ri != nil {
						if sl, ok := ri.X.Type().Underlying().(*types.Slice); ok && isStringType(sl.Elem()) {
							searched["[]string"] = true
						}
					}
				}
				if appended["[]string"] && searched["[]string"] {
					guard = "a list of the ids already followed is searched and extended on every step"
				}
			}
			r.Check("recur-guard", fmt.Sprintf("%s:loop#%d", shortName(fn), li), l.Header.Instrs[0].Pos(), guard != "",
				fmt.Sprintf("%s follows the based-on chain in a loop; %s", shortName(fn), map[bool]string{true: guard, false: "it keeps neither a visited set nor a step bound: a based-on cycle (one that need not contain the style the walk started from) makes it spin forever"}[guard != ""]))
		}
	}
	r.Count("based_on_following_loops", nl)
}

// mapIdent: identity of a map value for "the same map": the access path of a field/variable, or the
// SSA value's name for locals.
func mapIdent(v ssa.Value) string {
	if ld, ok := v.(*ssa.UnOp); ok && ld.Op == token.MUL {
		return pathString(ld.X)
	}
	if ph, ok := v.(*ssa.Phi); ok {
		// a map that is created lazily (nil until needed) merges at a phi: identify by the phi's comment
		return "phi:" + ph.Comment
	}
	return v.Name()
}

// ---------------------------------------------------------------------------
// R-NO-REGISTRY-WRITE: style lookups never write the registry.
// ---------------------------------------------------------------------------

func ruleNoRegistryWrite(r *Run) {
	p := r.P
	ms := newMutSummary(p, true)
	names := []string{"(*StyleManager).GetStyleWithInheritance", "(*StyleManager).GetStyle", "(*StyleManager).GetAllStyles", "(*StyleManager).StyleExists",
		"(*StyleManager).GetHeadingStyles", "(*StyleManager).Clone", "(*StyleManager).GetStylesByType",
		"(*QuickStyleAPI).GetStyleInfo", "(*QuickStyleAPI).GetAllStylesInfo", "(*QuickStyleAPI).GetStylesByType",
		"(*QuickStyleAPI).GetParagraphStylesInfo", "(*QuickStyleAPI).GetCharacterStylesInfo", "(*QuickStyleAPI).GetHeadingStylesInfo",
		"(*StyleManager).ApplyStyleToXML"}
	n := 0
	for _, nm := range names {
		fn := p.Func(pkgSty, nm)
		if fn == nil {
			continue
		}
		n++
		sites := ms.Params(fn)[0]
		detail := "no store through the receiver (registry) in this function or its callees"
		if len(sites) > 0 {
			s := sites[0]
			detail = fmt.Sprintf("%s may write registry memory at %s (in %s)", shortName(fn), p.pos(s.Instr.Pos()), shortName(s.Fn))
		}
		r.Check("no-registry-write", shortName(fn), fn.Pos(), len(sites) == 0, detail)
	}
	r.Min("style_lookup_functions", n, 8)
}

// inPlaceMergeDst: fn(dst, src *T) has no result, T is a property bag, and fn stores into the fields
// of exactly one of its parameters (dst) and never into the other.  Returns the index of dst, -1
// when fn is not of that form.
func inPlaceMergeDst(p *Program, fn *ssa.Function) int {
	if len(fn.Params) != 2 || fn.Signature.Results().Len() != 0 || len(fn.Blocks) == 0 {
		return -1
	}
	t := isModStruct(p, fn.Params[0].Type())
	if t == nil || isModStruct(p, fn.Params[1].Type()) != t {
		return -1
	}
	if _, isPtr := fn.Params[0].Type().Underlying().(*types.Pointer); !isPtr {
		return -1
	}
	st, ok := t.Underlying().(*types.Struct)
	if !ok || !isPropertyBag(st) {
		return -1
	}
	written := map[int]bool{}
	allInstrs(fn, func(in ssa.Instruction) {
		if s, ok := in.(*ssa.Store); ok {
			if fa, ok := s.Addr.(*ssa.FieldAddr); ok {
				for i, q := range fn.Params {
					if fa.X == ssa.Value(q) {
						written[i] = true
					}
				}
			}
		}
	})
	if len(written) != 1 {
		return -1
	}
	for i := range written {
		return i
	}
	return -1
}
