package main

import (
	"fmt"
	"go/token"
	"go/types"

	"golang.org/x/tools/go/ssa"
)

// ---------------------------------------------------------------------------
// R-MERGE-COVER / R-MERGE-PREC (C14)
// ---------------------------------------------------------------------------

// mergeFns: functions f(a, b *T) *T in pkg/style (T a module struct) that allocate a T.
func discoverMerges(p *Program) []*ssa.Function {
	var out []*ssa.Function
	for _, fn := range p.ModFuncs() {
		if fn.Parent() != nil || fn.Pkg == nil || fn.Pkg.Pkg.Path() != pkgSty || fn.Signature.Recv() != nil {
			continue
		}
		if len(fn.Params) != 2 || fn.Signature.Results().Len() != 1 {
			continue
		}
		t := isModStruct(p, fn.Params[0].Type())
		if t == nil || isModStruct(p, fn.Params[1].Type()) != t || isModStruct(p, fn.Signature.Results().At(0).Type()) != t {
			continue
		}
		out = append(out, fn)
	}
	return out
}

// nilTests: If instructions testing `load(&P.f) != nil` (or == nil) for parameter P.
type nilTest struct {
	Param    ssa.Value
	Field    *types.Var
	NonNil   map[*ssa.BasicBlock]bool // region where the field is known non-nil
	NilBlock map[*ssa.BasicBlock]bool // region where the field is known nil
}

func fieldNilTests(fn *ssa.Function) []nilTest {
	var out []nilTest
	for _, b := range fn.Blocks {
		if len(b.Instrs) == 0 {
			continue
		}
		iff, ok := b.Instrs[len(b.Instrs)-1].(*ssa.If)
		if !ok {
			continue
		}
		bin, ok := iff.Cond.(*ssa.BinOp)
		if !ok || (bin.Op != token.NEQ && bin.Op != token.EQL) {
			continue
		}
		var v ssa.Value
		if isNilConst(bin.Y) {
			v = bin.X
		} else if isNilConst(bin.X) {
			v = bin.Y
		} else {
			continue
		}
		chain, root := addrChain(v)
		if len(chain) != 1 || chain[0] == nil {
			continue
		}
		if _, ok := root.(*ssa.Parameter); !ok {
			continue
		}
		t, f := b.Succs[0], b.Succs[1]
		if bin.Op == token.EQL {
			t, f = f, t
		}
		out = append(out, nilTest{Param: root, Field: chain[0], NonNil: edgeRegion(b, t), NilBlock: edgeRegion(b, f)})
	}
	return out
}

// edgeRegion: blocks that can only be reached through the edge from→to.
func edgeRegion(from, to *ssa.BasicBlock) map[*ssa.BasicBlock]bool {
	if len(to.Preds) == 1 {
		return domSubtree(to)
	}
	return map[*ssa.BasicBlock]bool{}
}

func ruleMerge(r *Run) {
	p := r.P
	merges := discoverMerges(p)
	r.Min("merge_functions", len(merges), 2)
	// who is the child? determined at the call sites inside the based-on resolver: the
	// argument derived from the recursive call's result is the parent.
	// the resolver is whoever calls a merge function with one argument obtained by resolving the
	// parent recursively (role, not name)
	childIdx := map[*ssa.Function]int{}
	recursiveParent := map[*ssa.Function]bool{}
	isMergeFn := map[*ssa.Function]bool{}
	for _, m := range merges {
		isMergeFn[m] = true
	}
	for _, resolver := range p.ModFuncs() {
		if resolver.Pkg == nil || resolver.Pkg.Pkg.Path() != pkgSty {
			continue
		}
		allInstrs(resolver, func(in ssa.Instruction) {
			c, ok := in.(*ssa.Call)
			if !ok {
				return
			}
			cal := staticCallee(c)
			if !isMergeFn[cal] {
				return
			}
			for i, a := range c.Call.Args {
				fromRec := false
				for rt := range rootsOf(a) {
					if rc, ok := rt.(*ssa.Call); ok {
						if rcal := staticCallee(rc); rcal != nil && (rcal == resolver || p.staticReach(rcal)[resolver]) {
							fromRec = true
						}
					}
				}
				if fromRec {
					recursiveParent[cal] = true
				} else {
					childIdx[cal] = i
				}
			}
		})
	}
	for _, m := range merges {
		if _, called := childIdx[m]; called {
			r.Check("resolve-recursive", shortName(m), m.Pos(), recursiveParent[m],
				"the parent handed to "+shortName(m)+" must itself be resolved with inheritance (result of the recursive resolution), otherwise settings of grandparents are lost")
			if !recursiveParent[m] {
				delete(childIdx, m)
			}
		}
	}
	nf := 0
	for _, fn := range merges {
		ci, ok := childIdx[fn]
		if !ok {
			r.Undecided("merge-prec", shortName(fn), fn.Pos(), "cannot tell which argument is the child style: no caller passes one argument derived from a recursive resolution")
			continue
		}
		child, parent := ssa.Value(fn.Params[ci]), ssa.Value(fn.Params[1-ci])
		t := isModStruct(p, fn.Params[0].Type())
		st := t.Underlying().(*types.Struct)
		tests := fieldNilTests(fn)
		// stores into the merged object
		type stinfo struct {
			from  ssa.Value
			block *ssa.BasicBlock
			pos   token.Pos
		}
		stores := map[*types.Var][]stinfo{}
		allInstrs(fn, func(in ssa.Instruction) {
			s, ok := in.(*ssa.Store)
			if !ok {
				return
			}
			chain, root := addrChain(s.Addr)
			if len(chain) != 1 || chain[0] == nil {
				return
			}
			if _, isAlloc := root.(*ssa.Alloc); !isAlloc {
				return
			}
			vchain, vroot := valueChain(s.Val)
			if len(vchain) == 1 && vchain[0] == chain[0] {
				stores[chain[0]] = append(stores[chain[0]], stinfo{vroot, s.Block(), s.Pos()})
			} else {
				stores[chain[0]] = append(stores[chain[0]], stinfo{nil, s.Block(), s.Pos()})
			}
		})
		for i := 0; i < st.NumFields(); i++ {
			fv := st.Field(i)
			if fv.Name() == "XMLName" {
				continue
			}
			nf++
			key := shortName(fn) + ":" + fv.Name()
			var fromChild, fromParent []stinfo
			for _, s := range stores[fv] {
				if s.from == child {
					fromChild = append(fromChild, s)
				}
				if s.from == parent {
					fromParent = append(fromParent, s)
				}
			}
			if len(fromChild) == 0 || len(fromParent) == 0 {
				r.Check("merge-cover", key, fv.Pos(), false,
					fmt.Sprintf("%s does not carry field %s over from %s: the attribute is silently not inherited", shortName(fn), fv.Name(),
						map[bool]string{true: "both styles", false: map[bool]string{true: "the child", false: "the parent"}[len(fromChild) == 0]}[len(fromChild) == 0 && len(fromParent) == 0]))
				continue
			}
			r.Check("merge-cover", key, fromChild[0].pos, true, "field taken from child and from parent")
			// precedence: every parent store sits in the region where child.f is nil
			okPrec := true
			why := ""
			for _, s := range fromParent {
				in := false
				for _, t := range tests {
					if t.Param == child && t.Field == fv && t.NilBlock[s.block] {
						in = true
					}
				}
				if !in {
					okPrec = false
					why = fmt.Sprintf("the parent's %s is stored at %s on a path where the child's %s is not known to be nil", fv.Name(), p.pos(s.pos), fv.Name())
				}
			}
			for _, s := range fromChild {
				// child store must not be restricted to the region where the parent's field is nil
				for _, t := range tests {
					if t.Param == parent && t.Field == fv && t.NilBlock[s.block] {
						okPrec = false
						why = fmt.Sprintf("the child's %s is only used when the parent has none (%s)", fv.Name(), p.pos(s.pos))
					}
				}
			}
			r.Check("merge-prec", key, fromParent[0].pos, okPrec, "child wins: "+map[bool]string{true: "parent value used only where the child's is nil", false: why}[okPrec])
		}
	}
	r.Min("merge_field_obligations", nf, 18)
}

// ---------------------------------------------------------------------------
// R-RECUR-GUARD: recursion along based-on must be guarded by a visited set or depth.
// ---------------------------------------------------------------------------

func ruleRecurGuard(r *Run) {
	p := r.P
	n := 0
	for _, fn := range p.ModFuncs() {
		if fn.Pkg == nil || fn.Pkg.Pkg.Path() != pkgSty {
			continue
		}
		// direct or mutual recursion through static calls inside pkg/style
		var recCalls []*ssa.Call
		allInstrs(fn, func(in ssa.Instruction) {
			if c, ok := in.(*ssa.Call); ok {
				cal := staticCallee(c)
				if cal == nil {
					return
				}
				if cal == fn || (p.inModule(cal) && p.staticReach(cal)[fn]) {
					recCalls = append(recCalls, c)
				}
			}
		})
		if len(recCalls) == 0 {
			continue
		}
		n++
		// guarded if the function (or a caller-supplied parameter) carries a map that is both
		// consulted and updated, or an integer that strictly changes across the call and is compared.
		guarded := false
		detail := "no visited set and no depth bound: a cycle in the based-on graph recurses forever"
		for _, par := range fn.Params {
			switch par.Type().Underlying().(type) {
			case *types.Map:
				looked, updated := false, false
				allInstrs(fn, func(in ssa.Instruction) {
					switch x := in.(type) {
					case *ssa.Lookup:
						if x.X == ssa.Value(par) {
							looked = true
						}
					case *ssa.MapUpdate:
						if x.Map == ssa.Value(par) {
							updated = true
						}
					}
				})
				if looked && updated {
					guarded = true
					detail = "visited-set parameter " + par.Name() + " is consulted and updated"
				}
			case *types.Basic:
				if b := par.Type().Underlying().(*types.Basic); b.Info()&types.IsInteger != 0 {
					compared, stepped := false, false
					allInstrs(fn, func(in ssa.Instruction) {
						if bo, ok := in.(*ssa.BinOp); ok {
							if bo.X == ssa.Value(par) || bo.Y == ssa.Value(par) {
								switch bo.Op {
								case token.LSS, token.GTR, token.LEQ, token.GEQ, token.EQL, token.NEQ:
									compared = true
								case token.ADD, token.SUB:
									for _, rc := range recCalls {
										for _, a := range rc.Call.Args {
											if a == ssa.Value(bo) {
												stepped = true
											}
										}
									}
								}
							}
						}
					})
					if compared && stepped {
						guarded = true
						detail = "depth parameter " + par.Name() + " is compared and stepped"
					}
				}
			}
		}
		// is the recursion data-driven through a registry lookup?  (argument derived from a field of
		// an object obtained from a map)
		r.Check("recur-guard", shortName(fn), recCalls[0].Pos(), guarded,
			fmt.Sprintf("%s calls itself at %s; %s", shortName(fn), p.pos(recCalls[0].Pos()), detail))
	}
	r.Count("recursive_style_functions", n)
}

// ---------------------------------------------------------------------------
// R-NO-REGISTRY-WRITE: style lookups never write the registry.
// ---------------------------------------------------------------------------

func ruleNoRegistryWrite(r *Run) {
	p := r.P
	ms := newMutSummary(p, true)
	names := []string{"(*StyleManager).GetStyleWithInheritance", "(*StyleManager).GetStyle", "(*StyleManager).GetAllStyles", "(*StyleManager).StyleExists",
		"(*StyleManager).GetHeadingStyles", "(*StyleManager).Clone", "(*StyleManager).GetStylesByType",
		"(*QuickStyleAPI).GetStyleInfo", "(*QuickStyleAPI).GetAllStylesInfo", "(*QuickStyleAPI).GetStylesByType",
		"(*QuickStyleAPI).GetParagraphStylesInfo", "(*QuickStyleAPI).GetCharacterStylesInfo", "(*QuickStyleAPI).GetHeadingStylesInfo",
		"(*StyleManager).ApplyStyleToXML"}
	n := 0
	for _, nm := range names {
		fn := p.Func(pkgSty, nm)
		if fn == nil {
			continue
		}
		n++
		sites := ms.Params(fn)[0]
		detail := "no store through the receiver (registry) in this function or its callees"
		if len(sites) > 0 {
			s := sites[0]
			detail = fmt.Sprintf("%s may write registry memory at %s (in %s)", shortName(fn), p.pos(s.Instr.Pos()), shortName(s.Fn))
		}
		r.Check("no-registry-write", shortName(fn), fn.Pos(), len(sites) == 0, detail)
	}
	r.Min("style_lookup_functions", n, 8)
}
