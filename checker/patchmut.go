package main

// Seeded changes (seeded/<id>/patch.diff, written by independent sub-agents and confirmed to
// break their property) and benign refactorings (benign/<id>/patch.diff) are used by the thorough
// tier as overlay variants: the unified diff is applied IN MEMORY to /repo's current files.  A
// patch whose context no longer matches the current source (the repository moved on) is skipped.

import (
	"encoding/json"
	"fmt"
	"os"
	"path/filepath"
	"sort"
	"strings"
)

type hunk struct {
	oldStart int
	old, new []string
}

type filePatch struct {
	path  string
	hunks []hunk
}

func parseUnifiedDiff(text string) []filePatch {
	var out []filePatch
	var cur *filePatch
	var h *hunk
	flush := func() {
		if cur != nil && h != nil {
			cur.hunks = append(cur.hunks, *h)
		}
		h = nil
	}
	for _, line := range strings.Split(text, "\n") {
		switch {
		case strings.HasPrefix(line, "diff --git "):
			flush()
			if cur != nil {
				out = append(out, *cur)
			}
			cur = nil
		case strings.HasPrefix(line, "+++ "):
			flush()
			if cur != nil {
				out = append(out, *cur)
			}
			p := strings.TrimPrefix(line, "+++ ")
			p = strings.TrimPrefix(p, "b/")
			cur = &filePatch{path: strings.TrimSpace(p)}
		case strings.HasPrefix(line, "--- "), strings.HasPrefix(line, "index "), strings.HasPrefix(line, "new file"), strings.HasPrefix(line, "deleted file"), strings.HasPrefix(line, "similarity "), strings.HasPrefix(line, "rename "):
		case strings.HasPrefix(line, "@@"):
			flush()
			h = &hunk{}
			fmt.Sscanf(line, "@@ -%d", &h.oldStart)
		case h != nil && strings.HasPrefix(line, " "):
			h.old = append(h.old, line[1:])
			h.new = append(h.new, line[1:])
		case h != nil && strings.HasPrefix(line, "-"):
			h.old = append(h.old, line[1:])
		case h != nil && strings.HasPrefix(line, "+"):
			h.new = append(h.new, line[1:])
		case h != nil && line == "":
			// blank context line whose leading space was stripped by an editor
			h.old = append(h.old, "")
			h.new = append(h.new, "")
		}
	}
	flush()
	if cur != nil {
		out = append(out, *cur)
	}
	return out
}

// applyPatch applies the file patches to the files under repo and returns the overlay.
func applyPatch(repo string, patches []filePatch) (map[string][]byte, error) {
	ov := map[string][]byte{}
	for _, fp := range patches {
		if strings.HasSuffix(fp.path, "_test.go") || fp.path == "/dev/null" {
			continue
		}
		abs := filepath.Join(repo, fp.path)
		b, err := os.ReadFile(abs)
		if err != nil {
			return nil, fmt.Errorf("%s: %v", fp.path, err)
		}
		lines := strings.Split(string(b), "\n")
		offset := 0
		for hi, h := range fp.hunks {
			// trailing empty strings produced by the final newline of the diff text
			for len(h.old) > 0 && len(h.new) > 0 && h.old[len(h.old)-1] == "" && h.new[len(h.new)-1] == "" && hi == len(fp.hunks)-1 {
				h.old, h.new = h.old[:len(h.old)-1], h.new[:len(h.new)-1]
			}
			want := h.oldStart - 1 + offset
			at := -1
			match := func(i int) bool {
				if i < 0 || i+len(h.old) > len(lines) {
					return false
				}
				for j, l := range h.old {
					if lines[i+j] != l {
						return false
					}
				}
				return true
			}
			if match(want) {
				at = want
			} else {
				best := -1
				for i := 0; i+len(h.old) <= len(lines); i++ {
					if match(i) {
						if best < 0 || abs1(i-want) < abs1(best-want) {
							best = i
						}
					}
				}
				at = best
			}
			// fuzz: drop up to three context lines at either end of the hunk (as patch -F3 does)
			for fuzz := 1; at < 0 && fuzz <= 3; fuzz++ {
				lead, trail := 0, 0
				for lead < fuzz && lead < len(h.old) && lead < len(h.new) && h.old[lead] == h.new[lead] {
					lead++
				}
				for trail < fuzz && trail < len(h.old)-lead && trail < len(h.new)-lead && h.old[len(h.old)-1-trail] == h.new[len(h.new)-1-trail] {
					trail++
				}
				if lead == 0 && trail == 0 {
					break
				}
				h2 := hunk{oldStart: h.oldStart + lead, old: h.old[lead : len(h.old)-trail], new: h.new[lead : len(h.new)-trail]}
				if len(h2.old) == 0 {
					break
				}
				saved := h
				h = h2
				want2 := want + lead
				best := -1
				for i := 0; i+len(h.old) <= len(lines); i++ {
					if match(i) {
						if best < 0 || abs1(i-want2) < abs1(best-want2) {
							best = i
						}
					}
				}
				if best >= 0 {
					at = best
				} else {
					h = saved
				}
			}
			if at < 0 || len(h.old) == 0 {
				return nil, fmt.Errorf("%s: hunk %d does not match the current source", fp.path, hi+1)
			}
			nl := append([]string{}, lines[:at]...)
			nl = append(nl, h.new...)
			nl = append(nl, lines[at+len(h.old):]...)
			offset += len(h.new) - len(h.old)
			lines = nl
		}
		ov[abs] = []byte(strings.Join(lines, "\n"))
	}
	if len(ov) == 0 {
		return nil, fmt.Errorf("patch touches no source file")
	}
	return ov, nil
}

func abs1(x int) int {
	if x < 0 {
		return -x
	}
	return x
}

// patchMutants lists seeded/ and benign/ patches as variants.
func patchMutants(vd string) []Mutant {
	var out []Mutant
	for _, kind := range []struct{ dir, kind string }{{"seeded", "breaking"}, {"benign", "benign"}} {
		ents, _ := os.ReadDir(filepath.Join(vd, kind.dir))
		for _, e := range ents {
			if !e.IsDir() {
				continue
			}
			d := filepath.Join(vd, kind.dir, e.Name())
			mb, err := os.ReadFile(filepath.Join(d, "meta.json"))
			if err != nil {
				continue
			}
			var meta struct {
				Property   string   `json:"property"`
				Properties []string `json:"properties"`
				Breaks     string   `json:"breaks"`
				Summary    string   `json:"summary"`
				Limitation bool     `json:"known_checker_limitation"`
			}
			if json.Unmarshal(mb, &meta) != nil {
				continue
			}
			props := meta.Property
			if len(meta.Properties) > 0 {
				props = strings.Join(meta.Properties, ",")
			}
			why := meta.Breaks
			if why == "" {
				why = meta.Summary
			}
			if len(why) > 300 {
				why = why[:300] + "…"
			}
			out = append(out, Mutant{Name: kind.dir + ":" + e.Name(), Kind: kind.kind, Prop: props, PatchFile: filepath.Join(d, "patch.diff"), Expect: "*", Why: why, KnownLimitation: meta.Limitation})
		}
	}
	sort.Slice(out, func(i, j int) bool { return out[i].Name < out[j].Name })
	return out
}
