package main

import (
	"fmt"
	"go/ast"
	"go/token"
	"go/types"
	"os"
	"sort"
	"strings"

	"golang.org/x/tools/go/callgraph"
	"golang.org/x/tools/go/callgraph/cha"
	"golang.org/x/tools/go/callgraph/vta"
	"golang.org/x/tools/go/packages"
	"golang.org/x/tools/go/ssa"
	"golang.org/x/tools/go/ssa/ssautil"
)

const (
	modPath = "github.com/zerx-lab/wordZero"
	pkgDoc  = modPath + "/pkg/document"
	pkgSty  = modPath + "/pkg/style"
	pkgMd   = modPath + "/pkg/markdown"
)

// Program is the loaded, type-checked and SSA-built view of /repo.
type Program struct {
	RepoDir string
	Fset    *token.FileSet
	Pkgs    map[string]*packages.Package // by import path, module packages only
	AllPkgs []*packages.Package
	SSA     *ssa.Program
	SSAPkg  map[string]*ssa.Package
	Funcs   map[*ssa.Function]bool // all functions (incl. closures) of module packages
	cg      *callgraph.Graph
	callers map[*ssa.Function]map[*ssa.Function]bool
	// statistics
	NInstr       int
	storedFields map[*types.Var]bool
}

type loadOpts struct {
	repo    string
	overlay map[string][]byte
	tags    string
	goarch  string
}

func loadProgram(o loadOpts) (*Program, error) {
	env := []string{}
	for _, e := range os.Environ() {
		if strings.HasPrefix(e, "GOFLAGS=") || strings.HasPrefix(e, "GOWORK=") || strings.HasPrefix(e, "GOPROXY=") ||
			strings.HasPrefix(e, "GOSUMDB=") || strings.HasPrefix(e, "GOTOOLCHAIN=") || strings.HasPrefix(e, "GOARCH=") {
			continue
		}
		env = append(env, e)
	}
	env = append(env, "GOFLAGS=-mod=mod", "GOWORK=off", "GOPROXY=off", "GOSUMDB=off", "GOTOOLCHAIN=local")
	if o.goarch != "" {
		env = append(env, "GOARCH="+o.goarch)
	}
	cfg := &packages.Config{
		Mode:    packages.LoadAllSyntax,
		Dir:     o.repo,
		Env:     env,
		Tests:   false,
		Overlay: o.overlay,
	}
	if o.tags != "" {
		cfg.BuildFlags = []string{"-tags=" + o.tags}
	}
	pkgs, err := packages.Load(cfg, "./pkg/...")
	if err != nil {
		return nil, fmt.Errorf("packages.Load: %v", err)
	}
	if len(pkgs) == 0 {
		return nil, fmt.Errorf("no packages loaded from %s", o.repo)
	}
	p := &Program{RepoDir: o.repo, Pkgs: map[string]*packages.Package{}, SSAPkg: map[string]*ssa.Package{}, Funcs: map[*ssa.Function]bool{}}
	var errs []string
	packages.Visit(pkgs, nil, func(pk *packages.Package) {
		for _, e := range pk.Errors {
			errs = append(errs, pk.PkgPath+": "+e.Error())
		}
	})
	if len(errs) > 0 {
		sort.Strings(errs)
		if len(errs) > 10 {
			errs = errs[:10]
		}
		return nil, fmt.Errorf("type/load errors: %s", strings.Join(errs, "; "))
	}
	for _, pk := range pkgs {
		p.Pkgs[pk.PkgPath] = pk
		p.Fset = pk.Fset
	}
	for _, want := range []string{pkgDoc, pkgSty, pkgMd} {
		if p.Pkgs[want] == nil {
			return nil, fmt.Errorf("package %s not loaded", want)
		}
	}
	p.AllPkgs = pkgs
	prog, ssapkgs := ssautil.AllPackages(pkgs, ssa.InstantiateGenerics)
	// Function bodies are only needed for the module's own packages: every rule treats callees
	// outside the module as opaque (by name / signature).  Building the ~100 dependency packages
	// as well costs ~1 GB of freshly faulted memory per run for nothing.
	if os.Getenv("WZ_BUILD_ALL") != "" {
		prog.Build()
	} else {
		for _, sp := range ssapkgs {
			if sp != nil && strings.HasPrefix(sp.Pkg.Path(), modPath) {
				sp.Build()
			}
		}
	}
	p.SSA = prog
	for i, sp := range ssapkgs {
		if sp != nil {
			p.SSAPkg[pkgs[i].PkgPath] = sp
		}
	}
	for fn := range ssautil.AllFunctions(prog) {
		pk := fn.Pkg
		if pk == nil && fn.Origin() != nil {
			pk = fn.Origin().Pkg // instantiation of a generic function of the module
		}
		if pk != nil && p.SSAPkg[pk.Pkg.Path()] == pk {
			p.Funcs[fn] = true
			for _, b := range fn.Blocks {
				p.NInstr += len(b.Instrs)
			}
		}
	}
	recoverRenames(p)
	gProg = p
	return p, nil
}

// gProg: the program under analysis (one per process), for helpers that are not handed it.
var gProg *Program

// CallGraph builds (lazily) the VTA call graph over the whole program.
func (p *Program) CallGraph() *callgraph.Graph {
	if p.cg == nil {
		all := ssautil.AllFunctions(p.SSA)
		p.cg = vta.CallGraph(all, cha.CallGraph(p.SSA))
	}
	return p.cg
}

// ModFuncs returns module functions sorted by position for determinism.
func (p *Program) ModFuncs() []*ssa.Function {
	var fs []*ssa.Function
	for f := range p.Funcs {
		fs = append(fs, f)
	}
	sort.Slice(fs, func(i, j int) bool {
		if fs[i].Pos() != fs[j].Pos() {
			return fs[i].Pos() < fs[j].Pos()
		}
		return fs[i].String() < fs[j].String()
	})
	return fs
}

// Func looks a function or method up by package path and name.
// name forms: "New", "(*Document).Save", "(Document).X".
func (p *Program) Func(pkgPath, name string) *ssa.Function {
	if f := p.funcByName(pkgPath, name); f != nil {
		return f
	}
	return aliasFunc[pkgPath+"\x00"+name] // a recorded function that was renamed (roles.go)
}

func (p *Program) funcByName(pkgPath, name string) *ssa.Function {
	sp := p.SSAPkg[pkgPath]
	if sp == nil {
		return nil
	}
	if strings.HasPrefix(name, "(") {
		i := strings.Index(name, ").")
		recv := name[1:i]
		meth := name[i+2:]
		ptr := strings.HasPrefix(recv, "*")
		recv = strings.TrimPrefix(recv, "*")
		obj := sp.Pkg.Scope().Lookup(recv)
		if obj == nil {
			return nil
		}
		var t types.Type = obj.Type()
		if ptr {
			t = types.NewPointer(t)
		}
		sel := p.SSA.MethodSets.MethodSet(t).Lookup(sp.Pkg, meth)
		if sel == nil {
			return nil
		}
		return p.SSA.MethodValue(sel)
	}
	return sp.Func(name)
}

// Named returns the named type pkg.name.
func (p *Program) Named(pkgPath, name string) *types.Named {
	pk := p.Pkgs[pkgPath]
	if pk == nil {
		// look through imports
		for _, ap := range p.AllPkgs {
			var found *types.Named
			packages.Visit([]*packages.Package{ap}, nil, func(x *packages.Package) {
				if x.PkgPath == pkgPath && found == nil {
					if o := x.Types.Scope().Lookup(name); o != nil {
						if n, ok := o.Type().(*types.Named); ok {
							found = n
						}
					}
				}
			})
			if found != nil {
				return found
			}
		}
		return nil
	}
	o := pk.Types.Scope().Lookup(name)
	if o == nil {
		return nil
	}
	n, _ := o.Type().(*types.Named)
	return n
}

func (p *Program) pos(pos token.Pos) string {
	if !pos.IsValid() {
		return "?"
	}
	pp := p.Fset.Position(pos)
	f := pp.Filename
	if strings.HasPrefix(f, p.RepoDir+"/") {
		f = f[len(p.RepoDir)+1:]
	}
	return fmt.Sprintf("%s:%d", f, pp.Line)
}

// instrPos gives a best-effort position for an instruction.
func instrPos(in ssa.Instruction) token.Pos {
	if in.Pos().IsValid() {
		return in.Pos()
	}
	if v, ok := in.(ssa.Value); ok {
		_ = v
	}
	// search operands
	for _, op := range in.Operands(nil) {
		if *op != nil && (*op).Pos().IsValid() {
			return (*op).Pos()
		}
	}
	if in.Parent() != nil {
		return in.Parent().Pos()
	}
	return token.NoPos
}

// inModule reports whether fn belongs to one of the three library packages.
func (p *Program) inModule(fn *ssa.Function) bool {
	return fn != nil && p.Funcs[fn]
}

// topLevel returns the outermost enclosing function of a closure.
func topLevel(fn *ssa.Function) *ssa.Function {
	for fn.Parent() != nil {
		fn = fn.Parent()
	}
	return fn
}

// funcDecl finds the AST declaration of fn (nil for synthetic).
func (p *Program) funcDecl(fn *ssa.Function) *ast.FuncDecl {
	if fn == nil {
		return nil
	}
	if d, ok := fn.Syntax().(*ast.FuncDecl); ok {
		return d
	}
	return nil
}

// pkgOf returns the packages.Package that declares fn.
func (p *Program) pkgOf(fn *ssa.Function) *packages.Package {
	fn = topLevel(fn)
	if fn.Pkg == nil {
		return nil
	}
	return p.Pkgs[fn.Pkg.Pkg.Path()]
}

// staticCallee returns the statically-known callee of a call instruction
// (function, method or closure literal), or nil.
func staticCallee(c ssa.CallInstruction) *ssa.Function {
	cc := c.Common()
	if f := cc.StaticCallee(); f != nil {
		// a call of a generic function goes through a synthetic instantiation (wrapper): the code that
		// runs is the generic function's own body, with the same parameters in the same positions
		if o := f.Origin(); o != nil && o != f && len(o.Blocks) > 0 {
			return o
		}
		return f
	}
	return nil
}

// typeArgsOfCall: the type arguments of a call to an instantiated generic function.
func typeArgsOfCall(c ssa.CallInstruction) []types.Type {
	if f := c.Common().StaticCallee(); f != nil {
		return f.TypeArgs()
	}
	return nil
}

// calleeName returns "pkgpath.Name" / "(recv).Name" for static callees, or the
// interface method name "iface:(pkg.T).M" for invoke-mode calls.
func calleeName(c ssa.CallInstruction) string {
	cc := c.Common()
	if cc.IsInvoke() {
		return "invoke:" + cc.Method.FullName()
	}
	if f := cc.StaticCallee(); f != nil {
		return fullName(f)
	}
	if b, ok := cc.Value.(*ssa.Builtin); ok {
		return "builtin:" + b.Name()
	}
	return ""
}

func fullName(f *ssa.Function) string {
	if f == nil {
		return ""
	}
	if c, ok := canonName[f]; ok {
		return c
	}
	if o := f.Object(); o != nil {
		if fo, ok := o.(*types.Func); ok {
			return fo.FullName()
		}
	}
	return f.String()
}

// shortName strips the module path from a full name for readable keys.
func shortName(f *ssa.Function) string {
	n := fullName(f)
	n = strings.ReplaceAll(n, modPath+"/pkg/", "")
	return n
}

// derefType strips pointers.
func derefType(t types.Type) types.Type {
	for {
		if p, ok := t.Underlying().(*types.Pointer); ok {
			t = p.Elem()
			continue
		}
		return t
	}
}

// namedOf returns the *types.Named behind t (through pointers), or nil.
func namedOf(t types.Type) *types.Named {
	t = derefType(t)
	n, _ := t.(*types.Named)
	return n
}

func typeIs(t types.Type, pkgPath, name string) bool {
	n := namedOf(t)
	if n == nil || n.Obj() == nil || n.Obj().Pkg() == nil {
		return false
	}
	return n.Obj().Pkg().Path() == pkgPath && n.Obj().Name() == name
}

func typeName(t types.Type) string {
	n := namedOf(t)
	if n == nil {
		return t.String()
	}
	if n.Obj().Pkg() == nil {
		return n.Obj().Name()
	}
	pp := n.Obj().Pkg().Path()
	if i := strings.LastIndex(pp, "/"); i >= 0 {
		pp = pp[i+1:]
	}
	return pp + "." + n.Obj().Name()
}

// dynamicCallees: module functions the VTA call graph gives as possible callees of the (dynamic)
// call c in fn.
func (p *Program) dynamicCallees(fn *ssa.Function, c ssa.CallInstruction) map[*ssa.Function]bool {
	out := map[*ssa.Function]bool{}
	n := p.CallGraph().Nodes[fn]
	if n == nil {
		return out
	}
	for _, e := range n.Out {
		if e.Site != c || e.Callee == nil || e.Callee.Func == nil {
			continue
		}
		f := e.Callee.Func
		// a method expression or bound method value is a synthetic thunk around the method
		for d := 0; d < 3 && f != nil && f.Synthetic != "" && !p.inModule(f); d++ {
			var inner *ssa.Function
			allInstrs(f, func(in ssa.Instruction) {
				if ci, ok := in.(ssa.CallInstruction); ok {
					if g := ci.Common().StaticCallee(); g != nil {
						inner = g
					}
				}
			})
			f = inner
		}
		if f != nil && p.inModule(f) {
			out[f] = true
		}
	}
	return out
}
